//! case generator for the outstation engine: a weighted grammar over every function code the
//! outstation executes (+ unknown ones, confirms with right / wrong sequence numbers), valid and
//! invalid object headers, byte-identical repeats at every position, time advances to t-1, t,
//! t+1 of the armed deadlines, broadcasts of all three modes, foreign masters, disconnects.
use crate::eng_db::Ty;
use crate::rng::Rng;
use crate::util::hex;
use std::io::Write;

const OUTSTATION: u16 = 1024;

pub struct GenCfg {
    pub with_db: bool,
}

fn ctrl(seq: u8) -> u8 {
    0xC0 | (seq & 0x0F)
}

fn g12v1(r: &mut Rng) -> Vec<u8> {
    let mut v = vec![*r.pick(&[0x01u8, 0x03, 0x04, 0x41, 0x81, 0x00, 0x10, 0x23]), r.range(0, 3) as u8];
    v.extend_from_slice(&(r.range(0, 5000) as u32).to_le_bytes());
    v.extend_from_slice(&(r.range(0, 5000) as u32).to_le_bytes());
    v.push(0);
    v
}

fn g41(r: &mut Rng, var: u8) -> Vec<u8> {
    let mut v: Vec<u8> = match var {
        1 => (r.next() as i32).to_le_bytes().to_vec(),
        2 => (r.next() as i16).to_le_bytes().to_vec(),
        3 => ((r.range(0, 2000) as f32) * 0.5 - 300.0).to_le_bytes().to_vec(),
        _ => ((r.range(0, 2000) as f64) * 0.25 - 100.0).to_le_bytes().to_vec(),
    };
    v.push(0);
    v
}

/// 1..3 control headers
/// control headers, sometimes (1/6) with a parsable header that is not a control header in front of or
/// behind them: such a request is refused as a whole (PARAMETER_ERROR, nothing actuated) and, for
/// DIRECT_OPERATE_NR, not answered at all (S71)
fn control_objects(r: &mut Rng, max_items: usize) -> Vec<u8> {
    control_objects_end(r, max_items).0
}

/// … and the offset one past the last control object (a perturbation of the objects stays inside them)
fn control_objects_end(r: &mut Rng, max_items: usize) -> (Vec<u8>, usize) {
    let o = control_headers(r, max_items);
    if !r.chance(1, 6) {
        let n = o.len();
        return (o, n);
    }
    let extra: &[u8] = *r.pick(&[&[0x3cu8, 0x02, 0x06][..], &[0x3c, 0x01, 0x06], &[0x01, 0x00, 0x06], &[0x1e, 0x00, 0x06], &[0x02, 0x00, 0x06]]);
    if r.chance(1, 2) {
        let mut out = extra.to_vec();
        out.extend(o);
        let n = out.len();
        (out, n)
    } else {
        let mut out = o;
        let n = out.len();
        out.extend_from_slice(extra);
        (out, n)
    }
}

fn control_headers(r: &mut Rng, max_items: usize) -> Vec<u8> {
    let mut out = Vec::new();
    let nh = if r.chance(3, 4) { 1 } else { r.range(2, 3) };
    for _ in 0..nh {
        let two = r.chance(1, 3);
        let kind = r.below(5);
        let n = r.range(1, max_items as u64) as usize;
        let (g, v) = if kind == 0 { (12u8, 1u8) } else { (41u8, kind as u8) };
        out.push(g);
        out.push(v);
        if two {
            out.push(0x28);
            out.extend_from_slice(&(n as u16).to_le_bytes());
        } else {
            out.push(0x17);
            out.push(n as u8);
        }
        for _ in 0..n {
            if two {
                let idx = if r.chance(1, 4) { *r.pick(&[0u16, 255, 256, 65535]) } else { r.below(20) as u16 };
                out.extend_from_slice(&idx.to_le_bytes());
            } else {
                out.push(if r.chance(1, 5) { 255 } else { r.below(10) as u8 });
            }
            if g == 12 {
                out.extend(g12v1(r));
            } else {
                out.extend(g41(r, v));
            }
        }
    }
    out
}

/// one READ header over the groups of any of the eight point types: static (all objects / 8- or 16-bit
/// range, default or specific variation), events (all / count-limited), analog dead-bands, frozen analogs
fn typed_read_header(r: &mut Rng, types: &[Ty]) -> Vec<u8> {
    let ty = if types.is_empty() || r.chance(1, 6) { *r.pick(&Ty::ALL) } else { *r.pick(types) };
    let var = |r: &mut Rng, vars: &[u8]| if vars.is_empty() || r.chance(1, 2) { 0 } else { *r.pick(vars) };
    match r.below(12) {
        0..=5 => {
            let g = ty.static_group();
            let v = var(r, ty.static_vars());
            match r.below(4) {
                0 => vec![g, v, 0x06],
                1 => {
                    let a = r.below(6) as u8;
                    vec![g, v, 0x00, a, a + r.below(12) as u8]
                }
                2 => {
                    let a = *r.pick(&[0u16, 1, 3, 250, 255, 1000]);
                    let b = a.saturating_add(*r.pick(&[0u16, 2, 10, 64, 300, 65535]));
                    let mut h = vec![g, v, 0x01];
                    h.extend_from_slice(&a.to_le_bytes());
                    h.extend_from_slice(&b.to_le_bytes());
                    h
                }
                _ => vec![g, v, 0x00, 0x00, 0x07],
            }
        }
        6..=9 => {
            let g = ty.event_group();
            let v = var(r, ty.event_vars());
            match r.below(3) {
                0 => vec![g, v, 0x06],
                1 => vec![g, v, 0x07, *r.pick(&[0u8, 1, 2, 5, 255])],
                _ => {
                    let n = *r.pick(&[1u16, 3, 300]);
                    vec![g, v, 0x08, n as u8, (n >> 8) as u8]
                }
            }
        }
        10 => {
            if r.chance(1, 2) { vec![34, r.below(4) as u8, 0x06] } else { vec![34, r.range(1, 3) as u8, 0x00, 0x00, 0x09] }
        }
        _ => match r.below(3) {
            0 => vec![31, r.below(9) as u8, 0x06],
            1 => vec![33, r.below(9) as u8, 0x06],
            _ => vec![33, r.below(9) as u8, 0x07, 0x02],
        },
    }
}

fn read_headers(r: &mut Rng, typed: Option<&[Ty]>) -> Vec<u8> {
    if let Some(types) = typed {
        // the database engine: half of the READs go over the groups of the types the case uses
        if r.chance(1, 2) {
            let n = match r.below(10) {
                0..=5 => 1,
                6..=7 => 2,
                8 => 3,
                _ => 4,
            };
            let mut out = Vec::new();
            for _ in 0..n {
                if r.chance(1, 3) {
                    out.extend_from_slice(*r.pick(&[&[0x3cu8, 0x01, 0x06][..], &[0x3c, 0x02, 0x06], &[0x3c, 0x03, 0x06], &[0x3c, 0x04, 0x06], &[0x3c, 0x02, 0x07, 0x01]]));
                } else {
                    out.extend(typed_read_header(r, types));
                }
            }
            return out;
        }
    }
    let table: [&[u8]; 31] = [
        &[0x3c, 0x01, 0x06],
        &[0x3c, 0x02, 0x06],
        &[0x3c, 0x03, 0x06],
        &[0x3c, 0x04, 0x06],
        &[0x3c, 0x02, 0x07, 0x01],
        &[0x3c, 0x03, 0x08, 0x02, 0x00],
        &[0x3c, 0x04, 0x07, 0x00],
        &[0x01, 0x00, 0x06],
        &[0x01, 0x02, 0x06],
        &[0x01, 0x02, 0x00, 0x00, 0x05],
        &[0x01, 0x00, 0x01, 0x00, 0x00, 0x10, 0x00],
        &[0x01, 0x00, 0x00, 0x03, 0x03],
        &[0x1e, 0x00, 0x06],
        &[0x1e, 0x01, 0x06],
        &[0x1e, 0x01, 0x00, 0x00, 0x02],
        &[0x1e, 0x00, 0x01, 0x00, 0x01, 0xff, 0xff],
        &[0x02, 0x00, 0x06],
        &[0x02, 0x01, 0x07, 0x02],
        &[0x02, 0x00, 0x08, 0x03, 0x00],
        &[0x20, 0x00, 0x06],
        &[0x20, 0x01, 0x07, 0x01],
        &[0x20, 0x00, 0x07, 0x05],
        &[0x01, 0x01, 0x06],
        &[0x01, 0x01, 0x00, 0x00, 0x30],
        &[0x01, 0x01, 0x01, 0x03, 0x00, 0x2c, 0x01],
        &[0x1e, 0x02, 0x06],
        &[0x1e, 0x03, 0x06],
        &[0x1e, 0x04, 0x00, 0x00, 0x20],
        &[0x1e, 0x05, 0x06],
        &[0x1e, 0x06, 0x06],
        &[0x1e, 0x01, 0x01, 0x00, 0x00, 0x40, 0x00],
    ];
    let n = match r.below(10) {
        0..=5 => 1,
        6..=7 => 2,
        8 => 3,
        _ => 4,
    };
    let mut out = Vec::new();
    for _ in 0..n {
        // class polls dominate (integrity / event polls)
        let h = if r.chance(1, 2) { table[r.below(7) as usize] } else { *r.pick(&table) };
        out.extend_from_slice(h);
    }
    if r.chance(1, 12) {
        // the classic integrity poll
        out = vec![0x3c, 0x02, 0x06, 0x3c, 0x03, 0x06, 0x3c, 0x04, 0x06, 0x3c, 0x01, 0x06];
    }
    out
}

fn malformed_objects(r: &mut Rng) -> Vec<u8> {
    let t: [&[u8]; 12] = [
        &[0x63, 0x01, 0x06],                   // unknown group
        &[0x01, 0x09, 0x06],                   // unknown variation
        &[0x3c, 0x01, 0x07, 0x01],             // g60v1 with a count: invalid qualifier for variation
        &[0x01, 0x02, 0x99],                   // unknown qualifier
        &[0x01, 0x02, 0x00, 0x05],             // truncated range
        &[0x01, 0x02, 0x00, 0x09, 0x03],       // stop < start
        &[0x3c],                               // truncated header
        &[0x3c, 0x02],                         // truncated header
        &[0x0c, 0x01, 0x17, 0x01, 0x05, 0x01], // truncated control object
        &[0x0c, 0x01, 0x06],                   // g12v1 all objects: invalid qualifier
        &[0x29, 0x01, 0x28, 0x01],             // truncated count
        &[0x3c, 0x02, 0x06, 0x63, 0x01, 0x06], // good header then unknown group
    ];
    r.pick(&t).to_vec()
}

struct G<'a> {
    r: Rng,
    w: &'a mut dyn Write,
    seq: u8,
    last: Option<(u16, u16, Vec<u8>)>,
    last_note: Option<String>,
    last_select: Option<(u8, Vec<u8>, usize)>,
    cfg_ctimeout: u64,
    cfg_stimeout: u64,
    cfg_rdelay: u64,
    cfg_keepalive: Option<u64>,
    gc: GenCfg,
    next_time: u64,
    points: Vec<(Ty, u16)>,
    /// the database engine's "all types" profile: points of any of the eight types, READs over their groups
    typed: bool,
    types: Vec<Ty>,
    counter: i64,
    /// points added with a non-zero dead-band: (type, index, dead-band)
    deadbands: Vec<(Ty, u16, i64)>,
    drift_value: i64,
}

impl<'a> G<'a> {
    fn line(&mut self, s: &str) {
        writeln!(self.w, "{s}").unwrap();
    }

    fn rx(&mut self, src: u16, dst: u16, frag: Vec<u8>) {
        self.line(&format!("rx {} {} {}", src, dst, hex(&frag)));
        if dst == OUTSTATION && !frag.is_empty() {
            self.last = Some((src, dst, frag));
        }
    }

    fn pick_src(&mut self) -> u16 {
        if self.r.chance(1, 14) { 2 } else { 1 }
    }

    fn pick_dst(&mut self) -> u16 {
        match self.r.below(30) {
            0 => 0xFFFF,
            1 => 0xFFFE,
            2 => 0xFFFD,
            3 => 0xFFFC,
            4 => 77,
            _ => OUTSTATION,
        }
    }

    fn next_seq(&mut self) -> u8 {
        let s = self.seq;
        self.seq = (self.seq + 1) & 0x0F;
        if self.r.chance(1, 15) { self.r.below(16) as u8 } else { s }
    }

    fn request(&mut self) {
        let src = self.pick_src();
        let dst = self.pick_dst();
        let seq = self.next_seq();
        let mut f = vec![ctrl(seq)];
        let mut note: Option<String> = None;
        let max_items = if self.r.chance(1, 10) { 30 } else { 3 };
        match self.r.below(40) {
            0..=9 => {
                f.push(1);
                let typed: Option<Vec<Ty>> = if self.gc.with_db && self.typed { Some(self.types.clone()) } else { None };
                f.extend(read_headers(&mut self.r, typed.as_deref()));
                note = Some("@wf".into());
                if self.r.chance(1, 10) {
                    // parses, but is not supported in a READ request: must be flagged
                    let h: &[u8] = *self.r.pick(&[&[0x50u8, 0x01, 0x06][..], &[0x50, 0x01, 0x00, 0x00, 0x07]]);
                    if self.r.chance(1, 2) {
                        f.extend_from_slice(h);
                    } else {
                        let mut g = vec![f[0], 1];
                        g.extend_from_slice(h);
                        g.extend_from_slice(&f[2..]);
                        f = g;
                    }
                    note = Some("@wf @reject".into());
                }
            }
            10..=13 => {
                // SELECT (remembered so that a matching OPERATE can follow)
                f.push(3);
                let (o, end) = control_objects_end(&mut self.r, max_items);
                f.extend(&o);
                self.last_select = Some((seq, o, end));
                note = Some("@wf".into());
            }
            14..=17 => {
                // OPERATE: matching the last SELECT, or perturbed
                f.push(4);
                match self.last_select.clone() {
                    Some((sseq, o, end)) if self.r.chance(5, 6) => {
                        let mut o = o;
                        match self.r.below(8) {
                            0 => {
                                o[end - 2] ^= 0x01; // different objects
                            }
                            1 => f[0] = ctrl(sseq),            // same seq as the select
                            2 => f[0] = ctrl(sseq.wrapping_add(2)), // skipped seq
                            _ => f[0] = ctrl(sseq.wrapping_add(1)),
                        }
                        self.seq = (f[0].wrapping_add(1)) & 0x0F;
                        f.extend(o);
                    }
                    _ => f.extend(control_objects(&mut self.r, max_items)),
                }
            }
            18..=20 => {
                f.push(5);
                f.extend(control_objects(&mut self.r, max_items));
                note = Some("@wf".into());
            }
            21 => {
                f.push(6);
                f.extend(control_objects(&mut self.r, max_items));
                note = Some("@wf".into());
            }
            22..=25 => {
                // WRITE
                f.push(2);
                let n = if self.r.chance(2, 3) { 1 } else { 2 };
                let mut kinds: Vec<u64> = Vec::new();
                for _ in 0..n {
                    let kind = self.r.below(9);
                    kinds.push(kind);
                    match kind {
                        0 | 1 => f.extend_from_slice(&[0x50, 0x01, 0x00, 0x07, 0x07, 0x00]),
                        2 => f.extend_from_slice(&[0x50, 0x01, 0x00, 0x07, 0x07, 0x01]),
                        3 => f.extend_from_slice(&[0x50, 0x01, 0x00, 0x04, 0x04, 0x00]),
                        4 => {
                            // a range wider than index 7: the other indices are refused, index 7 = 0 still clears
                            let h: &[u8] = *self.r.pick(&[&[0x50u8, 0x01, 0x00, 0x00, 0x0f, 0x00, 0x00][..], &[0x50, 0x01, 0x00, 0x06, 0x07, 0x00], &[0x50, 0x01, 0x00, 0x00, 0x07, 0x00], &[0x50, 0x01, 0x00, 0x07, 0x08, 0x00], &[0x50, 0x01, 0x00, 0x05, 0x07, 0x04]]);
                            f.extend_from_slice(h);
                        }
                        5 => {
                            f.extend_from_slice(&[0x32, 0x01, 0x07, 0x01]);
                            f.extend_from_slice(&self.r.next().to_le_bytes()[..6]);
                        }
                        6 => {
                            f.extend_from_slice(&[0x32, 0x03, 0x07, 0x01]);
                            let t = if self.r.chance(1, 4) { 0xFFFF_FFFF_FFFFu64 - self.r.below(3) } else { self.r.below(1 << 40) };
                            f.extend_from_slice(&t.to_le_bytes()[..6]);
                        }
                        7 => f.extend_from_slice(&[0x50, 0x01, 0x01, 0x07, 0x00, 0x07, 0x00, 0x00]),
                        _ => f.extend_from_slice(&[0x3c, 0x01, 0x06]),
                    }
                }
                let rejected = |k: &u64| matches!(*k, 2 | 3 | 4 | 7 | 8);
                let accepted = |k: &u64| matches!(*k, 0 | 1);
                if kinds.iter().any(rejected) {
                    let last = kinds.last().unwrap();
                    if rejected(last) {
                        note = Some("@reject".into());
                    } else if accepted(last) {
                        note = Some("@reject d7".into());
                    }
                }
            }
            26 => {
                f.push(*self.r.pick(&[7u8, 8, 9, 10, 11, 12]));
                let hk = self.r.below(4);
                match hk {
                    0 => f.extend_from_slice(&[0x14, 0x00, 0x06]),
                    1 => f.extend_from_slice(&[0x14, 0x00, 0x00, 0x01, 0x04]),
                    2 => f.extend_from_slice(&[0x14, 0x00, 0x01, 0x01, 0x00, 0x00, 0x01]),
                    _ => f.extend_from_slice(&[0x1e, 0x00, 0x06]),
                }
                let fc = f[1];
                note = Some(if fc == 11 || fc == 12 || hk == 3 { "@reject".into() } else { "@wf".into() });
                if (fc == 11 || fc == 12) && self.r.chance(2, 3) {
                    // FREEZE_AT_TIME proper: the time-and-interval object (g50v2, count 1) first, then one to three
                    // freeze headers, accepted (g20v0) and rejected ones in any order: the response reports an
                    // error if ANY header was rejected, also when the last one was accepted (S154)
                    f.truncate(2);
                    let bad_count = self.r.chance(1, 8);
                    f.extend_from_slice(&[0x32, 0x02, 0x07, if bad_count { 2 } else { 1 }]);
                    for _ in 0..(if bad_count { 2 } else { 1 }) {
                        f.extend_from_slice(&self.r.below(1 << 40).to_le_bytes()[..6]);
                        f.extend_from_slice(&(self.r.below(100000) as u32).to_le_bytes());
                    }
                    let mut rejected = bad_count;
                    for _ in 0..self.r.range(1, 3) {
                        match self.r.below(5) {
                            0 | 1 => f.extend_from_slice(&[0x14, 0x00, 0x06]),
                            2 => f.extend_from_slice(&[0x14, 0x00, 0x00, 0x01, 0x04]),
                            3 => {
                                f.extend_from_slice(&[0x16, 0x00, 0x06]);
                                rejected = true;
                            }
                            _ => {
                                f.extend_from_slice(&[0x1e, 0x00, 0x06]);
                                rejected = true;
                            }
                        }
                    }
                    note = Some(if rejected { "@reject".into() } else { "@wf".into() });
                }
            }
            27..=29 => {
                f.push(if self.r.chance(1, 2) { 20 } else { 21 });
                for v in [2u8, 3, 4] {
                    if self.r.chance(1, 2) {
                        f.extend_from_slice(&[0x3c, v, 0x06]);
                    }
                }
                if self.r.chance(1, 8) {
                    f.extend_from_slice(&[0x3c, 0x01, 0x06]);
                    note = Some("@reject".into());
                }
            }
            30 => {
                f.push(*self.r.pick(&[23u8, 24, 13, 14]));
                if self.r.chance(1, 6) {
                    f.extend_from_slice(&[0x3c, 0x01, 0x06]);
                    note = Some("@reject".into());
                }
            }
            31 => f.push(24),
            32 => {
                f.push(*self.r.pick(&[15u8, 16, 17, 18, 19, 22, 25, 26, 27, 28, 29, 30]));
                note = Some("@reject".into());
            }
            33 => f.push(*self.r.pick(&[31u8, 70, 128, 131, 255])), // unknown function codes
            34 => {
                // a response function code sent as a request
                f.push(*self.r.pick(&[129u8, 130]));
                let n = self.r.below(4) as usize;
                f.extend(self.r.bytes(n));
            }
            35 => {
                // bad control flags
                f[0] = *self.r.pick(&[0x80u8, 0x40, 0x00, 0xD0, 0xE0]) | seq;
                f.push(*self.r.pick(&[1u8, 2, 3, 0]));
            }
            36 => {
                f.truncate(if self.r.chance(1, 2) { 1 } else { 0 });
            }
            _ => {
                // malformed objects under a function that takes objects
                f.push(*self.r.pick(&[1u8, 2, 3, 4, 5, 6, 7, 20, 21]));
                f.extend(malformed_objects(&mut self.r));
                note = Some("@reject malformed".into());
            }
        }
        if let Some(n) = &note {
            self.line(n);
        }
        if dst == OUTSTATION && !f.is_empty() {
            self.last_note = note.clone();
        }
        self.rx(src, dst, f);
    }

    /// SELECT .. [retransmissions of it, time passing] .. OPERATE with the time budget placed around the select
    /// timeout: measured from the ORIGINAL select (a retransmission must not extend it)
    fn select_script(&mut self) {
        let st = self.cfg_stimeout;
        let seq = self.next_seq();
        let mut sel = vec![ctrl(seq), 3];
        // sometimes so many controls that the echo outgrows a small solicited buffer (249: 62 g41v2 objects,
        // 300: 74): the SELECT's echo is truncated, it has not succeeded and must not arm the OPERATE (S146)
        let o = if self.r.chance(1, 8) {
            let n = *self.r.pick(&[62u8, 74, 80]);
            let mut o = vec![0x29, 0x02, 0x17, n];
            for k in 0..n {
                o.push(k);
                o.extend_from_slice(&(self.r.next() as i16).to_le_bytes());
                o.push(0);
            }
            o
        } else {
            control_headers(&mut self.r, 3)
        };
        sel.extend(&o);
        self.line("@wf");
        self.last_note = Some("@wf".into());
        self.rx(1, OUTSTATION, sel.clone());
        self.last_select = Some((seq, o.clone(), o.len()));
        // total time between the select and the operate: below, at and above the timeout
        let total = match self.r.below(6) {
            0 => st.saturating_sub(1).max(2),
            1 => st,
            2 | 3 => st + 1,
            4 => st + self.r.range(2, st),
            _ => self.r.range(2, st.max(3)),
        };
        let reps = self.r.below(3);
        let mut left = total;
        for k in 0..reps {
            // a retransmission of the select somewhere inside the window
            let a = if k + 1 == reps { self.r.range(1, left.saturating_sub(1).max(1)) } else { self.r.range(1, (left / 2).max(1)) };
            let a = a.min(left.saturating_sub(1)).max(1);
            self.line(&format!("tick {a}"));
            left = left.saturating_sub(a).max(1);
            self.line("@wf");
            self.line(&format!("rx 1 {} {}", OUTSTATION, hex(&sel)));
        }
        if reps == 0 && self.r.chance(1, 30) {
            // exactly 256 (or 512) other fragments between the two steps: the sequence number is back where a
            // directly following OPERATE would have it, the fragment counter is not (S106)
            let n = if self.r.chance(3, 4) { 256 } else { 512 };
            for k in 0..n {
                let sq = seq.wrapping_add((1 + k as u32) as u8) & 0x0F;
                self.rx(1, OUTSTATION, vec![ctrl(sq), 23]);
            }
        } else if reps == 0 && self.r.chance(1, 4) {
            // the session ends between the two steps (link error, next session on the same task): the OPERATE
            // is the very first fragment of the new session and still inside the time window (S69)
            let a = self.r.range(0, left.saturating_sub(1).max(1)).min(left.saturating_sub(1));
            if a > 0 {
                self.line(&format!("tick {a}"));
            }
            self.line("cut");
            left = left.saturating_sub(a).max(1);
        }
        self.line(&format!("tick {left}"));
        let mut op = vec![ctrl(seq.wrapping_add(1) & 0x0F), 4];
        op.extend(&o);
        self.seq = seq.wrapping_add(2) & 0x0F;
        self.rx(1, OUTSTATION, op);
        self.last_note = None;
    }

    fn repeat_last(&mut self) {
        if let Some((src, dst, f)) = self.last.clone() {
            let n = if self.r.chance(4, 5) { 1 } else { 2 };
            for _ in 0..n {
                if let Some(note) = self.last_note.clone() {
                    self.line(&note);
                }
                self.line(&format!("rx {} {} {}", src, dst, hex(&f)));
            }
        } else {
            self.request();
        }
    }

    /// an integrity READ whose fragments are each confirmed in time (0.6 of the confirm timeout after they were
    /// sent), the whole series taking longer than one confirm timeout: every fragment has its own deadline (S153)
    fn slow_series(&mut self) {
        let seq = self.next_seq();
        self.line("@wf");
        self.rx(1, OUTSTATION, vec![ctrl(seq), 1, 0x3c, 0x01, 0x06]);
        let wait = self.cfg_ctimeout * 3 / 5;
        for _ in 0..self.r.range(2, 4) {
            self.line(&format!("tick {wait}"));
            self.line("cfm sol 0 1");
        }
        self.last_note = None;
    }

    fn confirm(&mut self) {
        let uns = self.r.chance(1, 2);
        let delta = match self.r.below(10) {
            0 => 1,
            1 => 15,
            2 => self.r.below(16),
            _ => 0,
        };
        let src = self.pick_src();
        self.line(&format!("cfm {} {} {}", if uns { "uns" } else { "sol" }, delta, src));
    }

    fn tick(&mut self) {
        let base = match self.r.below(6) {
            0 | 1 => self.cfg_ctimeout,
            2 => self.cfg_stimeout,
            3 => self.cfg_rdelay,
            4 => self.cfg_keepalive.unwrap_or(1000),
            _ => self.r.range(1, 3000),
        };
        let t = match self.r.below(5) {
            0 => base.saturating_sub(1).max(1),
            1 | 2 => base,
            3 => base + 1,
            _ => self.r.range(1, base.max(2)),
        };
        self.line(&format!("tick {t}"));
    }

    /// one `txn` item for a point: value, flags, time in the engine's syntax
    fn item(&mut self, ty: Ty, idx: u16, plain: bool) -> String {
        self.counter += 1;
        let flags = if plain || self.r.chance(3, 4) { 0x01 } else { *self.r.pick(&[0x00u8, 0x03, 0x05, 0x41, 0x21]) };
        let value: String = match ty {
            Ty::Bin | Ty::Bos => self.r.below(2).to_string(),
            Ty::Dbl => self.r.below(4).to_string(),
            Ty::Ctr | Ty::Frz => match self.r.below(8) {
                0 if !plain => self.r.pick(&[0i64, 65535, 65536, u32::MAX as i64]).to_string(),
                _ => (self.counter * 3).to_string(),
            },
            Ty::An | Ty::Aos => match self.r.below(8) {
                0 if !plain => self.r.pick(&[i32::MAX as i64, i32::MIN as i64, i32::MAX as i64 + 1, i32::MIN as i64 - 1, 0]).to_string(),
                _ => (self.r.range(0, 100000) as i64 - 50000).to_string(),
            },
            Ty::Os => {
                // mostly short strings; once in a while one that may not fit a small transmit buffer at all
                // (D15: the response series then never makes progress)
                let n = if plain { 2 } else if self.r.chance(1, 40) { *self.r.pick(&[200usize, 241, 242, 255]) } else { *self.r.pick(&[1usize, 1, 2, 3, 8, 30]) };
                let mut o = self.r.bytes(n);
                o[0] = self.counter as u8;
                hex(&o)
            }
        };
        // `UpdateOptions` other than the default once in a while (Force / Suppress / static value left alone)
        let opts = if !plain && self.r.chance(1, 8) { format!(":{}", self.r.below(6)) } else { String::new() };
        format!(" {}:{}:{}:{}:{}{}", ty.code(), idx, value, flags, self.next_time, opts)
    }

    /// a transaction that lets one point with a dead-band drift: steps of dead-band - 1, dead-band, dead-band + 1
    /// away from / back towards where it started
    fn drift(&mut self) {
        if self.deadbands.is_empty() {
            return self.txn();
        }
        let (ty, idx, d) = *self.r.pick(&self.deadbands.clone());
        let n = self.r.range(2, 8);
        let mut s = String::from("txn");
        for _ in 0..n {
            let step = match self.r.below(8) {
                0 => d - 1,
                1 => d,
                2 => d + 1,
                3 => -(d - 1),
                4 => -d,
                5 => -(d + 1),
                6 => 1,
                _ => 2 * d,
            };
            self.drift_value = (self.drift_value + step).clamp(0, 1_000_000_000);
            self.next_time += self.r.range(1, 500);
            s += &format!(" {}:{}:{}:1:{}", ty.code(), idx, self.drift_value, self.next_time);
        }
        self.line(&s);
    }

    fn txn(&mut self) {
        if self.points.is_empty() {
            return;
        }
        let n = self.r.range(1, 3);
        let mut s = String::from("txn");
        for _ in 0..n {
            let (ty, idx) = *self.r.pick(&self.points.clone());
            self.next_time += self.r.range(1, 70000);
            if !self.typed {
                // the original two-type stream, draw for draw
                let flags = if self.r.chance(3, 4) { 0x01 } else { *self.r.pick(&[0x00u8, 0x03, 0x05, 0x41, 0x21]) };
                if ty == Ty::Bin {
                    s += &format!(" bin:{}:{}:{}:{}", idx, self.r.below(2), flags, self.next_time);
                } else {
                    let v: i64 = match self.r.below(8) {
                        0 => *self.r.pick(&[i32::MAX as i64, i32::MIN as i64, i32::MAX as i64 + 1, i32::MIN as i64 - 1, 0]),
                        _ => self.r.range(0, 100000) as i64 - 50000,
                    };
                    s += &format!(" an:{}:{}:{}:{}", idx, v, flags, self.next_time);
                }
            } else {
                s += &self.item(ty, idx, false);
            }
        }
        self.line(&s);
    }

    /// many events in one transaction (event series spanning several fragments)
    fn burst(&mut self) {
        if self.points.is_empty() {
            return;
        }
        let n = self.r.range(30, 90);
        let mut s = String::from("txn");
        for _ in 0..n {
            let (ty, idx) = *self.r.pick(&self.points.clone());
            self.next_time += self.r.range(1, 500);
            if !self.typed {
                if ty == Ty::Bin {
                    s += &format!(" bin:{}:{}:1:{}", idx, self.r.below(2), self.next_time);
                } else {
                    s += &format!(" an:{}:{}:1:{}", idx, self.r.range(0, 100000) as i64 - 50000, self.next_time);
                }
            } else {
                s += &self.item(ty, idx, true);
            }
        }
        self.line(&s);
    }
}

pub fn gen_cfg(r: &mut Rng) -> (String, u64, u64, u64, Option<u64>) {
    let sol = *r.pick(&[249u16, 249, 300, 512, 2048]);
    let unsol = *r.pick(&[249u16, 300, 2048]);
    let unsolicited = r.chance(1, 2);
    let retries = *r.pick(&["none", "0", "1", "3"]);
    let ctimeout = *r.pick(&[5000u64, 1009]);
    let stimeout = *r.pick(&[5000u64, 2003, 5000, 2003, 137, 3]); // also below one second (S186)
    let rdelay = *r.pick(&[5000u64, 3001]);
    let keepalive = *r.pick(&[None, None, Some(60000u64), Some(7001)]);
    let s = format!(
        "cfg sol={} unsol={} unsolicited={} retries={} ctimeout={} stimeout={} rdelay={} keepalive={} anymaster={} broadcast={} selfaddr={} maxctl={} evmax={}",
        sol,
        unsol,
        unsolicited as u8,
        retries,
        ctimeout,
        stimeout,
        rdelay,
        keepalive.map(|k| k.to_string()).unwrap_or("none".to_string()),
        r.chance(1, 6) as u8,
        r.chance(5, 6) as u8,
        r.chance(1, 6) as u8,
        *r.pick(&["none", "none", "none", "0", "1", "2"]),
        *r.pick(&[0u16, 1, 2, 5, 10]),
    );
    (s, ctimeout, stimeout, rdelay, keepalive)
}

pub fn gen(thorough: bool, seed: u64, w: &mut dyn Write, gc: GenCfg) {
    let mut root = Rng::new(seed ^ 0x0075_7473);
    let n = if thorough { 60000 } else { 3000 };
    for case in 0..n {
        let mut r = root.fork();
        writeln!(w, "# case {case} kind=session").unwrap();
        let (mut cfg, ct, st, rd, ka) = gen_cfg(&mut r);
        let with_db = gc.with_db;
        // profile "many events": event buffers large enough for event series of several fragments
        let many_events = with_db && r.chance(1, 6);
        if many_events {
            let at = cfg.rfind("evmax=").unwrap();
            cfg.truncate(at);
            cfg += &format!("evmax={}", *r.pick(&[100u16, 250]));
        }
        // the "all types" profile of the database engine (two thirds of its cases): points of one to four (or all
        // eight) types, per-type event capacities (equal, or each type its own, 0 included), sometimes every type
        // in class 0
        let typed = with_db && r.chance(2, 3);
        let mut types: Vec<Ty> = Vec::new();
        if typed {
            let ntypes = match r.below(6) {
                0 => 8,
                1 => 1,
                2 | 3 => 2,
                _ => r.range(3, 4) as usize,
            };
            let mut tys: Vec<Ty> = Ty::ALL.to_vec();
            for i in 0..ntypes {
                let j = i + r.below((8 - i) as u64) as usize;
                tys.swap(i, j);
            }
            tys.truncate(ntypes);
            tys.sort();
            types = tys;
            let base: u16 = if many_events { *r.pick(&[100u16, 250]) } else { *r.pick(&[0u16, 1, 2, 5, 10]) };
            let mut ev = [base; 8];
            match r.below(3) {
                0 => {}
                1 => {
                    for e in ev.iter_mut() {
                        *e = *r.pick(&[0u16, 1, 2, 3, 5, base]);
                    }
                }
                _ => ev[r.below(8) as usize] = *r.pick(&[0u16, 1, 2, base.saturating_add(3)]),
            }
            let at = cfg.rfind("evmax=").unwrap();
            cfg.truncate(at);
            cfg += &format!("evcfg={}", ev.iter().map(|e| e.to_string()).collect::<Vec<_>>().join(","));
            if r.chance(1, 5) {
                cfg += &format!(" czero={}", *r.pick(&[255u8, 255, 0x7E, 0x5F]));
            }
        }
        writeln!(w, "{cfg}").unwrap();
        let mut g = G {
            r, w, seq: 0, last: None, last_note: None, last_select: None, cfg_ctimeout: ct, cfg_stimeout: st, cfg_rdelay: rd,
            cfg_keepalive: ka, gc: GenCfg { with_db }, next_time: 1000, points: Vec::new(), typed, types: types.clone(), counter: 0, deadbands: Vec::new(), drift_value: 1000,
        };
        g.seq = g.r.below(16) as u8;
        if g.gc.with_db && g.r.chance(1, 4) {
            // a database large enough for multi-fragment static responses
            let n = *g.r.pick(&[40u16, 60, 100, 300]);
            let is_bin = g.r.chance(1, 2);
            let ty = if typed { *g.r.pick(&types) } else if is_bin { Ty::Bin } else { Ty::An };
            let start = *g.r.pick(&[0u16, 0, 5, 250]);
            let class = g.r.below(4);
            g.line(&format!("addmany {} {} {} {}", ty.code(), start, n, class));
            for i in 0..n.min(12) {
                g.points.push((ty, start + i * (n / 12).max(1)));
            }
        }
        if many_events {
            let is_bin = g.r.chance(1, 2);
            let ty = if typed { *g.r.pick(&types) } else if is_bin { Ty::Bin } else { Ty::An };
            let class = g.r.range(1, 3);
            g.line(&format!("addmany {} 0 20 {}", ty.code(), class));
            for i in 0..20 {
                g.points.push((ty, i));
            }
            g.burst();
        }
        if g.gc.with_db {
            let np = if typed { g.r.range(1, 10) } else { g.r.range(0, 6) };
            for _ in 0..np {
                let is_bin = g.r.chance(1, 2);
                let idx = if g.r.chance(1, 6) { *g.r.pick(&[255u16, 256, 65535, 1000]) } else { g.r.below(8) as u16 };
                let class = g.r.below(4);
                if typed {
                    let ty = *g.r.pick(&types);
                    if crate::eng_db::has_deadband(ty) && g.r.chance(1, 3) {
                        let d = *g.r.pick(&[1i64, 2, 5, 100, 70000]);
                        g.line(&format!("add {} {} {} {}", ty.code(), idx, class, d));
                        if !g.points.contains(&(ty, idx)) {
                            g.deadbands.push((ty, idx, d));
                        }
                    } else {
                        g.line(&format!("add {} {} {}", ty.code(), idx, class));
                    }
                    g.points.push((ty, idx));
                } else {
                    g.line(&format!("{} {} {}", if is_bin { "addbin" } else { "addan" }, idx, class));
                    g.points.push((if is_bin { Ty::Bin } else { Ty::An }, idx));
                }
            }
        }
        if g.r.chance(1, 3) {
            let l = (0..g.r.range(1, 4)).map(|_| g.r.pick(&[0u8, 0, 0, 1, 2, 4, 5, 8, 9]).to_string()).collect::<Vec<_>>().join(",");
            g.line(&format!("ctl {l}"));
        }
        if g.r.chance(1, 4) {
            let b = g.r.below(16);
            g.line(&format!("appiin {b}"));
        }
        if g.r.chance(1, 5) {
            let v = g.r.below(3);
            g.line(&format!("restart {v}"));
        }
        if g.r.chance(1, 5) {
            let v = g.r.below(3);
            g.line(&format!("timeres {v}"));
        }
        if g.r.chance(1, 5) {
            let v = g.r.below(70000) % 65536;
            g.line(&format!("delay {v}"));
        }
        let len = g.r.range(3, 40);
        for _ in 0..len {
            match g.r.below(100) {
                0..=39 => g.request(),
                40..=49 => g.repeat_last(),
                50..=67 => g.confirm(),
                68..=84 => g.tick(),
                85..=94 => {
                    if many_events && g.r.chance(1, 3) { g.burst() } else if g.gc.with_db && !g.deadbands.is_empty() && g.r.chance(1, 3) { g.drift() } else if g.gc.with_db { g.txn() } else { g.request() }
                }
                95 => {
                    let l = if g.r.chance(1, 3) { "disable" } else { "cut" };
                    g.line(l)
                }
                96 => {
                    if g.gc.with_db && g.r.chance(1, 2) { g.slow_series() } else if g.gc.with_db { g.line("cut") } else { g.select_script() }
                }
                97 => {
                    let b = g.r.below(16);
                    g.line(&format!("appiin {b}"));
                }
                _ => {
                    let l = (0..g.r.range(1, 3)).map(|_| g.r.pick(&[0u8, 0, 1, 2, 4, 8]).to_string()).collect::<Vec<_>>().join(",");
                    g.line(&format!("ctl {l}"));
                }
            }
        }
    }
}
