//! case generator for the outstation engine
use std::io::Write;

pub fn gen(_thorough: bool, _seed: u64, w: &mut dyn Write) {
    writeln!(w, "# case 0 kind=smoke").unwrap();
    for l in [
        "cfg sol=249 unsolicited=0",
        "addbin 0 1", "addbin 1 1", "addan 0 2",
        "rx 1 1024 c0013c0106",
        "txn bin:0:1:1:-",
        "rx 1 1024 c1013c0206",
        "rx 1 1024 c100",
        "rx 1 1024 c2013c0106",
        "rx 1 1024 c2018000",
        "tick 6000",
    ] {
        writeln!(w, "{l}").unwrap();
    }
}
