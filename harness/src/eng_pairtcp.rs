//! engine `pairtcp` (C02, C01): SEARCH ONLY — there is no Lean model counterpart, nothing is diffed, the
//! trace monitors of `mon_pairtcp.rs` decide.  Through the PUBLIC API only: the library's real TCP
//! outstation server (`dnp3::tcp::Server` + `add_outstation_no_spawn` / `bind_no_spawn`, spawned here so
//! that the JoinHandles are observable) and the real master TCP client channel
//! (`spawn_master_tcp_client`: reconnect loop, back-off, `util::session`, the master's start-up sequence)
//! on a REAL multi-threaded tokio runtime with REAL time, one runtime (3 workers) per case, database
//! updates from a separate user thread.  Between the two a byte-level TCP proxy inside the harness
//! (accepts the master's connection, connects to the outstation, forwards both directions through a
//! scripted policy).  Cases run concurrently (distinct ports).
//!
//! ops:  cfg k=v ...        outstation: sol unsol rx unsolicited retries ctimeout stimeout rdelay evmax keepalive maxctl discard(0 = close)
//!                          master/association: mtx mdiscard rto dis int en evscan ovf rmin rmax ka maxq
//!                          client: cmin cmax crec  (ConnectStrategy: min / max connect delay, reconnect delay; ms)
//!       addbin|addan|addctr <i> <cls> | addmany bin|an|ctr <start> <count> <cls>     (user thread)
//!       txn <ty>:<idx>:<value>:<flags>:<time> ...      one database transaction on the user thread (not awaited)
//!       sleep <ms>                                     real time
//!       cut                                            the proxy closes both sockets of the live connection now
//!       cut after <n> m2o|o2m                          ... after forwarding n more octets in that direction
//!       refuse <ms>                                    the proxy's listener is closed for that long (connection refused)
//!       reject <ms>                                    new connections are accepted and closed at once for that long
//!       halfopen o|m                                   the proxy closes the master's (o) / the outstation's (m) socket
//!                                                      and keeps the other one open and silent
//!       garble m2o|o2m                                 one bit of the next forwarded batch is flipped (CRC error)
//!       chunk <n>                                      forward in writes of n octets (0 = as read)
//!       delay m2o|o2m <ms>                             every forwarded batch is held back that long
//!       poll <period_ms> <classes> | read <id> <classes> | cmd <id> do|sbo <hex>       (master user requests, not awaited)
//!       busy <period_ms> demand|read|level | busy off   an application task that keeps sending the master task messages (demands of a
//!                                                      poll with a long period / class-1 reads / set_decode_level) at that period,
//!                                                      also while the connection is down and through the tail (reads are not
//!                                                      among the things that stop), until `busy off` or the end of the case
//!       clear                                          faults cleared: policy reset, listener open, held sockets judged + closed,
//!                                                      user thread drained
//!       tail explicit|auto <budget_ms>                 quiescent tail: real time passes until every eventual obligation is met
//!                                                      or the budget is used up (explicit: user reads of classes 0-3)
//!       @converged [auto]                              verdict (mon_pairtcp)
use crate::eng_master as em;
use crate::eng_outstation as eo;
use crate::mon_pairtcp as mon;
use crate::util::*;
use dnp3::app::measurement::*;
use dnp3::app::*;
use dnp3::link::{EndpointAddress, LinkErrorMode};
use dnp3::master::*;
use dnp3::outstation::database::*;
use dnp3::outstation::{ConnectionState, OutstationHandle};
use dnp3::tcp::*;
use std::collections::{BTreeMap, HashMap};
use std::io::Write;
use std::sync::atomic::{AtomicU64, AtomicUsize, Ordering};
use std::sync::{Arc, Mutex};
use std::time::{Duration, Instant};
use tokio::net::{TcpListener, TcpStream};
use tokio::sync::watch;

pub const OUTSTATION: u16 = 1024;
pub const MASTER: u16 = 1;

/// generous real-time allowance for anything that "happens at once" on an idle machine (scheduling,
/// loopback TCP); only a failing case ever waits that long
pub fn slack_ms() -> u64 {
    env_u64("VERIF_TCP_SLACK_MS", 6000)
}
fn watchdog_ms() -> u64 {
    env_u64("VERIF_TCP_WATCHDOG_MS", 150_000)
}
fn env_u64(k: &str, d: u64) -> u64 {
    std::env::var(k).ok().and_then(|v| v.parse().ok()).unwrap_or(d)
}

// ------------------------------------------------------------------------------------------ time + logs

#[derive(Clone, Copy)]
pub struct Clk(pub Instant);
impl Clk {
    pub fn us(&self) -> u64 {
        self.0.elapsed().as_micros() as u64
    }
}

/// time-stamped lines (µs since the start of the case)
pub type TLog = Arc<Mutex<Vec<(u64, String)>>>;

fn tpush(log: &TLog, clk: Clk, s: String) {
    // the stamp is taken under the lock: the order of the lines is the order of the stamps
    let mut g = log.lock().unwrap();
    let t = clk.us();
    g.push((t, s));
}

/// `ReadHandler` = the recording handler of engine `master` with time stamps (+ counters)
struct TRH {
    inner: em::RH,
    clk: Clk,
    log: TLog,
}
impl TRH {
    fn flush(&self) {
        let lines: Vec<String> = std::mem::take(&mut *self.inner.sh.log.lock().unwrap());
        for l in lines {
            tpush(&self.log, self.clk, l);
        }
    }
}
impl ReadHandler for TRH {
    fn begin_fragment(&mut self, read_type: ReadType, header: ResponseHeader) -> MaybeAsync<()> {
        let _ = self.inner.begin_fragment(read_type, header);
        self.flush();
        MaybeAsync::ready(())
    }
    fn end_fragment(&mut self, read_type: ReadType, header: ResponseHeader) -> MaybeAsync<()> {
        let _ = self.inner.end_fragment(read_type, header);
        self.flush();
        MaybeAsync::ready(())
    }
    fn handle_binary_input(&mut self, info: HeaderInfo, iter: &mut dyn Iterator<Item = (BinaryInput, u16)>) {
        self.inner.handle_binary_input(info, iter);
        self.flush();
    }
    fn handle_analog_input(&mut self, info: HeaderInfo, iter: &mut dyn Iterator<Item = (AnalogInput, u16)>) {
        self.inner.handle_analog_input(info, iter);
        self.flush();
    }
    fn handle_counter(&mut self, info: HeaderInfo, iter: &mut dyn Iterator<Item = (Counter, u16)>) {
        let (g, v) = dnp3::verif_hooks::master_probe::group_var(info.variation);
        let items: Vec<String> = iter.map(|(m, i)| format!("{i}:{}:{}", m.flags.value, m.value)).collect();
        let l = if items.is_empty() { "-".to_string() } else { items.join(",") };
        tpush(&self.log, self.clk, format!("deliver {} hdr {g} {v} {} {} {l}", self.inner.who, info.qualifier.as_u8(), items.len()));
    }
    fn handle_double_bit_binary_input(&mut self, info: HeaderInfo, iter: &mut dyn Iterator<Item = (DoubleBitBinaryInput, u16)>) {
        self.inner.handle_double_bit_binary_input(info, iter);
        self.flush();
    }
    fn handle_binary_output_status(&mut self, info: HeaderInfo, iter: &mut dyn Iterator<Item = (BinaryOutputStatus, u16)>) {
        self.inner.handle_binary_output_status(info, iter);
        self.flush();
    }
    fn handle_frozen_counter(&mut self, info: HeaderInfo, iter: &mut dyn Iterator<Item = (FrozenCounter, u16)>) {
        self.inner.handle_frozen_counter(info, iter);
        self.flush();
    }
    fn handle_analog_output_status(&mut self, info: HeaderInfo, iter: &mut dyn Iterator<Item = (AnalogOutputStatus, u16)>) {
        self.inner.handle_analog_output_status(info, iter);
        self.flush();
    }
}

/// `AssociationInformation` = the recording one of engine `master` with time stamps
struct TAI {
    inner: em::AI,
    clk: Clk,
    log: TLog,
}
impl TAI {
    fn flush(&self) {
        let lines: Vec<String> = std::mem::take(&mut *self.inner.sh.log.lock().unwrap());
        for l in lines {
            tpush(&self.log, self.clk, l);
        }
    }
}
impl AssociationInformation for TAI {
    fn task_start(&mut self, t: TaskType, fc: FunctionCode, seq: Sequence) {
        self.inner.task_start(t, fc, seq);
        self.flush();
    }
    fn task_success(&mut self, t: TaskType, fc: FunctionCode, seq: Sequence) {
        self.inner.task_success(t, fc, seq);
        self.flush();
    }
    fn task_fail(&mut self, t: TaskType, e: TaskError) {
        self.inner.task_fail(t, e);
        self.flush();
    }
    fn unsolicited_response(&mut self, dup: bool, seq: Sequence) {
        self.inner.unsolicited_response(dup, seq);
        self.flush();
    }
}

/// `OutstationApplication` / `OutstationInformation` = the recording ones of engine `outstation` with time stamps
/// (the control handler's lines are stamped by the next callback of these two)
struct TApp {
    inner: eo::App,
    clk: Clk,
    log: TLog,
}
fn oflush(sh: &eo::Shared, clk: Clk, log: &TLog) {
    let lines: Vec<String> = std::mem::take(&mut *sh.log.lock().unwrap());
    for l in lines {
        tpush(log, clk, l);
    }
}
impl dnp3::outstation::OutstationApplication for TApp {
    fn get_processing_delay_ms(&self) -> u16 {
        self.inner.get_processing_delay_ms()
    }
    fn write_absolute_time(&mut self, time: Timestamp) -> Result<(), dnp3::outstation::RequestError> {
        let r = self.inner.write_absolute_time(time);
        oflush(&self.inner.0, self.clk, &self.log);
        r
    }
    fn get_application_iin(&self) -> dnp3::outstation::ApplicationIin {
        self.inner.get_application_iin()
    }
    fn cold_restart(&mut self) -> Option<dnp3::outstation::RestartDelay> {
        let r = self.inner.cold_restart();
        oflush(&self.inner.0, self.clk, &self.log);
        r
    }
    fn warm_restart(&mut self) -> Option<dnp3::outstation::RestartDelay> {
        let r = self.inner.warm_restart();
        oflush(&self.inner.0, self.clk, &self.log);
        r
    }
    fn begin_confirm(&mut self) {
        self.inner.begin_confirm();
        oflush(&self.inner.0, self.clk, &self.log);
    }
    fn event_cleared(&mut self, id: u64) {
        self.inner.event_cleared(id);
        oflush(&self.inner.0, self.clk, &self.log);
    }
    fn end_confirm(&mut self, state: dnp3::outstation::BufferState) -> MaybeAsync<()> {
        let _ = self.inner.end_confirm(state);
        oflush(&self.inner.0, self.clk, &self.log);
        MaybeAsync::ready(())
    }
}
struct TInfo {
    inner: eo::Info,
    clk: Clk,
    log: TLog,
}
impl dnp3::outstation::OutstationInformation for TInfo {
    fn enter_solicited_confirm_wait(&mut self, ecsn: Sequence) {
        self.inner.enter_solicited_confirm_wait(ecsn);
        oflush(&self.inner.0, self.clk, &self.log);
    }
    fn solicited_confirm_timeout(&mut self, ecsn: Sequence) {
        self.inner.solicited_confirm_timeout(ecsn);
        oflush(&self.inner.0, self.clk, &self.log);
    }
    fn solicited_confirm_received(&mut self, ecsn: Sequence) {
        self.inner.solicited_confirm_received(ecsn);
        oflush(&self.inner.0, self.clk, &self.log);
    }
    fn solicited_confirm_wait_new_request(&mut self) {
        self.inner.solicited_confirm_wait_new_request();
        oflush(&self.inner.0, self.clk, &self.log);
    }
    fn wrong_solicited_confirm_seq(&mut self, ecsn: Sequence, seq: Sequence) {
        self.inner.wrong_solicited_confirm_seq(ecsn, seq);
        oflush(&self.inner.0, self.clk, &self.log);
    }
    fn unexpected_confirm(&mut self, unsolicited: bool, seq: Sequence) {
        self.inner.unexpected_confirm(unsolicited, seq);
        oflush(&self.inner.0, self.clk, &self.log);
    }
    fn enter_unsolicited_confirm_wait(&mut self, ecsn: Sequence) {
        self.inner.enter_unsolicited_confirm_wait(ecsn);
        oflush(&self.inner.0, self.clk, &self.log);
    }
    fn unsolicited_confirm_timeout(&mut self, ecsn: Sequence, retry: bool) {
        self.inner.unsolicited_confirm_timeout(ecsn, retry);
        oflush(&self.inner.0, self.clk, &self.log);
    }
    fn unsolicited_confirmed(&mut self, ecsn: Sequence) {
        self.inner.unsolicited_confirmed(ecsn);
        oflush(&self.inner.0, self.clk, &self.log);
    }
    fn clear_restart_iin(&mut self) {
        self.inner.clear_restart_iin();
        oflush(&self.inner.0, self.clk, &self.log);
    }
}

struct NoClock;
impl AssociationHandler for NoClock {
    fn get_current_time(&self) -> Option<Timestamp> {
        None
    }
}

/// the TCP client's state listener
struct CL {
    clk: Clk,
    log: TLog,
}
impl Listener<ClientState> for CL {
    fn update(&mut self, s: ClientState) -> MaybeAsync<()> {
        let l = match s {
            ClientState::Disabled => "client disabled".to_string(),
            ClientState::Connecting => "client connecting".to_string(),
            ClientState::Connected => "client connected".to_string(),
            ClientState::WaitAfterFailedConnect(d) => format!("client wait_failed {}", d.as_micros()),
            ClientState::WaitAfterDisconnect(d) => format!("client wait_disc {}", d.as_micros()),
            ClientState::Shutdown => "client shutdown".to_string(),
        };
        tpush(&self.log, self.clk, l);
        MaybeAsync::ready(())
    }
}

/// the outstation's connection state listener
struct OL {
    clk: Clk,
    log: TLog,
}
impl Listener<ConnectionState> for OL {
    fn update(&mut self, s: ConnectionState) -> MaybeAsync<()> {
        tpush(&self.log, self.clk, format!("oconn {}", match s { ConnectionState::Connected => "connected", ConnectionState::Disconnected => "disconnected" }));
        MaybeAsync::ready(())
    }
}

// ------------------------------------------------------------------------------------------ the proxy

#[derive(Clone, Debug, PartialEq)]
pub enum PEv {
    /// the master's connection was accepted
    Accept(usize),
    /// ... and the proxy is connected to the outstation for it: the connection forwards
    Up(usize),
    UpFail(usize),
    /// a forwarding connection ended: cut | cut_after | peer_m | peer_o | halfopen_o | halfopen_m
    Down(usize, &'static str),
    /// the socket kept open by `halfopen` was closed by its peer
    HeldClosed(usize),
    /// ... was still open at `clear` and closed by the proxy
    HeldReleased(usize),
    Rejected,
    CutNoConn,
    ListenClosed,
    ListenOpen,
    Garbled(usize),
}

#[derive(Default)]
struct Policy {
    chunk: usize,
    delay: [u64; 2],
    cut_after: Option<(bool, usize)>,
    garble: Option<bool>,
}

const OPEN: u8 = 0;
const CLOSED: u8 = 1;
const HALF_O: u8 = 2;
const HALF_M: u8 = 3;

struct Conn {
    id: usize,
    state: watch::Sender<u8>,
}

enum ACmd {
    Refuse(u64),
    Reject(u64),
    Clear(tokio::sync::oneshot::Sender<bool>),
}

pub struct PShared {
    clk: Clk,
    oport: u16,
    policy: Mutex<Policy>,
    pub ev: Mutex<Vec<(u64, PEv)>>,
    /// application fragments / link frames received by the proxy from either endpoint: (t, connection, m2o, line)
    pub wire: Mutex<Vec<(u64, usize, bool, String)>>,
    conns: Mutex<Vec<Arc<Conn>>>,
    pub unjudged: Mutex<Option<String>>,
    pub octets: [AtomicU64; 2],
    next_conn: AtomicUsize,
}

impl PShared {
    fn log(&self, e: PEv) {
        let mut g = self.ev.lock().unwrap();
        let t = self.clk.us();
        g.push((t, e));
    }
    fn open_conns(&self) -> Vec<Arc<Conn>> {
        self.conns.lock().unwrap().iter().filter(|c| *c.state.borrow() == OPEN).cloned().collect()
    }
}

/// splits the octet stream one endpoint writes into link frames / application fragments (independent
/// reference framing: `ref_frame`); diagnosis and distribution only
#[derive(Default)]
struct Decoder {
    buf: Vec<u8>,
    asm: Vec<u8>,
}
impl Decoder {
    fn feed(&mut self, bytes: &[u8], lines: &mut Vec<String>) {
        self.buf.extend_from_slice(bytes);
        let mut i = 0;
        while i + 10 <= self.buf.len() {
            let b = &self.buf;
            if b[i] != 0x05 || b[i + 1] != 0x64 {
                i += 1;
                continue;
            }
            let dl = (b[i + 2] as usize).saturating_sub(5);
            let trailer = (dl / 16) * 18 + if dl % 16 == 0 { 0 } else { dl % 16 + 2 };
            if i + 10 + trailer > b.len() {
                break;
            }
            let frame = b[i..i + 10 + trailer].to_vec();
            let ctrl = b[i + 3];
            let dst = u16::from_le_bytes([b[i + 4], b[i + 5]]);
            let src = u16::from_le_bytes([b[i + 6], b[i + 7]]);
            let mut payload = Vec::new();
            for blk in b[i + 10..i + 10 + trailer].chunks(18) {
                payload.extend_from_slice(&blk[..blk.len() - 2]);
            }
            if payload.len() > 250 || ref_frame(ctrl, dst, src, &payload) != frame {
                lines.push(format!("txbad {}", hex(&frame)));
            } else if ctrl & 0x4F == 0x44 && !payload.is_empty() {
                let tb = payload[0];
                if tb & 0x40 != 0 {
                    self.asm.clear();
                }
                self.asm.extend_from_slice(&payload[1..]);
                if tb & 0x80 != 0 {
                    lines.push(format!("tx {} {}", dst, hex(&self.asm)));
                    self.asm.clear();
                }
            } else {
                lines.push(format!("txlink {ctrl} {dst} {src}"));
            }
            i += 10 + trailer;
        }
        self.buf.drain(..i);
    }
}

async fn write_all(dst: &TcpStream, mut data: &[u8]) -> std::io::Result<()> {
    while !data.is_empty() {
        dst.writable().await?;
        match dst.try_write(data) {
            Ok(k) => data = &data[k..],
            Err(e) if e.kind() == std::io::ErrorKind::WouldBlock => continue,
            Err(e) => return Err(e),
        }
    }
    Ok(())
}

async fn pump(sh: Arc<PShared>, conn: Arc<Conn>, m2o: bool, src: Arc<TcpStream>, dst: Arc<TcpStream>) {
    let mut rx = conn.state.subscribe();
    let mut buf = vec![0u8; 4096];
    let mut dec = Decoder::default();
    let mut dst = Some(dst);
    let dir = if m2o { 0 } else { 1 };
    loop {
        let st = *rx.borrow_and_update();
        match st {
            OPEN => {}
            HALF_O if !m2o => dst = None,
            HALF_M if m2o => dst = None,
            _ => return,
        }
        let n = tokio::select! {
            _ = rx.changed() => continue,
            r = src.readable() => {
                match r.and_then(|_| src.try_read(&mut buf)) {
                    Ok(0) => 0,
                    Ok(n) => n,
                    Err(e) if e.kind() == std::io::ErrorKind::WouldBlock => continue,
                    Err(_) => 0,
                }
            }
        };
        if n == 0 {
            // end of stream / reset from the endpoint behind `src`
            let st = *rx.borrow();
            if dst.is_none() || (st == HALF_O && !m2o) || (st == HALF_M && m2o) {
                sh.log(PEv::HeldClosed(conn.id));
            } else if conn.state.send_if_modified(|s| if *s == OPEN { *s = CLOSED; true } else { false }) {
                sh.log(PEv::Down(conn.id, if m2o { "peer_m" } else { "peer_o" }));
            }
            return;
        }
        // what the endpoint wrote, as received by the proxy (whether or not it will be forwarded)
        let mut lines = Vec::new();
        dec.feed(&buf[..n], &mut lines);
        if !lines.is_empty() {
            let mut w = sh.wire.lock().unwrap();
            let t = sh.clk.us();
            for l in lines {
                w.push((t, conn.id, m2o, l));
            }
        }
        let out = match dst.as_ref() {
            Some(d) => d.clone(),
            None => continue, // held open and silent: whatever arrives is dropped
        };
        let d = sh.policy.lock().unwrap().delay[dir];
        if d > 0 {
            tokio::select! {
                _ = tokio::time::sleep(Duration::from_millis(d)) => {}
                _ = rx.changed() => {
                    if *rx.borrow() != OPEN { continue }
                }
            }
        }
        let (limit, cut_now, chunk, garble) = {
            let mut p = sh.policy.lock().unwrap();
            let (limit, cut_now) = match p.cut_after {
                Some((d, rem)) if d == m2o => {
                    let k = rem.min(n);
                    if k == rem {
                        p.cut_after = None;
                        (k, true)
                    } else {
                        p.cut_after = Some((d, rem - k));
                        (k, false)
                    }
                }
                _ => (n, false),
            };
            let garble = p.garble == Some(m2o) && limit > 0;
            if garble {
                p.garble = None;
            }
            (limit, cut_now, p.chunk, garble)
        };
        if garble {
            buf[limit / 2] ^= 0x10;
            sh.log(PEv::Garbled(conn.id));
        }
        sh.octets[dir].fetch_add(limit as u64, Ordering::Relaxed);
        let mut failed = false;
        let step = if chunk == 0 { limit.max(1) } else { chunk };
        for piece in buf[..limit].chunks(step) {
            if *rx.borrow() != OPEN {
                break;
            }
            if write_all(&out, piece).await.is_err() {
                failed = true;
                break;
            }
            if chunk != 0 {
                tokio::task::yield_now().await;
            }
        }
        if cut_now || failed {
            if conn.state.send_if_modified(|s| if *s == OPEN { *s = CLOSED; true } else { false }) {
                sh.log(PEv::Down(conn.id, if cut_now { "cut_after" } else if m2o { "peer_o" } else { "peer_m" }));
                return;
            }
            // the driver changed the state meanwhile (cut / halfopen): the head of the loop decides what this pump does
            // (a socket that `halfopen` keeps open must not be closed from here)
            continue;
        }
    }
}

async fn serve(sh: Arc<PShared>, ms: TcpStream) {
    let id = sh.next_conn.fetch_add(1, Ordering::SeqCst);
    sh.log(PEv::Accept(id));
    let os = match TcpStream::connect(("127.0.0.1", sh.oport)).await {
        Ok(s) => s,
        Err(_) => {
            sh.log(PEv::UpFail(id));
            return;
        }
    };
    let _ = ms.set_nodelay(true);
    let _ = os.set_nodelay(true);
    let (tx, _) = watch::channel(OPEN);
    let conn = Arc::new(Conn { id, state: tx });
    sh.conns.lock().unwrap().push(conn.clone());
    sh.log(PEv::Up(id));
    let (ms, os) = (Arc::new(ms), Arc::new(os));
    tokio::spawn(pump(sh.clone(), conn.clone(), true, ms.clone(), os.clone()));
    tokio::spawn(pump(sh, conn, false, os, ms));
}

async fn bind_retry(addr: std::net::SocketAddr, tries: usize) -> Option<TcpListener> {
    for _ in 0..tries {
        if let Ok(l) = TcpListener::bind(addr).await {
            return Some(l);
        }
        tokio::time::sleep(Duration::from_millis(5)).await;
    }
    None
}

async fn acceptor(sh: Arc<PShared>, first: TcpListener, mut rx: tokio::sync::mpsc::UnboundedReceiver<ACmd>) {
    let addr = first.local_addr().unwrap();
    let mut listener = Some(first);
    let mut reopen_at: Option<tokio::time::Instant> = None;
    let mut reject_until: Option<tokio::time::Instant> = None;
    loop {
        let far = tokio::time::Instant::now() + Duration::from_secs(3600);
        tokio::select! {
            cmd = rx.recv() => match cmd {
                None => return,
                Some(ACmd::Refuse(ms)) => {
                    if listener.take().is_some() {
                        sh.log(PEv::ListenClosed);
                    }
                    reopen_at = Some(tokio::time::Instant::now() + Duration::from_millis(ms));
                }
                Some(ACmd::Reject(ms)) => reject_until = Some(tokio::time::Instant::now() + Duration::from_millis(ms)),
                Some(ACmd::Clear(done)) => {
                    reject_until = None;
                    reopen_at = None;
                    if listener.is_none() {
                        listener = bind_retry(addr, 200).await;
                        if listener.is_some() {
                            sh.log(PEv::ListenOpen);
                        }
                    }
                    let _ = done.send(listener.is_some());
                }
            },
            r = async { listener.as_ref().unwrap().accept().await }, if listener.is_some() => {
                if let Ok((s, _)) = r {
                    if reject_until.map(|t| tokio::time::Instant::now() < t).unwrap_or(false) {
                        sh.log(PEv::Rejected);
                        drop(s);
                    } else {
                        tokio::spawn(serve(sh.clone(), s));
                    }
                }
            }
            _ = tokio::time::sleep_until(reopen_at.unwrap_or(far)), if reopen_at.is_some() => {
                reopen_at = None;
                listener = bind_retry(addr, 200).await;
                if listener.is_some() {
                    sh.log(PEv::ListenOpen);
                } else {
                    *sh.unjudged.lock().unwrap() = Some("proxy_port_not_rebound".to_string());
                }
            }
        }
    }
}

static NEXT_PORT: AtomicUsize = AtomicUsize::new(0);

/// a listening port outside the ephemeral range (so that `refuse` can close and re-open it without an
/// outgoing connection of some other case taking it meanwhile)
async fn proxy_listener() -> Option<TcpListener> {
    const LO: usize = 20000;
    const N: usize = 12000;
    let base = (std::process::id() as usize).wrapping_mul(131) % N;
    for _ in 0..400 {
        let k = NEXT_PORT.fetch_add(1, Ordering::SeqCst);
        let port = LO + (base + k * 7) % N;
        if let Ok(l) = TcpListener::bind(("127.0.0.1", port as u16)).await {
            return Some(l);
        }
    }
    None
}

// ------------------------------------------------------------------------------------------ the user thread + ledger

enum UCmd {
    Add(u8, u16, u8),
    AddMany(u8, u16, u16, u8),
    Txn(Vec<(u8, u16, i64, u8, u64)>),
    Barrier(std::sync::mpsc::Sender<()>),
    Stop,
}

fn class_of(c: u8) -> Option<EventClass> {
    match c {
        1 => Some(EventClass::Class1),
        2 => Some(EventClass::Class2),
        3 => Some(EventClass::Class3),
        _ => None,
    }
}

fn add_point(h: &OutstationHandle, ty: u8, idx: u16, class: u8) -> bool {
    let cls = class_of(class);
    h.transaction(|db| match ty {
        0 => db.add(idx, cls, BinaryInputConfig { s_var: StaticBinaryInputVariation::Group1Var2, e_var: EventBinaryInputVariation::Group2Var1 }),
        1 => db.add(idx, cls, AnalogInputConfig { s_var: StaticAnalogInputVariation::Group30Var1, e_var: EventAnalogInputVariation::Group32Var1, deadband: 0.0 }),
        _ => db.add(idx, cls, CounterConfig { s_var: StaticCounterVariation::Group20Var1, e_var: EventCounterVariation::Group22Var1, deadband: 0 }),
    })
}

fn user_thread(h: OutstationHandle, rx: std::sync::mpsc::Receiver<UCmd>, ledger: Arc<Mutex<mon::Ledger>>, clk: Clk) {
    while let Ok(cmd) = rx.recv() {
        match cmd {
            UCmd::Stop => return,
            UCmd::Barrier(done) => {
                let _ = done.send(());
            }
            UCmd::Add(ty, idx, class) => {
                // the ledger first: whatever the master is shown afterwards is already on record
                let t0 = clk.us();
                let fresh = ledger.lock().unwrap().add_begin(ty, idx, class, t0);
                let ok = add_point(&h, ty, idx, class);
                ledger.lock().unwrap().add_end(ty, idx, fresh, ok, clk.us());
            }
            UCmd::AddMany(ty, start, count, class) => {
                for i in 0..count {
                    let idx = start + i;
                    let t0 = clk.us();
                    let fresh = ledger.lock().unwrap().add_begin(ty, idx, class, t0);
                    let ok = add_point(&h, ty, idx, class);
                    ledger.lock().unwrap().add_end(ty, idx, fresh, ok, clk.us());
                }
            }
            UCmd::Txn(items) => {
                let t0 = clk.us();
                let marks: Vec<Option<usize>> = {
                    let mut l = ledger.lock().unwrap();
                    items.iter().map(|(ty, idx, v, flags, _)| l.update_begin(*ty, *idx, mon::image(*ty, *v, *flags), t0)).collect()
                };
                let mut infos = Vec::new();
                h.transaction(|db| {
                    infos.clear();
                    for (ty, idx, v, flags, time) in &items {
                        let t = Time::Synchronized(Timestamp::new(*time));
                        let info = match ty {
                            0 => db.update2(*idx, &BinaryInput::new(*v == 1, Flags::new(*flags), t), UpdateOptions::detect_event()),
                            1 => db.update2(*idx, &AnalogInput::new(*v as f64, Flags::new(*flags), t), UpdateOptions::detect_event()),
                            _ => db.update2(*idx, &Counter::new(*v as u32, Flags::new(*flags), t), UpdateOptions::detect_event()),
                        };
                        infos.push(info);
                    }
                });
                let t1 = clk.us();
                let mut l = ledger.lock().unwrap();
                for (((ty, idx, _, _, _), mark), info) in items.iter().zip(marks).zip(infos) {
                    let r = match info {
                        UpdateInfo::NoPoint => mon::Upd::NoPoint,
                        UpdateInfo::NoEvent => mon::Upd::NoEvent,
                        UpdateInfo::Created(id) => mon::Upd::Created(id),
                        UpdateInfo::Overflow { created, discarded } => mon::Upd::Overflow(created, discarded),
                    };
                    l.update_end(*ty, *idx, mark, r, t1);
                }
            }
        }
    }
}

// ------------------------------------------------------------------------------------------ one case

pub struct CaseOut {
    pub hdr: String,
    pub fails: Vec<(String, String, String)>,
    pub stats: Vec<(String, u64)>,
    pub unjudged: Option<String>,
    pub trace: Vec<String>,
}

fn ty_code(s: &str) -> Option<u8> {
    match s {
        "bin" | "addbin" => Some(0),
        "an" | "addan" => Some(1),
        "ctr" | "addctr" => Some(2),
        _ => None,
    }
}

const OKEYS: [&str; 12] = ["sol", "unsol", "rx", "unsolicited", "retries", "ctimeout", "stimeout", "rdelay", "evmax", "keepalive", "maxctl", "evcfg"];

struct Station {
    clk: Clk,
    cfg: Vec<String>,
    mlog: TLog,
    olog: TLog,
    osh: eo::Shared,
    proxy: Arc<PShared>,
    atx: tokio::sync::mpsc::UnboundedSender<ACmd>,
    utx: std::sync::mpsc::Sender<UCmd>,
    uthread: Option<std::thread::JoinHandle<()>>,
    ledger: Arc<Mutex<mon::Ledger>>,
    chan: MasterChannel,
    assoc: Option<AssociationHandle>,
    polls: Arc<Mutex<Vec<PollHandle>>>,
    ojh: tokio::task::JoinHandle<()>,
    sjh: tokio::task::JoinHandle<Shutdown>,
    _server: ServerHandle,
    /// requests in flight: id -> issued at (µs)
    pending: Arc<Mutex<HashMap<u64, u64>>>,
    hangs: Arc<Mutex<Vec<String>>>,
    view: mon::MView,
    t_clear: Option<u64>,
    req_no: u64,
    satisfied_at: Option<(usize, usize)>,
    busy: Vec<Arc<std::sync::atomic::AtomicBool>>,
    held_verdicts: Vec<(usize, &'static str, String)>,
}

fn link_mode(discard: bool) -> LinkErrorMode {
    if discard { LinkErrorMode::Discard } else { LinkErrorMode::Close }
}

impl Station {
    async fn new(ws: &[&str], clk: Clk, serial: usize) -> Result<Station, String> {
        let okv: Vec<&str> = ws.iter().copied().filter(|w| OKEYS.iter().any(|k| w.split_once('=').map(|x| x.0) == Some(*k))).collect();
        let ocfg = eo::Cfg::parse(&okv);
        let mlog: TLog = Default::default();
        let olog: TLog = Default::default();
        // --- the outstation behind the library's TCP server
        let osh = eo::Shared::default();
        let mut server = Server::new_tcp_server(link_mode(em::kv_u64(ws, "discard", 0) == 1), "127.0.0.1:0".parse().unwrap());
        let (ohandle, ofut) = server
            .add_outstation_no_spawn(
                ocfg.to_config(),
                Box::new(TApp { inner: eo::App(osh.clone()), clk, log: olog.clone() }),
                Box::new(TInfo { inner: eo::Info(osh.clone()), clk, log: olog.clone() }),
                Box::new(eo::Ctl(osh.clone())),
                Box::new(OL { clk, log: olog.clone() }),
                AddressFilter::Any,
            )
            .map_err(|_| "address_filter".to_string())?;
        let ojh = tokio::spawn(ofut);
        let (shandle, sfut) = server.bind_no_spawn().await.map_err(|_| "server_port_not_bound".to_string())?;
        let sjh = tokio::spawn(sfut);
        let oport = shandle.local_addr().ok_or("server_port_unknown".to_string())?.port();
        // --- the proxy
        let listener = proxy_listener().await.ok_or("proxy_port_not_bound".to_string())?;
        let pport = listener.local_addr().unwrap().port();
        let proxy = Arc::new(PShared {
            clk,
            oport,
            policy: Mutex::new(Policy { chunk: em::kv_u64(ws, "chunk", 0) as usize, ..Default::default() }),
            ev: Default::default(),
            wire: Default::default(),
            conns: Default::default(),
            unjudged: Default::default(),
            octets: [AtomicU64::new(0), AtomicU64::new(0)],
            next_conn: AtomicUsize::new(0),
        });
        let (atx, arx) = tokio::sync::mpsc::unbounded_channel();
        tokio::spawn(acceptor(proxy.clone(), listener, arx));
        // --- the master channel
        let mut mcfg = MasterChannelConfig::new(EndpointAddress::try_new(MASTER).unwrap());
        mcfg.tx_buffer_size = BufferSize::new(em::kv_u64(ws, "mtx", 2048) as usize).unwrap();
        mcfg.decode_level = dnp3::decode::DecodeLevel::nothing();
        let strategy = ConnectStrategy::new(
            Duration::from_millis(em::kv_u64(ws, "cmin", 10)),
            Duration::from_millis(em::kv_u64(ws, "cmax", 80)),
            Duration::from_millis(em::kv_u64(ws, "crec", 10)),
        );
        let mut chan = spawn_master_tcp_client(
            link_mode(em::kv_u64(ws, "mdiscard", 0) == 1),
            mcfg,
            EndpointList::single(format!("127.0.0.1:{pport}")),
            strategy,
            Box::new(CL { clk, log: mlog.clone() }),
        );
        let acfg = em::assoc_config(ws);
        let who = format!("{OUTSTATION}");
        let r = tokio::time::timeout(
            Duration::from_millis(slack_ms()),
            chan.add_association(
                EndpointAddress::try_new(OUTSTATION).unwrap(),
                acfg,
                Box::new(TRH { inner: em::RH { who, sh: em::Shared::default() }, clk, log: mlog.clone() }),
                Box::new(NoClock),
                Box::new(TAI { inner: em::AI { addr: OUTSTATION, sh: em::Shared::default() }, clk, log: mlog.clone() }),
            ),
        )
        .await;
        let assoc = match r {
            Ok(Ok(h)) => {
                tpush(&mlog, clk, "assoc ok".to_string());
                Some(h)
            }
            Ok(Err(e)) => {
                tpush(&mlog, clk, format!("assoc err {e:?}"));
                None
            }
            Err(_) => {
                tpush(&mlog, clk, "assoc HANG".to_string());
                None
            }
        };
        let _ = tokio::time::timeout(Duration::from_millis(slack_ms()), chan.enable()).await;
        // --- the user thread
        let ledger = Arc::new(Mutex::new(mon::Ledger::default()));
        let (utx, urx) = std::sync::mpsc::channel();
        let (l2, h2) = (ledger.clone(), ohandle.clone());
        let uthread = std::thread::Builder::new().name(format!("ptcp{serial}u")).spawn(move || user_thread(h2, urx, l2, clk)).map_err(|_| "no_user_thread".to_string())?;
        Ok(Station {
            clk, cfg: ws.iter().map(|s| s.to_string()).collect(), mlog, olog, osh, proxy, atx, utx, uthread: Some(uthread), ledger, chan, assoc,
            polls: Default::default(), ojh, sjh, _server: shandle, pending: Default::default(), hangs: Default::default(),
            view: mon::MView::default(), t_clear: None, req_no: 0, satisfied_at: None, busy: Vec::new(), held_verdicts: Vec::new(),
        })
    }

    fn mpush(&self, s: String) {
        tpush(&self.mlog, self.clk, s);
    }

    /// a master user request: spawned, not awaited; its completion is a line of the master log
    fn user(&mut self, ws: &[&str]) -> bool {
        let mut h = match self.assoc.as_ref() {
            Some(h) => h.clone(),
            None => return true,
        };
        let (mlog, clk, pending, hangs) = (self.mlog.clone(), self.clk, self.pending.clone(), self.hangs.clone());
        let bound = Duration::from_millis(20_000 + slack_ms());
        macro_rules! go {
            ($id:expr, $what:expr, $fut:expr, $ok:expr) => {{
                let id: u64 = $id;
                pending.lock().unwrap().insert(id, clk.us());
                tokio::spawn(async move {
                    let r = tokio::time::timeout(bound, $fut).await;
                    pending.lock().unwrap().remove(&id);
                    match r {
                        Ok(r) => tpush(&mlog, clk, format!("complete {id} {}", $ok(r))),
                        Err(_) => {
                            tpush(&mlog, clk, format!("complete {id} HANG"));
                            hangs.lock().unwrap().push(format!("{} {id} neither completed nor failed within {} ms", $what, bound.as_millis()));
                        }
                    }
                });
            }};
        }
        match ws {
            ["read", id, c] => {
                let (id, c): (u64, u64) = match (id.parse(), c.parse()) { (Ok(a), Ok(b)) => (a, b), _ => return false };
                go!(id, "read", async move { h.read(ReadRequest::class_scan(em::classes(c))).await }, |r: Result<(), TaskError>| match r { Ok(()) => "ok".to_string(), Err(e) => format!("err {}", em::task_err(e)) });
            }
            ["cmd", id, kind, o] if *kind == "do" || *kind == "sbo" => {
                let id: u64 = match id.parse() { Ok(x) => x, Err(_) => return false };
                if o.len() % 2 != 0 || !o.bytes().all(|c| c.is_ascii_hexdigit()) {
                    return false;
                }
                let hs = match em::command_headers(&unhex(o)) { Some(x) => x, None => return false };
                let mode = if *kind == "do" { CommandMode::DirectOperate } else { CommandMode::SelectBeforeOperate };
                go!(id, "command", async move { h.operate(mode, hs).await }, |r: Result<(), CommandError>| match r { Ok(()) => "ok".to_string(), Err(e) => em::cmd_err(e) });
            }
            ["poll", period, c] => {
                let (period, c): (u64, u64) = match (period.parse(), c.parse()) { (Ok(a), Ok(b)) => (a, b), _ => return false };
                let polls = self.polls.clone();
                self.req_no += 1;
                let id = 8000 + self.req_no;
                go!(id, "add_poll", async move { h.add_poll(ReadRequest::class_scan(em::classes(c)), Duration::from_millis(period)).await }, |r: Result<PollHandle, PollError>| match r {
                    Ok(p) => {
                        polls.lock().unwrap().push(p);
                        format!("poll ok {c}")
                    }
                    Err(_) => "poll err".to_string(),
                });
            }
            _ => return false,
        }
        true
    }

    async fn op(&mut self, ws: &[&str]) -> Result<(), String> {
        let bad = || Err(format!("bad op: {}", ws.join(" ")));
        let dir = |s: &str| match s { "m2o" => Some(true), "o2m" => Some(false), _ => None };
        match ws {
            ["addbin" | "addan" | "addctr", idx, cls] => match (idx.parse::<u16>(), cls.parse::<u8>()) {
                (Ok(i), Ok(c)) if c <= 3 => {
                    let _ = self.utx.send(UCmd::Add(ty_code(ws[0]).unwrap(), i, c));
                }
                _ => return bad(),
            },
            ["addmany", kind, start, count, cls] => match (ty_code(kind), start.parse::<u16>(), count.parse::<u16>(), cls.parse::<u8>()) {
                (Some(ty), Ok(a), Ok(n), Ok(c)) if c <= 3 && (a as u32 + n as u32) <= 65536 => {
                    let _ = self.utx.send(UCmd::AddMany(ty, a, n, c));
                }
                _ => return bad(),
            },
            ["txn", items @ ..] => {
                let mut parsed = Vec::new();
                for it in items {
                    let p: Vec<&str> = it.split(':').collect();
                    if p.len() != 5 {
                        return bad();
                    }
                    match (ty_code(p[0]), p[1].parse::<u16>(), p[2].parse::<i64>(), p[3].parse::<u8>(), if p[4] == "-" { Ok(0) } else { p[4].parse::<u64>() }) {
                        (Some(ty), Ok(idx), Ok(v), Ok(flags), Ok(time)) => parsed.push((ty, idx, v, flags, time)),
                        _ => return bad(),
                    }
                }
                let _ = self.utx.send(UCmd::Txn(parsed));
            }
            ["sleep", ms] => match ms.parse::<u64>() {
                Ok(ms) => tokio::time::sleep(Duration::from_millis(ms)).await,
                Err(_) => return bad(),
            },
            ["cut"] => {
                let open = self.proxy.open_conns();
                if open.is_empty() {
                    self.proxy.log(PEv::CutNoConn);
                }
                for c in open {
                    if c.state.send_if_modified(|s| if *s == OPEN { *s = CLOSED; true } else { false }) {
                        self.proxy.log(PEv::Down(c.id, "cut"));
                    }
                }
            }
            ["cut", "after", n, d] => match (n.parse::<usize>(), dir(d)) {
                (Ok(n), Some(d)) if n >= 1 => self.proxy.policy.lock().unwrap().cut_after = Some((d, n)),
                _ => return bad(),
            },
            ["refuse", ms] => match ms.parse::<u64>() {
                Ok(ms) => {
                    let _ = self.atx.send(ACmd::Refuse(ms));
                }
                Err(_) => return bad(),
            },
            ["reject", ms] => match ms.parse::<u64>() {
                Ok(ms) => {
                    let _ = self.atx.send(ACmd::Reject(ms));
                }
                Err(_) => return bad(),
            },
            ["halfopen", side] if *side == "o" || *side == "m" => {
                let open = self.proxy.open_conns();
                if open.is_empty() {
                    self.proxy.log(PEv::CutNoConn);
                }
                for c in open {
                    let to = if *side == "o" { HALF_O } else { HALF_M };
                    if c.state.send_if_modified(|s| if *s == OPEN { *s = to; true } else { false }) {
                        self.proxy.log(PEv::Down(c.id, if *side == "o" { "halfopen_o" } else { "halfopen_m" }));
                    }
                }
            }
            ["garble", d] => match dir(d) {
                Some(d) => self.proxy.policy.lock().unwrap().garble = Some(d),
                None => return bad(),
            },
            ["chunk", n] => match n.parse::<usize>() {
                Ok(n) => self.proxy.policy.lock().unwrap().chunk = n,
                Err(_) => return bad(),
            },
            ["delay", d, ms] => match (dir(d), ms.parse::<u64>()) {
                (Some(d), Ok(ms)) => self.proxy.policy.lock().unwrap().delay[if d { 0 } else { 1 }] = ms,
                _ => return bad(),
            },
            ["read", ..] | ["cmd", ..] | ["poll", ..] => {
                if !self.user(ws) {
                    return bad();
                }
            }
            ["busy", "off"] => {
                for b in self.busy.drain(..) {
                    b.store(true, Ordering::SeqCst);
                }
            }
            ["busy", period, what] if matches!(*what, "demand" | "read" | "level") => match period.parse::<u64>() {
                Ok(ms) if ms >= 1 => self.start_busy(ms, what),
                _ => return bad(),
            },
            ["clear"] => self.clear().await,
            ["tail", mode, budget] if *mode == "explicit" || *mode == "auto" => match budget.parse::<u64>() {
                Ok(b) => self.tail(*mode == "auto", b).await,
                Err(_) => return bad(),
            },
            _ => return bad(),
        }
        Ok(())
    }

    /// the application keeps talking to the master task, whatever the state of the connection
    fn start_busy(&mut self, period_ms: u64, what: &str) {
        let stop = Arc::new(std::sync::atomic::AtomicBool::new(false));
        self.busy.push(stop.clone());
        let mut chan = self.chan.clone();
        let assoc = self.assoc.clone();
        let hangs = self.hangs.clone();
        let what = what.to_string();
        self.mpush(format!("busy {period_ms} {what}"));
        let bound = Duration::from_millis(20_000 + slack_ms());
        tokio::spawn(async move {
            let mut poll: Option<PollHandle> = None;
            let mut sent = 0u64;
            while !stop.load(Ordering::SeqCst) {
                let r = match (what.as_str(), assoc.clone()) {
                    ("level", _) | (_, None) => tokio::time::timeout(bound, chan.set_decode_level(dnp3::decode::DecodeLevel::nothing())).await.map(|_| ()),
                    ("read", Some(mut h)) => {
                        // not awaited: the request is queued (or refused at once without a connection)
                        tokio::spawn(async move {
                            let _ = h.read(ReadRequest::class_scan(em::classes(1))).await;
                        });
                        Ok(())
                    }
                    (_, Some(mut h)) => {
                        if poll.is_none() {
                            match tokio::time::timeout(bound, h.add_poll(ReadRequest::class_scan(em::classes(1)), Duration::from_secs(3600))).await {
                                Ok(Ok(p)) => poll = Some(p),
                                Ok(Err(_)) => {}
                                Err(_) => {
                                    hangs.lock().unwrap().push(format!("busy: add_poll neither completed nor failed within {} ms", bound.as_millis()));
                                    return;
                                }
                            }
                        }
                        match poll.as_mut() {
                            Some(p) => tokio::time::timeout(bound, p.demand()).await.map(|_| ()),
                            None => Ok(()),
                        }
                    }
                };
                if r.is_err() {
                    hangs.lock().unwrap().push(format!("busy: message {sent} to the master task ({what}) was not taken within {} ms", bound.as_millis()));
                    return;
                }
                sent += 1;
                tokio::time::sleep(Duration::from_millis(period_ms)).await;
            }
        });
    }

    fn mech(&self) -> mon::Mech {
        let ws: Vec<&str> = self.cfg.iter().map(|s| s.as_str()).collect();
        mon::Mech::from_cfg(&ws)
    }

    /// faults cleared
    async fn clear(&mut self) {
        {
            let mut p = self.proxy.policy.lock().unwrap();
            *p = Policy::default();
        }
        let (tx, rx) = tokio::sync::oneshot::channel();
        let _ = self.atx.send(ACmd::Clear(tx));
        match tokio::time::timeout(Duration::from_millis(slack_ms()), rx).await {
            Ok(Ok(true)) => {}
            _ => *self.proxy.unjudged.lock().unwrap() = Some("proxy_port_not_rebound".to_string()),
        }
        // the user thread has applied everything it was given
        let (btx, brx) = std::sync::mpsc::channel();
        let _ = self.utx.send(UCmd::Barrier(btx));
        let deadline = Instant::now() + Duration::from_millis(2 * slack_ms());
        loop {
            match brx.try_recv() {
                Ok(()) => break,
                Err(std::sync::mpsc::TryRecvError::Disconnected) => break,
                Err(_) => {}
            }
            if Instant::now() > deadline {
                self.hangs.lock().unwrap().push(format!("the user thread is blocked in a database transaction for more than {} ms", 2 * slack_ms()));
                break;
            }
            tokio::time::sleep(Duration::from_millis(2)).await;
        }
        // sockets kept open by `halfopen`: the one towards the outstation must have been closed by the server once
        // a later connection was established (server_replaces_session); then whatever is still held is closed
        let held: Vec<(usize, u64, bool)> = self
            .proxy
            .ev
            .lock()
            .unwrap()
            .iter()
            .filter_map(|(t, e)| match e {
                PEv::Down(id, "halfopen_o") => Some((*id, *t, true)),
                PEv::Down(id, "halfopen_m") => Some((*id, *t, false)),
                _ => None,
            })
            .collect();
        let cmax = em::kv_u64(&self.cfg.iter().map(|s| s.as_str()).collect::<Vec<_>>(), "cmax", 80);
        let crec = em::kv_u64(&self.cfg.iter().map(|s| s.as_str()).collect::<Vec<_>>(), "crec", 10);
        for (id, th, o_side) in held {
            if !o_side {
                continue;
            }
            let closed = |p: &PShared| p.ev.lock().unwrap().iter().any(|(_, e)| *e == PEv::HeldClosed(id));
            let later_up = |p: &PShared| p.ev.lock().unwrap().iter().find_map(|(t, e)| match e { PEv::Up(k) if *k > id && *t >= th => Some(*t), _ => None });
            // 1. the master comes back (its socket was closed): a later connection reaches the server
            let t0 = Instant::now();
            let bound1 = Duration::from_millis(cmax.max(crec) + slack_ms());
            while later_up(&self.proxy).is_none() && !closed(&self.proxy) && t0.elapsed() < bound1 {
                tokio::time::sleep(Duration::from_millis(2)).await;
            }
            match later_up(&self.proxy) {
                None => {
                    self.held_verdicts.push((id, if closed(&self.proxy) { "closed_without_successor" } else { "no_successor" }, String::new()));
                }
                Some(tu) => {
                    // 2. the server ends the old session: its socket is closed
                    let t1 = Instant::now();
                    while !closed(&self.proxy) && t1.elapsed() < Duration::from_millis(slack_ms()) {
                        tokio::time::sleep(Duration::from_millis(2)).await;
                    }
                    if closed(&self.proxy) {
                        self.held_verdicts.push((id, "replaced", String::new()));
                    } else {
                        self.held_verdicts.push((id, "FAIL", format!("connection {id} was left half-open at {} us (the proxy closed the master's socket and kept the outstation's open and silent); a later connection reached the server at {tu} us; {} ms later the server has not closed the old session's socket", th, slack_ms())));
                    }
                }
            }
        }
        let conns: Vec<Arc<Conn>> = self.proxy.conns.lock().unwrap().clone();
        for c in conns {
            let st = *c.state.borrow();
            if st == HALF_O || st == HALF_M {
                let was_closed = self.proxy.ev.lock().unwrap().iter().any(|(_, e)| *e == PEv::HeldClosed(c.id));
                c.state.send_replace(CLOSED);
                if !was_closed {
                    self.proxy.log(PEv::HeldReleased(c.id));
                }
            }
        }
        self.t_clear = Some(self.clk.us());
        self.mpush("cleared".to_string());
    }

    /// the quiescent tail: real time passes until every eventual obligation is met or the budget is used up
    async fn tail(&mut self, auto: bool, budget_ms: u64) {
        let t_clear = self.t_clear.unwrap_or_else(|| self.clk.us());
        let mech = self.mech();
        let start = Instant::now();
        let mut read_no = 0u64;
        let mut read_in_flight: Option<u64> = None;
        let min_settle = Duration::from_millis(30);
        loop {
            let np = self.proxy.ev.lock().unwrap().len();
            let nm = {
                let lines = self.mlog.lock().unwrap();
                self.view.process(&lines);
                lines.len()
            };
            let mech_now = {
                let mut m = mech.clone();
                m.polls = self.view.polls.clone();
                m
            };
            let pev: Vec<(u64, PEv)> = self.proxy.ev.lock().unwrap()[..np].to_vec();
            let conn_ok = mon::connection_obligations(&self.view, &pev, &mech_now).is_ok();
            let ledger = self.ledger.lock().unwrap();
            let j = mon::judge(&self.view, &ledger, &mech_now, &pev, auto);
            drop(ledger);
            let mut satisfied = conn_ok && j.pending.is_empty();
            if !auto {
                // user reads of classes 0-3 until one issued after the faults were cleared has completed and the picture is right
                if let Some(id) = read_in_flight {
                    if let Some((_, res)) = self.view.completes.get(&id) {
                        if res != "ok" {
                            satisfied = false;
                        }
                        read_in_flight = None;
                    } else {
                        satisfied = false;
                    }
                }
                let have_ok = self.view.completes.iter().any(|(id, (t, r))| *id >= 9000 && *id < 10000 && r == "ok" && *t >= t_clear);
                if !have_ok || !j.pending.is_empty() {
                    satisfied = false;
                    if read_in_flight.is_none() && self.assoc.is_some() {
                        let id = 9000 + read_no;
                        read_no += 1;
                        if read_no > 1 {
                            tokio::time::sleep(Duration::from_millis(15)).await;
                        }
                        let line = format!("read {id} 15");
                        let ws: Vec<&str> = line.split_whitespace().collect();
                        self.user(&ws);
                        read_in_flight = Some(id);
                    }
                }
                if self.assoc.is_none() {
                    satisfied = true;
                }
            }
            if satisfied && start.elapsed() >= min_settle {
                self.satisfied_at = Some((nm, np));
                self.mpush(format!("tail satisfied after {} ms", start.elapsed().as_millis()));
                break;
            }
            if start.elapsed() > Duration::from_millis(budget_ms) {
                self.mpush(format!("tail budget of {budget_ms} ms used up"));
                break;
            }
            tokio::time::sleep(Duration::from_millis(4)).await;
        }
    }
}

fn run_case(serial: usize, hdr: String, lines: Vec<String>) -> CaseOut {
    let clk = Clk(Instant::now());
    let mut out = CaseOut { hdr: hdr.clone(), fails: Vec::new(), stats: Vec::new(), unjudged: None, trace: Vec::new() };
    let rt = match tokio::runtime::Builder::new_multi_thread().worker_threads(3).thread_name(format!("ptcp{serial}w")).enable_all().build() {
        Ok(rt) => rt,
        Err(_) => {
            out.unjudged = Some("no_runtime".to_string());
            return out;
        }
    };
    let mut harness_err: Option<String> = None;
    let mut end: Option<mon::End> = None;
    rt.block_on(async {
        let mut st: Option<Station> = None;
        let mut tail_auto: Option<bool> = None;
        for line in &lines {
            let ws: Vec<&str> = line.split_whitespace().collect();
            if ws.is_empty() {
                continue;
            }
            if ws[0] == "cfg" {
                match Station::new(&ws[1..], clk, serial).await {
                    Ok(s) => st = Some(s),
                    Err(why) => {
                        out.unjudged = Some(why);
                        return;
                    }
                }
                continue;
            }
            let s = match st.as_mut() {
                Some(s) => s,
                None => {
                    harness_err = Some("op before cfg".to_string());
                    return;
                }
            };
            if ws[0] == "@converged" {
                tail_auto = Some(ws.get(1) == Some(&"auto"));
                continue;
            }
            if ws[0].starts_with('@') {
                continue;
            }
            if ws[0] == "tail" {
                // (the verdict line follows; remember the kind of tail for it)
            }
            if let Err(e) = s.op(&ws).await {
                harness_err = Some(e);
                return;
            }
        }
        // ---- the end of the case: liveness of the tasks, then everything is handed to the monitors
        if let Some(mut s) = st.take() {
            let master_alive = match tokio::time::timeout(Duration::from_millis(slack_ms()), s.chan.get_decode_level()).await {
                Ok(Ok(_)) => "alive",
                Ok(Err(_)) => "gone",
                Err(_) => "silent",
            };
            let outstation_task_ended = s.ojh.is_finished();
            let server_task_ended = s.sjh.is_finished();
            let _ = s.utx.send(UCmd::Stop);
            let t_end = clk.us();
            if let Some(u) = s.uthread.take() {
                // (a user thread blocked for ever was reported by `clear`; it is not joined then)
                if s.hangs.lock().unwrap().is_empty() {
                    let _ = u.join();
                }
            }
            let mlog = s.mlog.lock().unwrap().clone();
            let olog = s.olog.lock().unwrap().clone();
            let pev = s.proxy.ev.lock().unwrap().clone();
            let wire = s.proxy.wire.lock().unwrap().clone();
            let ocb = s.osh.log.lock().unwrap().clone();
            let pending: Vec<(u64, u64)> = s.pending.lock().unwrap().iter().map(|(a, b)| (*a, *b)).collect();
            let hangs = s.hangs.lock().unwrap().clone();
            let unj = s.proxy.unjudged.lock().unwrap().clone();
            let ledger = std::mem::take(&mut *s.ledger.lock().unwrap());
            end = Some(mon::End {
                cfg: s.cfg.clone(), mlog, olog, pev, wire, ocb, ledger, pending, hangs, master_alive, outstation_task_ended, server_task_ended,
                t_clear: s.t_clear, t_end, tail_auto, satisfied_at: s.satisfied_at, held: s.held_verdicts.clone(), octets: [s.proxy.octets[0].load(Ordering::Relaxed), s.proxy.octets[1].load(Ordering::Relaxed)],
            });
            if unj.is_some() {
                out.unjudged = unj;
            }
            drop(s);
        }
    });
    rt.shutdown_timeout(Duration::from_millis(200));
    if let Some(e) = harness_err {
        out.fails.push(("harness_ok".to_string(), String::new(), e));
        return out;
    }
    let panics = PANICS.lock().unwrap().remove(&serial).unwrap_or_default();
    if let Some(e) = end {
        mon::verdict(&hdr, &lines, &e, &panics, &mut out);
    } else if !panics.is_empty() {
        out.fails.push(("no_panic".to_string(), String::new(), panics.join(" | ")));
    }
    out
}

static PANICS: Mutex<BTreeMap<usize, Vec<String>>> = Mutex::new(BTreeMap::new());

fn install_panic_hook() {
    std::panic::set_hook(Box::new(|i| {
        let th = std::thread::current();
        let name = th.name().unwrap_or("?").to_string();
        if std::env::var("VERIF_DEBUG").is_ok() {
            eprintln!("panic in {name}: {i}");
        }
        if let Some(rest) = name.strip_prefix("ptcp") {
            let digits: String = rest.chars().take_while(|c| c.is_ascii_digit()).collect();
            if let Ok(serial) = digits.parse::<usize>() {
                let loc = i.location().map(|l| format!("{}:{}", l.file(), l.line())).unwrap_or_default();
                let msg = i.payload().downcast_ref::<&str>().map(|s| s.to_string()).or_else(|| i.payload().downcast_ref::<String>().cloned()).unwrap_or_default();
                let role = if rest.ends_with('d') { "harness driver" } else if rest.ends_with('u') { "user thread" } else { "runtime worker" };
                if let Ok(mut g) = PANICS.lock() {
                    g.entry(serial).or_default().push(format!("{role}: {msg} at {loc}"));
                }
            }
        }
    }));
}

pub fn run(ops: &str, _out: &mut dyn Write, monw: &mut dyn Write, trace_path: Option<&str>) {
    install_panic_hook();
    let cases = split_cases(ops);
    let jobs = env_u64("VERIF_TCP_JOBS", 12).max(1) as usize;
    let max_fail = env_u64("VERIF_TCP_MAX_FAILING_CASES", 8) as usize;
    let mut stats = Stats::default();
    let (tx, rx) = std::sync::mpsc::channel::<(usize, CaseOut)>();
    let mut next = 0usize;
    let mut running: BTreeMap<usize, Instant> = BTreeMap::new();
    let mut results: BTreeMap<usize, CaseOut> = BTreeMap::new();
    let mut failing = 0usize;
    loop {
        while running.len() < jobs && next < cases.len() && failing < max_fail {
            let (hdr, lines) = cases[next].clone();
            let tx = tx.clone();
            let k = next;
            let spawned = std::thread::Builder::new().name(format!("ptcp{k}d")).spawn(move || {
                let r = std::panic::catch_unwind(|| run_case(k, hdr.clone(), lines));
                let out = match r {
                    Ok(o) => o,
                    Err(_) => {
                        let p = PANICS.lock().unwrap().remove(&k).unwrap_or_default();
                        CaseOut { hdr, fails: vec![("harness_ok".to_string(), String::new(), format!("the case driver panicked: {}", p.join(" | ")))], stats: Vec::new(), unjudged: None, trace: Vec::new() }
                    }
                };
                let _ = tx.send((k, out));
            });
            if spawned.is_ok() {
                running.insert(k, Instant::now());
            } else {
                results.insert(k, CaseOut { hdr: cases[k].0.clone(), fails: Vec::new(), stats: Vec::new(), unjudged: Some("no_case_thread".to_string()), trace: Vec::new() });
            }
            next += 1;
        }
        if running.is_empty() && (next >= cases.len() || failing >= max_fail) {
            break;
        }
        match rx.recv_timeout(Duration::from_millis(250)) {
            Ok((k, out)) => {
                if running.remove(&k).is_some() {
                    if !out.fails.is_empty() {
                        failing += 1;
                    }
                    results.insert(k, out);
                }
            }
            Err(_) => {}
        }
        // the wall-clock watchdog: a case that does not end is abandoned (its threads are leaked)
        let late: Vec<usize> = running.iter().filter(|(_, t)| t.elapsed() > Duration::from_millis(watchdog_ms())).map(|(k, _)| *k).collect();
        for k in late {
            running.remove(&k);
            failing += 1;
            results.insert(k, CaseOut { hdr: cases[k].0.clone(), fails: vec![("no_hang".to_string(), String::new(), format!("the case did not end within {} ms of wall-clock time (some call into the library never returned)", watchdog_ms()))], stats: Vec::new(), unjudged: None, trace: Vec::new() });
        }
    }
    let mut tracew = trace_path.and_then(|p| std::fs::File::create(p).ok());
    for (k, (hdr, lines)) in cases.iter().enumerate() {
        stats.hit("cases");
        let kind = case_attr(hdr, "kind").unwrap_or("?").to_string();
        stats.hit(&format!("kind_{kind}"));
        stats.note_case(&lines.join("\n"));
        match results.get(&k) {
            None => stats.hit("unjudged_not_run_after_failures"),
            Some(o) => {
                if let Some(why) = &o.unjudged {
                    stats.hit("unjudged");
                    stats.hit(&format!("unjudged_{why}"));
                    continue;
                }
                stats.hit("judged");
                for (name, cause, detail) in &o.fails {
                    let c = if cause.is_empty() { String::new() } else { format!(" cause={cause}") };
                    writeln!(monw, "MONITOR-FAIL {hdr} :: {name}{c} :: {detail}").unwrap();
                }
                for (key, n) in &o.stats {
                    stats.add(key, *n);
                }
                if let Some(w) = tracew.as_mut() {
                    if !o.fails.is_empty() || std::env::var("VERIF_TCP_TRACE_ALL").is_ok() {
                        let _ = writeln!(w, "{hdr}");
                        for l in &o.trace {
                            let _ = writeln!(w, "{l}");
                        }
                    }
                }
            }
        }
    }
    stats.dump(monw);
}
