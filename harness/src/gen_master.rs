//! case generator for the master engine: a weighted grammar of scenario fragments.  The
//! generator does not run a model of the master: replies are `reply` ops resolved by both sides
//! from the last transmitted request, so "correct" and "mutated in exactly one field" are
//! well-defined without knowing sequence numbers in advance.
use crate::rng::Rng;
use crate::util::hex;
use std::io::Write;

const ADDRS: [u16; 3] = [1024, 1025, 7];

fn g12v1(r: &mut Rng) -> Vec<u8> {
    let mut v = vec![*r.pick(&[0x01u8, 0x03, 0x04, 0x41, 0x81, 0x00, 0x10, 0x23]), r.range(0, 3) as u8];
    v.extend_from_slice(&(r.range(0, 5000) as u32).to_le_bytes());
    v.extend_from_slice(&(r.range(0, 5000) as u32).to_le_bytes());
    v.push(req_status(r));
    v
}

/// the status field of a REQUEST object is a public field: mostly SUCCESS, sometimes (1/12) anything else, so
/// that a reply echoing exactly that status is generated too (S67: it is still not a success)
fn req_status(r: &mut Rng) -> u8 {
    if r.chance(1, 12) { *r.pick(&[1u8, 2, 3, 4, 5, 6, 7, 8, 9, 10, 126, 127]) } else { 0 }
}

fn g41(r: &mut Rng, var: u8) -> Vec<u8> {
    let mut v: Vec<u8> = match var {
        1 => (r.next() as i32).to_le_bytes().to_vec(),
        2 => (r.next() as i16).to_le_bytes().to_vec(),
        3 => ((r.range(1, 2000) as f32) * 0.5 + 0.25).to_le_bytes().to_vec(),
        _ => ((r.range(1, 2000) as f64) * 0.25 + 0.125).to_le_bytes().to_vec(),
    };
    v.push(req_status(r));
    v
}

#[derive(Clone)]
struct CmdHdr {
    g: u8,
    v: u8,
    two: bool,
    items: Vec<(u16, Vec<u8>)>,
}

fn encode_cmd(hs: &[CmdHdr]) -> Vec<u8> {
    let mut out = Vec::new();
    for h in hs {
        out.push(h.g);
        out.push(h.v);
        if h.two {
            out.push(0x28);
            out.extend_from_slice(&(h.items.len() as u16).to_le_bytes());
        } else {
            out.push(0x17);
            out.push(h.items.len() as u8);
        }
        for (idx, o) in &h.items {
            if h.two {
                out.extend_from_slice(&idx.to_le_bytes());
            } else {
                out.push(*idx as u8);
            }
            out.extend_from_slice(o);
        }
    }
    out
}

/// 1..3 control headers (all five control types, 8/16-bit indices)
fn command_set(r: &mut Rng, big: bool) -> Vec<CmdHdr> {
    let nh = if r.chance(3, 5) { 1 } else { r.range(2, 3) };
    let mut hs = Vec::new();
    for _ in 0..nh {
        let two = r.chance(1, 3);
        let kind = r.below(5);
        let n = if big { r.range(20, 40) } else { r.range(1, 3) } as usize;
        let (g, v) = if kind == 0 { (12u8, 1u8) } else { (41u8, kind as u8) };
        let mut items = Vec::new();
        for _ in 0..n {
            let idx: u16 = if two {
                if r.chance(1, 4) { *r.pick(&[0u16, 255, 256, 65535]) } else { r.below(20) as u16 }
            } else if r.chance(1, 5) { 255 } else { r.below(10) as u16 };
            items.push((idx, if g == 12 { g12v1(r) } else { g41(r, v) }));
        }
        hs.push(CmdHdr { g, v, two, items });
    }
    hs
}

/// a reply that differs from the faithful echo in exactly one respect; returns (objects, what)
fn mutate_echo(r: &mut Rng, hs: &[CmdHdr]) -> (Vec<u8>, &'static str) {
    let mut m: Vec<CmdHdr> = hs.to_vec();
    let hi = r.below(m.len() as u64) as usize;
    let what: &'static str;
    match r.below(11) {
        0 => {
            // one status
            let ii = r.below(m[hi].items.len() as u64) as usize;
            let o = &mut m[hi].items[ii].1;
            let n = o.len();
            o[n - 1] = *r.pick(&[1u8, 2, 3, 4, 5, 6, 7, 8, 9, 10, 126, 127, 200]);
            what = "status";
        }
        1 => {
            // one value octet
            let ii = r.below(m[hi].items.len() as u64) as usize;
            // keep floats away from NaN / signed zero: flip a low mantissa bit for g41v3/4
            let is_float = m[hi].g == 41 && m[hi].v >= 3;
            let o = &mut m[hi].items[ii].1;
            let k = if is_float { 0 } else { r.below((o.len() - 1) as u64) as usize };
            o[k] ^= 0x01;
            what = "value";
        }
        2 => {
            // one index
            let ii = r.below(m[hi].items.len() as u64) as usize;
            m[hi].items[ii].0 ^= 0x01;
            what = "index";
        }
        3 => {
            // one object fewer
            if m[hi].items.len() > 1 {
                m[hi].items.pop();
            } else {
                m[hi].items.clear();
            }
            what = "count-";
        }
        4 => {
            let x = m[hi].items[0].clone();
            m[hi].items.push(x);
            what = "count+";
        }
        5 => {
            // order of two objects / two headers
            if m[hi].items.len() >= 2 {
                m[hi].items.swap(0, 1);
                what = "order";
            } else if m.len() >= 2 {
                m.swap(0, 1);
                what = "hdr-order";
            } else {
                m[hi].items[0].0 ^= 0x02;
                what = "index";
            }
        }
        6 => {
            // one header fewer
            m.remove(hi);
            what = "hdr-";
        }
        7 => {
            let x = m[hi].clone();
            m.push(x);
            what = "hdr+";
        }
        8 => {
            // index width changed (same indices)
            if m[hi].items.iter().all(|(i, _)| *i < 256) {
                m[hi].two = !m[hi].two;
                what = "width";
            } else {
                m[hi].items[0].0 ^= 0x04;
                what = "index";
            }
        }
        9 => {
            // variation changed within group 41 (object size kept only for v1<->v3)
            if m[hi].g == 41 && (m[hi].v == 1 || m[hi].v == 3) {
                m[hi].v = 4 - m[hi].v;
                what = "variation";
            } else {
                let ii = 0;
                let o = &mut m[hi].items[ii].1;
                let n = o.len();
                o[n - 1] = 4;
                what = "status";
            }
        }
        _ => {
            // truncated
            let mut b = encode_cmd(&m);
            let cut = r.range(1, 3.min(b.len() as u64 - 1)) as usize;
            b.truncate(b.len() - cut);
            return (b, "truncated");
        }
    }
    (encode_cmd(&m), what)
}

/// measurement objects of the response vocabulary
fn measurement_objects(r: &mut Rng) -> Vec<u8> {
    let mut out = Vec::new();
    let nh = r.range(1, 3);
    for _ in 0..nh {
        match r.below(9) {
            0 => {
                let s = r.below(5) as u8;
                let n = r.range(1, 3) as u8;
                out.extend_from_slice(&[0x01, 0x02, 0x00, s, s + n - 1]);
                for _ in 0..n {
                    out.push(*r.pick(&[0x01u8, 0x81, 0x00, 0x41]));
                }
            }
            1 => {
                let s = if r.chance(1, 4) { 65533u16 } else { r.below(300) as u16 };
                let n = r.range(1, 2) as u16;
                out.extend_from_slice(&[0x1e, 0x01, 0x01]);
                out.extend_from_slice(&s.to_le_bytes());
                out.extend_from_slice(&(s + n - 1).to_le_bytes());
                for _ in 0..n {
                    out.push(0x01);
                    out.extend_from_slice(&(r.next() as i32).to_le_bytes());
                }
            }
            2 => {
                let n = r.range(1, 3) as u8;
                out.extend_from_slice(&[0x02, 0x01, 0x17, n]);
                for _ in 0..n {
                    out.push(r.below(10) as u8);
                    out.push(*r.pick(&[0x01u8, 0x81]));
                }
            }
            3 => {
                let n = r.range(1, 2) as u16;
                out.extend_from_slice(&[0x02, 0x02, 0x28]);
                out.extend_from_slice(&n.to_le_bytes());
                for _ in 0..n {
                    out.extend_from_slice(&(r.below(400) as u16).to_le_bytes());
                    out.push(0x81);
                    out.extend_from_slice(&r.below(1 << 40).to_le_bytes()[..6]);
                }
            }
            4 => {
                let n = r.range(1, 3) as u8;
                out.extend_from_slice(&[0x20, 0x01, 0x17, n]);
                for _ in 0..n {
                    out.push(r.below(10) as u8);
                    out.push(0x01);
                    out.extend_from_slice(&(r.range(0, 100000) as i32 - 50000).to_le_bytes());
                }
            }
            5 => {
                out.extend_from_slice(&[0x1e, 0x01, 0x00, 0x00, 0x00, 0x01]);
                out.extend_from_slice(&(r.next() as i32).to_le_bytes());
            }
            6 => {
                out.extend_from_slice(&[0x32, 0x01, 0x07, 0x01]);
                out.extend_from_slice(&r.below(1 << 44).to_le_bytes()[..6]);
            }
            7 => {
                out.extend_from_slice(&[0x33, *r.pick(&[1u8, 2]), 0x07, 0x01]);
                out.extend_from_slice(&r.below(1 << 44).to_le_bytes()[..6]);
            }
            _ => {
                out.extend_from_slice(&[0x34, *r.pick(&[1u8, 2]), 0x07, 0x01]);
                out.extend_from_slice(&(r.below(3000) as u16).to_le_bytes());
            }
        }
    }
    out
}

fn malformed_objects(r: &mut Rng) -> Vec<u8> {
    let t: [&[u8]; 10] = [
        &[0x63, 0x01, 0x00, 0x00, 0x00, 0x01],       // unknown group
        &[0x01, 0x09, 0x00, 0x00, 0x00, 0x01],       // unknown variation
        &[0x01, 0x02, 0x99],                         // unknown qualifier
        &[0x01, 0x02, 0x00, 0x00, 0x01, 0x81],       // truncated range data
        &[0x01, 0x02, 0x00, 0x05, 0x03, 0x81],       // stop < start
        &[0x01],                                     // truncated header
        &[0x1e, 0x01],                               // truncated header
        &[0x01, 0x02, 0x17, 0x01, 0x00, 0x81],       // prefix qualifier on a static variation
        &[0x02, 0x01, 0x17, 0x01, 0x05, 0x01, 0x81], // good header then a stray octet
        &[0x02, 0x01, 0x17, 0x02, 0x05, 0x01],       // count larger than the data
    ];
    r.pick(&t).to_vec()
}

struct A {
    addr: u16,
    rto: u64,
    rmin: u64,
    rmax: u64,
    ka: Option<u64>,
    npolls: usize,
    periods: Vec<u64>,
}

struct G<'a> {
    r: Rng,
    w: &'a mut dyn Write,
    assocs: Vec<A>,
    uid: u64,
    last_cmd: Option<Vec<CmdHdr>>,
    unsol_seq: u8,
    last_unsol: Option<String>,
    ended: bool,
}

impl<'a> G<'a> {
    fn line(&mut self, s: &str) {
        writeln!(self.w, "{s}").unwrap();
    }

    fn pick_assoc(&mut self) -> usize {
        self.r.below(self.assocs.len() as u64) as usize
    }

    fn next_uid(&mut self) -> u64 {
        self.uid += 1;
        self.uid
    }

    fn add_assoc(&mut self, addr: u16) {
        let r = &mut self.r;
        let quiet = r.chance(1, 5);
        let dis = if quiet || r.chance(1, 4) { 0 } else { *r.pick(&[7u64, 7, 3, 4]) };
        let int = if quiet || r.chance(1, 5) { 0 } else { *r.pick(&[15u64, 15, 8, 7, 9]) };
        let en = if quiet || r.chance(1, 4) { 0 } else { *r.pick(&[7u64, 7, 1, 6]) };
        let ts = *r.pick(&["none", "none", "lan", "nonlan", "direct"]);
        let rto = *r.pick(&[1000u64, 1000, 5000, 1009, 300]);
        let (rmin, rmax) = *r.pick(&[(1000u64, 10000u64), (1000, 10000), (500, 2000), (700, 700), (300, 1000), (2000, 1000)]);
        let ka = *r.pick(&[None, None, Some(3000u64), Some(60000), Some(1500)]);
        let ovf = r.chance(2, 3) as u8;
        let evscan = if r.chance(1, 3) { *r.pick(&[7u64, 1, 2, 6]) } else { 0 };
        let maxq = *r.pick(&[16u64, 16, 16, 1, 2]);
        let s = format!(
            "assoc {addr} rto={rto} dis={dis} int={int} en={en} ts={ts} ovf={ovf} evscan={evscan} ka={} rmin={rmin} rmax={rmax} maxq={maxq}",
            ka.map(|k| k.to_string()).unwrap_or("none".to_string())
        );
        self.line(&s);
        self.assocs.retain(|a| a.addr != addr);
        self.assocs.push(A { addr, rto, rmin, rmax, ka, npolls: 0, periods: Vec::new() });
    }

    fn iin_kv(&mut self) -> String {
        let r = &mut self.r;
        let mut s = String::new();
        if r.chance(1, 5) {
            let iin1 = match r.below(8) {
                0 | 1 => 0x80,
                2 => 0x10,
                3 => 0x90,
                4 => *r.pick(&[0x02u8, 0x04, 0x08, 0x0e]),
                5 => 0x01,
                6 => 0x40,
                _ => r.below(256) as u8,
            };
            s += &format!(" iin1={iin1}");
        }
        if r.chance(1, 12) {
            let iin2 = *r.pick(&[0x08u8, 0x08, 0x10, 0x20]);
            s += &format!(" iin2={iin2}");
        }
        s
    }

    /// a correct reply to whatever is outstanding
    fn reply_ok(&mut self) {
        let iin = self.iin_kv();
        let obj = if self.r.chance(1, 3) { format!(" obj={}", hex(&measurement_objects(&mut self.r))) } else { String::new() };
        // objects only make sense for reads; for commands the default echo is the correct reply
        let obj = if self.r.chance(1, 2) { obj } else { String::new() };
        let con = if self.r.chance(1, 8) { " con=1" } else { "" };
        let delay = if self.r.chance(1, 6) { format!(" delay={}", self.r.below(3000)) } else { String::new() };
        self.line(&format!("reply{iin}{obj}{con}{delay}"));
    }

    /// a reply that is wrong in exactly one field
    fn reply_mutated(&mut self) {
        let r = &mut self.r;
        let s = match r.below(16) {
            0 | 1 => format!("reply seq={}", r.range(1, 15)),
            2 => format!("reply src={}", *r.pick(&[1025u16, 7, 9, 65535, 65520])),
            3 => "reply fir=0".to_string(),
            4 => "reply fin=0".to_string(),
            5 => "reply fin=0 con=1".to_string(),
            6 => "reply uns=1".to_string(),
            7 => format!("reply func={}", *r.pick(&[130u8, 0, 1, 2, 128, 131, 255])),
            8 | 9 => format!("reply iin2={}", *r.pick(&[1u8, 2, 4, 7, 3])),
            10 => format!("reply obj={}", hex(&malformed_objects(r))),
            11 => format!("reply dst={}", *r.pick(&[2u16, 1024, 65535])),
            12 => "reply fir=0 fin=0 con=1".to_string(),
            13 => format!("reply obj={}", hex(&measurement_objects(r))),
            14 => "reply obj=none".to_string(),
            _ => "reply func=130 uns=1".to_string(),
        };
        self.line(&s);
    }

    fn reply_cmd_mutated(&mut self) {
        match self.last_cmd.clone() {
            Some(hs) => {
                let (b, what) = mutate_echo(&mut self.r, &hs);
                self.line(&format!("@mut {what}"));
                self.line(&format!("reply obj={}", hex(&b)));
            }
            None => self.reply_mutated(),
        }
    }

    /// start-up completed, then an indication that re-arms an automatic task arrives while another one is
    /// already owed (overflow -> integrity poll owed; restart seen before it completes), then unsolicited
    /// data: the unsolicited gate must close again on the restart
    fn gate_script(&mut self) {
        let src = self.assocs[0].addr;
        for _ in 0..6 {
            self.line("reply");
        }
        let mut nul = |g: &mut Self, iin1: u8, iin2: u8| {
            let seq = g.unsol_seq;
            g.unsol_seq = (seq + 1) & 0x0F;
            g.line(&format!("rx {src} 1 {}", hex(&[0xF0 | seq, 0x82, iin1, iin2])));
        };
        nul(self, 0x00, 0x08);
        match self.r.below(4) {
            0 => {}
            1 => self.line("tick 1"),
            2 => {
                // the overflow-triggered poll goes unanswered into its back-off
                let t = self.assocs[0].rto;
                self.line(&format!("tick {t}"));
            }
            _ => self.line("reply iin2=2"),
        }
        if self.r.chance(1, 2) {
            nul(self, 0x80, 0x00);
        } else {
            self.line("reply iin1=128");
        }
        // unsolicited data while the repeated integrity poll is still owed
        let seq = self.unsol_seq;
        self.unsol_seq = (seq + 1) & 0x0F;
        let mut f = vec![0xF0 | seq, 0x82, 0x00, 0x00];
        f.extend(measurement_objects(&mut self.r));
        self.line(&format!("rx {src} 1 {}", hex(&f)));
    }

    fn unsolicited(&mut self) {
        let i = self.pick_assoc();
        let src = if self.r.chance(1, 10) { *self.r.pick(&[9u16, 2000]) } else { self.assocs[i].addr };
        if self.r.chance(1, 5) {
            if let Some(l) = self.last_unsol.clone() {
                // duplicate (retransmission)
                self.line(&l);
                return;
            }
        }
        let seq = if self.r.chance(1, 8) { self.r.below(16) as u8 } else { self.unsol_seq };
        self.unsol_seq = (seq + 1) & 0x0F;
        let con = self.r.chance(5, 6);
        let mut ctrl = 0xD0 | seq | if con { 0x20 } else { 0 };
        if self.r.chance(1, 20) {
            ctrl &= *self.r.pick(&[0x7Fu8, 0xBF, 0xEF]);
        }
        let iin1: u8 = if self.r.chance(1, 5) { *self.r.pick(&[0x80u8, 0x10, 0x02, 0x0e, 0x90]) } else { 0 };
        let iin2: u8 = if self.r.chance(1, 12) { 0x08 } else { 0 };
        let objs = match self.r.below(8) {
            0 | 1 => Vec::new(),
            2 => malformed_objects(&mut self.r),
            _ => measurement_objects(&mut self.r),
        };
        let mut f = vec![ctrl, 0x82, iin1, iin2];
        f.extend(objs);
        let l = format!("rx {src} 1 {}", hex(&f));
        self.last_unsol = Some(l.clone());
        self.line(&l);
    }

    fn tick(&mut self) {
        let i = self.pick_assoc();
        let a = &self.assocs[i];
        let base = match self.r.below(8) {
            0..=2 => a.rto,
            3 => a.rmin,
            4 => (a.rmin * 2).min(a.rmax.max(1)),
            5 => a.ka.unwrap_or(1000),
            6 => *a.periods.first().unwrap_or(&1000),
            _ => self.r.range(1, 3000),
        };
        let t = match self.r.below(6) {
            0 => base.saturating_sub(1).max(1),
            1 | 2 => base,
            3 => base + 1,
            4 => self.r.range(1, base.max(2)),
            _ => base * self.r.range(2, 4),
        };
        self.line(&format!("tick {t}"));
    }

    fn user_request(&mut self) {
        let i = self.pick_assoc();
        let addr = if self.r.chance(1, 25) { 9 } else { self.assocs[i].addr };
        let id = self.next_uid();
        match self.r.below(20) {
            0..=3 => {
                let c = *self.r.pick(&[8u8, 7, 15, 1, 0]);
                let k = if self.r.chance(1, 3) { "readh" } else { "read" };
                self.line(&format!("user {id} {addr} {k} {c}"));
            }
            4..=11 => {
                let big = self.r.chance(1, 15);
                let hs = command_set(&mut self.r, big);
                let k = if self.r.chance(1, 2) { "do" } else { "sbo" };
                self.line(&format!("user {id} {addr} {k} {}", hex(&encode_cmd(&hs))));
                self.last_cmd = Some(hs);
            }
            12..=14 => {
                let p = *self.r.pick(&["lan", "nonlan", "direct"]);
                self.line(&format!("user {id} {addr} time {p}"));
            }
            15 | 16 => {
                let k = if self.r.chance(1, 2) { "cold" } else { "warm" };
                self.line(&format!("user {id} {addr} {k}"));
            }
            17 => {
                let o: Vec<u8> = if self.r.chance(1, 2) {
                    vec![0x22, 0x01, 0x17, 0x01, self.r.below(10) as u8, 0x05, 0x00]
                } else {
                    vec![0x22, 0x02, 0x28, 0x01, 0x00, 0x00, 0x01, 0x0a, 0x00, 0x00, 0x00]
                };
                self.line(&format!("user {id} {addr} deadband {}", hex(&o)));
            }
            _ => self.line(&format!("user {id} {addr} link")),
        }
    }

    /// a command followed by its reply chain, with a failure injected at a random step
    fn command_scenario(&mut self) {
        let i = self.pick_assoc();
        let addr = self.assocs[i].addr;
        let rto = self.assocs[i].rto;
        let id = self.next_uid();
        let hs = command_set(&mut self.r, false);
        let sbo = self.r.chance(1, 2);
        self.line(&format!("user {id} {addr} {} {}", if sbo { "sbo" } else { "do" }, hex(&encode_cmd(&hs))));
        self.last_cmd = Some(hs);
        let steps = if sbo { 2 } else { 1 };
        let fail_at = if self.r.chance(1, 2) { Some(self.r.below(steps)) } else { None };
        for s in 0..steps {
            if fail_at == Some(s) {
                match self.r.below(10) {
                    0..=4 => self.reply_cmd_mutated(),
                    5 => self.reply_mutated(),
                    6 => self.line(&format!("tick {rto}")),
                    7 => self.line("cut"),
                    8 => {
                        let l = if self.r.chance(1, 2) { "disable" } else { "rmassoc 1024" };
                        self.line(l);
                    }
                    _ => {
                        self.line(&format!("tick {}", rto - 1));
                        self.line("reply");
                    }
                }
                if self.r.chance(1, 2) {
                    return;
                }
            } else {
                self.line("reply");
            }
        }
    }

    fn read_scenario(&mut self) {
        let i = self.pick_assoc();
        let addr = self.assocs[i].addr;
        let id = self.next_uid();
        let k = if self.r.chance(1, 3) { "readh" } else { "read" };
        let c = *self.r.pick(&[8u8, 15, 7]);
        self.line(&format!("user {id} {addr} {k} {c}"));
        // mostly 1..4 fragments; sometimes a series long enough for the 4-bit sequence number to come back to the
        // request's (17 fragments and more: the 17th is not a first fragment, S117)
        let n = if self.r.chance(1, 15) { *self.r.pick(&[16u64, 17, 18, 33]) } else { self.r.range(1, 4) };
        for f in 0..n {
            let last = f + 1 == n;
            let obj = hex(&measurement_objects(&mut self.r));
            let mut kv = format!("reply seq={f} fir={} fin={} con={} obj={obj}", (f == 0) as u8, last as u8, (!last || self.r.chance(1, 3)) as u8);
            if n > 4 && f == 16 && self.r.chance(1, 3) {
                // FIR on the fragment whose sequence number equals the request's again
                kv = format!("reply seq={f} fir=1 fin={} con=1 obj={obj}", last as u8);
            } else if self.r.chance(1, if n > 4 { 6 * n } else { 6 }) {
                // one rule of the series broken
                kv = match self.r.below(6) {
                    0 => format!("reply seq={} fir={} fin={} con=1 obj={obj}", f + 1, (f == 0) as u8, last as u8),
                    1 => format!("reply seq={f} fir={} fin={} con=1 obj={obj}", (f != 0) as u8, last as u8),
                    2 => format!("reply seq={f} fir={} fin=0 con=0 obj={obj}", (f == 0) as u8),
                    3 => format!("reply seq={f} fir={} fin={} con=1 obj={}", (f == 0) as u8, last as u8, hex(&malformed_objects(&mut self.r))),
                    4 => format!("reply seq={f} fir={} fin={} con=1 iin2=2 obj={obj}", (f == 0) as u8, last as u8),
                    _ => format!("reply seq={f} src=9 fir={} fin={} con=1 obj={obj}", (f == 0) as u8, last as u8),
                };
            }
            self.line(&kv);
            if self.r.chance(1, 8) {
                self.unsolicited();
            }
        }
    }

    fn poll_op(&mut self) {
        let i = self.pick_assoc();
        let addr = self.assocs[i].addr;
        match self.r.below(6) {
            0..=2 => {
                let c = *self.r.pick(&[7u8, 8, 15, 1]);
                if self.r.chance(1, 8) {
                    // a demand-only poll: a period that cannot be added to the clock (`Duration::MAX`), demanded at
                    // once or later — it runs when demanded and never by itself (S180)
                    self.line(&format!("poll {addr} {} {c}", u64::MAX));
                    let k = self.assocs[i].npolls;
                    self.assocs[i].npolls += 1;
                    if self.r.chance(2, 3) {
                        self.line(&format!("demand {addr} {k}"));
                    }
                } else {
                    let p = *self.r.pick(&[1000u64, 3000, 5000, 7001, 700]);
                    self.line(&format!("poll {addr} {p} {c}"));
                    self.assocs[i].npolls += 1;
                    self.assocs[i].periods.push(p);
                }
            }
            3 | 4 => {
                let k = self.r.below(self.assocs[i].npolls.max(1) as u64 + 1);
                self.line(&format!("demand {addr} {k}"));
            }
            _ => {
                let k = self.r.below(self.assocs[i].npolls.max(1) as u64);
                self.line(&format!("rmpoll {addr} {k}"));
            }
        }
    }

    fn step(&mut self) {
        match self.r.below(100) {
            0..=31 => self.reply_ok(),
            32..=39 => self.reply_mutated(),
            40..=43 => self.reply_cmd_mutated(),
            44..=51 => self.unsolicited(),
            52..=63 => self.tick(),
            64..=71 => self.user_request(),
            72..=76 => self.command_scenario(),
            77..=80 => self.read_scenario(),
            81..=85 => self.poll_op(),
            86 => self.line("cut"),
            87 => {
                self.line("down");
                if self.r.chance(1, 2) {
                    self.user_request();
                }
                if self.r.chance(1, 2) {
                    self.tick();
                }
                self.line("up");
            }
            88 => {
                self.line("disable");
                if self.r.chance(1, 2) {
                    self.user_request();
                }
                self.line("enable");
            }
            89 => {
                let i = self.pick_assoc();
                let addr = self.assocs[i].addr;
                self.line(&format!("rmassoc {addr}"));
                if self.r.chance(2, 3) {
                    self.add_assoc(addr);
                }
            }
            90 => {
                if self.assocs.len() < 3 {
                    let addr = ADDRS[self.assocs.len()];
                    self.add_assoc(addr);
                } else {
                    self.add_assoc(1024); // duplicate
                }
            }
            91 | 92 => {
                let i = self.pick_assoc();
                let src = if self.r.chance(1, 6) { 9 } else { self.assocs[i].addr };
                let c = *self.r.pick(&[11u8, 11, 73, 0]);
                let dst = if self.r.chance(1, 10) { 2 } else { 1 };
                self.line(&format!("rxlink {src} {dst} {c}"));
            }
            93 | 94 => {
                let v = if self.r.chance(1, 4) { "none".to_string() } else { self.r.below(1 << 41).to_string() };
                self.line(&format!("clock {v}"));
            }
            95 => {
                // a request fragment / garbage instead of a response
                let i = self.pick_assoc();
                let addr = self.assocs[i].addr;
                let f: Vec<u8> = match self.r.below(4) {
                    0 => vec![0xC0, 0x01, 0x3c, 0x01, 0x06],
                    1 => vec![0xC0],
                    2 => vec![0xC0, 0x81, 0x00],
                    _ => vec![0xC0, 0x46, 0x00, 0x00],
                };
                self.line(&format!("rx {addr} 1 {}", hex(&f)));
            }
            96 => {
                // burst of user requests (queue limits, FIFO)
                let n = self.r.range(2, 5);
                for _ in 0..n {
                    self.user_request();
                }
            }
            97 => {
                // silence: several timeouts in a row
                let i = self.pick_assoc();
                let rto = self.assocs[i].rto;
                let n = self.r.range(2, 6);
                for _ in 0..n {
                    self.line(&format!("tick {rto}"));
                }
            }
            98 => {
                if self.r.chance(1, 2) {
                    let t = self.r.range(3000, 70000);
                    self.line(&format!("tick {t}"));
                } else {
                    // a link status check while other handles keep talking to the master
                    let i = self.pick_assoc();
                    let (addr, rto) = (self.assocs[i].addr, self.assocs[i].rto);
                    let id = self.next_uid();
                    self.line(&format!("user {id} {addr} link"));
                    let n = self.r.range(1, 4);
                    for _ in 0..n {
                        self.line(&format!("tick {}", rto - 1));
                        if self.r.chance(3, 4) { self.poll_op() } else { self.user_request() }
                    }
                    if self.r.chance(1, 2) {
                        self.line(&format!("rxlink {addr} 1 11"));
                    }
                }
            }
            _ => {
                self.line("shutdown");
                self.ended = true;
            }
        }
    }
}

pub fn gen(thorough: bool, seed: u64, w: &mut dyn Write) {
    let mut root = Rng::new(seed ^ 0x006d_6173_7472);
    let n = if thorough { 100000 } else { 2500 };
    for case in 0..n {
        let r = root.fork();
        writeln!(w, "# case {case} kind=session").unwrap();
        let mut g = G { r, w, assocs: Vec::new(), uid: 0, last_cmd: None, unsol_seq: 0, last_unsol: None, ended: false };
        let tx = *g.r.pick(&[2048u32, 2048, 249, 300]);
        g.line(&format!("cfg tx={tx}"));
        if g.r.chance(1, 2) {
            let v = g.r.below(1 << 41);
            g.line(&format!("clock {v}"));
        }
        let na = match g.r.below(10) {
            0..=5 => 1,
            6..=8 => 2,
            _ => 3,
        };
        for k in 0..na {
            g.add_assoc(ADDRS[k]);
            if g.r.chance(1, 3) {
                g.poll_op();
            }
        }
        g.unsol_seq = g.r.below(16) as u8;
        // usually let the start-up sequence make progress first
        if g.r.chance(2, 3) {
            let k = g.r.range(1, 6);
            for _ in 0..k {
                if g.r.chance(5, 6) { g.reply_ok() } else { g.step() }
            }
        }
        if g.r.chance(1, 25) {
            g.gate_script();
        }
        let len = g.r.range(3, 45);
        for _ in 0..len {
            if g.ended {
                break;
            }
            g.step();
        }
        if g.ended && g.r.chance(1, 2) {
            g.line("tick 5000");
        }
    }
}
