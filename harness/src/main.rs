//! corr — correspondence harness: drives the REAL dnp3 code (in-process, through the
//! cfg-guarded hooks) on operation files shared with the Lean model driver.
//!
//!   corr gen <engine> <tier> <seed> <ops_out>      generate cases (ops file)
//!   corr run <engine> <ops_in> <impl_out> <mon_out> execute ops on the implementation,
//!                                                   write canonical outputs + monitor verdicts
mod rng;
mod util;
mod eng_link;
mod eng_transport;
mod eng_db;
mod eng_ffi;
mod eng_ffi_db;
mod ffi_probe_gen;
mod eng_parse;
mod eng_convert;
mod eng_outstation;
mod mon_outstation;
mod mon_outstation_db;
mod eng_master;
mod mon_master;
mod gen_master;
mod eng_rawbytes;
mod gen_outstation;
mod eng_pair;
mod gen_pair;
mod mon_pair;
mod eng_attr;
mod eng_file70;
mod eng_pairtcp;
mod gen_pairtcp;
mod mon_pairtcp;
mod eng_ffimeas;

use std::io::Write;

fn main() {
    let args: Vec<String> = std::env::args().collect();
    if args.len() < 3 {
        eprintln!("usage: corr gen|run <engine> ...");
        std::process::exit(2);
    }
    let code = match (args[1].as_str(), args[2].as_str()) {
        ("gen", engine) => {
            let tier = args[3].as_str();
            let seed: u64 = args[4].parse().expect("seed");
            let mut out = std::io::BufWriter::new(std::fs::File::create(&args[5]).expect("ops_out"));
            let thorough = tier == "thorough";
            match engine {
                "link" => eng_link::gen(thorough, seed, &mut out),
                "transport" => eng_transport::gen_transport(thorough, seed, &mut out),
                "linkaddr" => eng_transport::gen_linkaddr(thorough, seed, &mut out),
                "parse" => eng_parse::gen(thorough, seed, &mut out),
                "ffi" => eng_ffi::gen(thorough, seed, &mut out),
                "ffimeas" => eng_ffimeas::gen(thorough, seed, &mut out),
                "db" => eng_db::gen(thorough, seed, &mut out),
                "attr" => eng_attr::gen(thorough, seed, &mut out),
                "file70" => eng_file70::gen(thorough, seed, &mut out),
                "convert" => eng_convert::gen(thorough, seed, &mut out),
                "outstation" => gen_outstation::gen(thorough, seed, &mut out, gen_outstation::GenCfg { with_db: false }),
                "master" => gen_master::gen(thorough, seed, &mut out),
                "rawbytes" => eng_rawbytes::gen(thorough, seed, &mut out),
                "pair" => gen_pair::gen(thorough, seed, &mut out, gen_pair::Profile::Both),
                "pairsync" => gen_pair::gen(thorough, seed, &mut out, gen_pair::Profile::Sync),
                "pairdata" => gen_pair::gen(thorough, seed, &mut out, gen_pair::Profile::Data),
                "pairmerge" => gen_pair::gen(thorough, seed, &mut out, gen_pair::Profile::Merge),
                "pairtcp" => gen_pairtcp::gen(thorough, seed, &mut out),
                "outstationdb" => gen_outstation::gen(thorough, seed, &mut out, gen_outstation::GenCfg { with_db: true }),
                _ => {
                    eprintln!("unknown engine {engine}");
                    std::process::exit(2)
                }
            }
            out.flush().unwrap();
            0
        }
        ("run", engine) => {
            let ops = std::fs::read_to_string(&args[3]).expect("ops_in");
            let mut out = std::io::BufWriter::new(std::fs::File::create(&args[4]).expect("impl_out"));
            let mut mon = std::io::BufWriter::new(std::fs::File::create(&args[5]).expect("mon_out"));
            match engine {
                "link" => eng_link::run(&ops, &mut out, &mut mon),
                "transport" | "linkaddr" => eng_transport::run(&ops, &mut out, &mut mon),
                "parse" => eng_parse::run(&ops, &mut out, &mut mon),
                "ffi" => eng_ffi::run(&ops, &mut out, &mut mon),
                "ffimeas" => eng_ffimeas::run(&ops, &mut out, &mut mon),
                "db" => eng_db::run(&ops, &mut out, &mut mon),
                "attr" => eng_attr::run(&ops, &mut out, &mut mon),
                "file70" => eng_file70::run(&ops, &mut out, &mut mon),
                "convert" => eng_convert::run(&ops, &mut out, &mut mon),
                "outstation" | "outstationdb" => eng_outstation::run(&ops, &mut out, &mut mon),
                "master" => eng_master::run(&ops, &mut out, &mut mon),
                "pair" | "pairsync" | "pairdata" => eng_pair::run(&ops, &mut out, &mut mon, false),
                "pairmerge" => eng_pair::run(&ops, &mut out, &mut mon, true),
                "pairtcp" => eng_pairtcp::run(&ops, &mut out, &mut mon, Some(&format!("{}.trace", args[4]))),
                "rawbytes" => eng_rawbytes::run(&ops, &mut out, &mut mon, Some(&format!("{}.trace", args[4]))),
                _ => {
                    eprintln!("unknown engine {engine}");
                    std::process::exit(2)
                }
            }
            out.flush().unwrap();
            mon.flush().unwrap();
            0
        }
        _ => 2,
    };
    std::process::exit(code);
}
