//! engine `file70` (C09, file-transfer objects = group 70, free-format qualifier 0x5B): the real object
//! writers (`Group70VarN::write` via `HeaderWriter::write_free_format`), the master's file request builders
//! (`AuthFileTask`, `OpenFileTask`, `CloseFileTask`, `GetFileInfoTask`, `WriteBlockTask`, `FileReadTask`), the
//! `DirectoryReader` and the library's own parser, through `hooks/file70_probe.rs`, against the Lean model
//! `Dnp3.Model.File70` (driver `Dnp3/Driver/File70.lean`).
//!
//! ops:  new                                         (start of every case: no read task)
//!       build <ctrl> <fn> <cap> <raw 0|1> <obj>      start_request + write_free_format into <cap> octets
//!         obj: v2 <key> <user> <pass> | v3 <time> <perm> <key> <size> <mode> <maxblock> <req> <name>
//!            | v4 <handle> <size> <maxblock> <req> <status> <text> | v5 <handle> <block> <data>
//!            | v6 <handle> <block> <status> <text> | v7 <type> <size> <time> <perm> <req> <name> | v8 <spec>
//!            (numbers decimal, strings / data hex, `-` = empty)
//!       task <seq> <cap> auth <user> <pass> | open <name> <key> <size> <mode> <perm> <maxblock> | close <handle>
//!                      | info <name> | wblock <handle> <block> <data>          the request a master task sends
//!       parse <hex of a whole fragment>                                        the library's parser
//!       rnew <name> <maxblock> <maxsize> [<user> <pass>] ; rreq <seq> <cap> ; rresp <hex of a response fragment>
//!       dir <hex block> ...                                                    DirectoryReader
//! out:  req <hex> + fragment dump | req err <why> | req none ; fragment dump: f<N> <fields> | h <g> <v> <q> ;
//!       n <headers> | objerr <e> | err hdr <e> ; cb <callback> ... next | end | noresponse <why> | ended ;
//!       dir <n> + d <type> <size> <time> <perm> <name> | dir err ; panic ; bad-op ; ok
//!
//! Monitors (the reference codec below is written from the object definitions of IEEE 1815-2012, A.31 / 11.9.12,
//! independent of the library and of the model):
//!   file_object_parses_back          a fragment the library built holds exactly the object that was given (reference
//!                                    decoding), nothing else, within the capacity, and the library's own parser
//!                                    decodes it to that object; a refusal to build is justified (does not fit, a
//!                                    size not expressible in 16 bits, not UTF-8)
//!   file_parser_accepts_only_exact   the parser accepts generator-made octets iff the reference does (count 1, the
//!                                    length of the free-format header = the length of the object, offsets the
//!                                    constants, sizes exactly the octets present, strings UTF-8), with the
//!                                    reference's values; the same for a directory listing
//!   no_panic
use crate::rng::Rng;
use crate::util::*;
use dnp3::verif_hooks::file70_probe::{self, Obj, ReadProbe, TaskSpec};
use std::io::Write;

// ------------------------------------------------------------------------------------------
// reference codec
// ------------------------------------------------------------------------------------------
fn put(v: &mut Vec<u8>, n: u64, width: usize) {
    for i in 0..width {
        v.push((n >> (8 * i)) as u8);
    }
}

fn get(b: &[u8], at: usize, width: usize) -> u64 {
    (0..width).fold(0u64, |a, i| a | ((b[at + i] as u64) << (8 * i)))
}

/// the octets of an object; `None`: a string size / offset is not expressible in 16 bits
fn ref_encode(o: &Obj) -> Option<Vec<u8>> {
    let mut v = Vec::new();
    match o {
        Obj::V2 { key, user, pass } => {
            if user.len() > 65535 - 12 || pass.len() > 65535 {
                return None;
            }
            put(&mut v, 12, 2);
            put(&mut v, user.len() as u64, 2);
            put(&mut v, 12 + user.len() as u64, 2);
            put(&mut v, pass.len() as u64, 2);
            put(&mut v, *key as u64, 4);
            v.extend_from_slice(user);
            v.extend_from_slice(pass);
        }
        Obj::V3 { time, perm, key, size, mode, max_block, req, name } => {
            if name.len() > 65535 {
                return None;
            }
            put(&mut v, 26, 2);
            put(&mut v, name.len() as u64, 2);
            put(&mut v, *time & 0xFFFF_FFFF_FFFF, 6);
            put(&mut v, *perm as u64, 2);
            put(&mut v, *key as u64, 4);
            put(&mut v, *size as u64, 4);
            put(&mut v, *mode as u64, 2);
            put(&mut v, *max_block as u64, 2);
            put(&mut v, *req as u64, 2);
            v.extend_from_slice(name);
        }
        Obj::V4 { handle, size, max_block, req, status, text } => {
            put(&mut v, *handle as u64, 4);
            put(&mut v, *size as u64, 4);
            put(&mut v, *max_block as u64, 2);
            put(&mut v, *req as u64, 2);
            v.push(*status);
            v.extend_from_slice(text);
        }
        Obj::V5 { handle, block, data } => {
            put(&mut v, *handle as u64, 4);
            put(&mut v, *block as u64, 4);
            v.extend_from_slice(data);
        }
        Obj::V6 { handle, block, status, text } => {
            put(&mut v, *handle as u64, 4);
            put(&mut v, *block as u64, 4);
            v.push(*status);
            v.extend_from_slice(text);
        }
        Obj::V7 { ftype, size, time, perm, req, name } => {
            if name.len() > 65535 {
                return None;
            }
            put(&mut v, 20, 2);
            put(&mut v, name.len() as u64, 2);
            put(&mut v, *ftype as u64, 2);
            put(&mut v, *size as u64, 4);
            put(&mut v, *time & 0xFFFF_FFFF_FFFF, 6);
            put(&mut v, *perm as u64, 2);
            put(&mut v, *req as u64, 2);
            v.extend_from_slice(name);
        }
        Obj::V8 { spec } => v.extend_from_slice(spec),
    }
    Some(v)
}

fn is_utf8(b: &[u8]) -> bool {
    // independent check: Unicode 15, table 3-7 (well-formed UTF-8 byte sequences)
    let mut i = 0;
    let c = |x: u8| (0x80..=0xBF).contains(&x);
    while i < b.len() {
        let b0 = b[i];
        let n = match b0 {
            0x00..=0x7F => 1,
            0xC2..=0xDF => 2,
            0xE0..=0xEF => 3,
            0xF0..=0xF4 => 4,
            _ => return false,
        };
        if i + n > b.len() {
            return false;
        }
        let ok = match n {
            1 => true,
            2 => c(b[i + 1]),
            3 => {
                (match b0 {
                    0xE0 => (0xA0..=0xBF).contains(&b[i + 1]),
                    0xED => (0x80..=0x9F).contains(&b[i + 1]),
                    _ => c(b[i + 1]),
                }) && c(b[i + 2])
            }
            _ => {
                (match b0 {
                    0xF0 => (0x90..=0xBF).contains(&b[i + 1]),
                    0xF4 => (0x80..=0x8F).contains(&b[i + 1]),
                    _ => c(b[i + 1]),
                }) && c(b[i + 2])
                    && c(b[i + 3])
            }
        };
        if !ok {
            return false;
        }
        i += n;
    }
    true
}

/// decode the object that starts at `b[0]`; `exact`: the object must be all of `b` (a free-format header),
/// otherwise (a directory listing) the octets after it are returned.  Permission bits 9..15 are reserved: ignored.
fn ref_decode(v: u8, b: &[u8], exact: bool) -> Result<(Obj, usize), String> {
    let need = |n: usize| if b.len() < n { Err(format!("object of variation {v} needs {n} octets, {} present", b.len())) } else { Ok(()) };
    let text = |s: &[u8], what: &str| if is_utf8(s) { Ok(s.to_vec()) } else { Err(format!("{what} is not UTF-8")) };
    let (o, used) = match v {
        2 => {
            need(12)?;
            if get(b, 0, 2) != 12 {
                return Err(format!("user name offset {} (must be 12)", get(b, 0, 2)));
            }
            let (ul, po, pl) = (get(b, 2, 2) as usize, get(b, 4, 2) as usize, get(b, 6, 2) as usize);
            if po != 12 + ul {
                return Err(format!("password offset {po}, user name ends at {}", 12 + ul));
            }
            need(12 + ul + pl)?;
            (Obj::V2 { key: get(b, 8, 4) as u32, user: text(&b[12..12 + ul], "user name")?, pass: text(&b[12 + ul..12 + ul + pl], "password")? }, 12 + ul + pl)
        }
        3 => {
            need(26)?;
            if get(b, 0, 2) != 26 {
                return Err(format!("file name offset {} (must be 26)", get(b, 0, 2)));
            }
            let nl = get(b, 2, 2) as usize;
            need(26 + nl)?;
            (
                Obj::V3 {
                    time: get(b, 4, 6),
                    perm: (get(b, 10, 2) & 0x1FF) as u16,
                    key: get(b, 12, 4) as u32,
                    size: get(b, 16, 4) as u32,
                    mode: get(b, 20, 2) as u16,
                    max_block: get(b, 22, 2) as u16,
                    req: get(b, 24, 2) as u16,
                    name: text(&b[26..26 + nl], "file name")?,
                },
                26 + nl,
            )
        }
        4 => {
            need(13)?;
            (
                Obj::V4 {
                    handle: get(b, 0, 4) as u32,
                    size: get(b, 4, 4) as u32,
                    max_block: get(b, 8, 2) as u16,
                    req: get(b, 10, 2) as u16,
                    status: b[12],
                    text: text(&b[13..], "text")?,
                },
                b.len(),
            )
        }
        5 => {
            need(8)?;
            (Obj::V5 { handle: get(b, 0, 4) as u32, block: get(b, 4, 4) as u32, data: b[8..].to_vec() }, b.len())
        }
        6 => {
            need(9)?;
            (Obj::V6 { handle: get(b, 0, 4) as u32, block: get(b, 4, 4) as u32, status: b[8], text: text(&b[9..], "text")? }, b.len())
        }
        7 => {
            need(20)?;
            if get(b, 0, 2) != 20 {
                return Err(format!("file name offset {} (must be 20)", get(b, 0, 2)));
            }
            let nl = get(b, 2, 2) as usize;
            need(20 + nl)?;
            (
                Obj::V7 {
                    ftype: get(b, 4, 2) as u16,
                    size: get(b, 6, 4) as u32,
                    time: get(b, 10, 6),
                    perm: (get(b, 16, 2) & 0x1FF) as u16,
                    req: get(b, 18, 2) as u16,
                    name: text(&b[20..20 + nl], "file name")?,
                },
                20 + nl,
            )
        }
        8 => (Obj::V8 { spec: text(b, "file specification")? }, b.len()),
        _ => return Err(format!("variation {v}")),
    };
    if exact && used != b.len() {
        return Err(format!("object of {used} octets in a free-format header of length {}", b.len()));
    }
    Ok((o, used))
}

fn render(o: &Obj) -> String {
    match o {
        Obj::V2 { key, user, pass } => format!("f2 {key} {} {}", hex(user), hex(pass)),
        Obj::V3 { time, perm, key, size, mode, max_block, req, name } => {
            format!("f3 {} {perm} {key} {size} {mode} {max_block} {req} {}", time & 0xFFFF_FFFF_FFFF, hex(name))
        }
        Obj::V4 { handle, size, max_block, req, status, text } => format!("f4 {handle} {size} {max_block} {req} {status} {}", hex(text)),
        Obj::V5 { handle, block, data } => format!("f5 {handle} {block} {}", hex(data)),
        Obj::V6 { handle, block, status, text } => format!("f6 {handle} {block} {status} {}", hex(text)),
        Obj::V7 { ftype, size, time, perm, req, name } => format!("f7 {ftype} {size} {} {perm} {req} {}", time & 0xFFFF_FFFF_FFFF, hex(name)),
        Obj::V8 { spec } => format!("f8 {}", hex(spec)),
    }
}

fn variation(o: &Obj) -> u8 {
    match o {
        Obj::V2 { .. } => 2,
        Obj::V3 { .. } => 3,
        Obj::V4 { .. } => 4,
        Obj::V5 { .. } => 5,
        Obj::V6 { .. } => 6,
        Obj::V7 { .. } => 7,
        Obj::V8 { .. } => 8,
    }
}

fn strings_ok(o: &Obj) -> bool {
    match o {
        Obj::V2 { user, pass, .. } => is_utf8(user) && is_utf8(pass),
        Obj::V3 { name, .. } | Obj::V7 { name, .. } => is_utf8(name),
        Obj::V4 { text, .. } | Obj::V6 { text, .. } => is_utf8(text),
        Obj::V8 { spec } => is_utf8(spec),
        Obj::V5 { .. } => true,
    }
}

const REQUEST_FNS: [u8; 31] = [0, 1, 2, 3, 4, 5, 6, 7, 8, 9, 10, 11, 12, 13, 14, 15, 16, 17, 18, 19, 20, 21, 22, 23, 24, 25, 26, 27, 28, 29, 30];

enum Verdict {
    /// the fragment is well formed: function code and the rendered headers
    Accept(u8, Vec<String>, Vec<Obj>),
    Reject(String),
    /// outside the reference's vocabulary (other groups, other qualifiers): no verdict
    Unknown,
}

/// the reference's reading of a whole fragment whose objects are group-70 free-format headers
/// (and class-data headers g60 with qualifier 0x06)
fn ref_walk(f: &[u8]) -> Verdict {
    if f.len() < 2 {
        return Verdict::Reject("fragment shorter than an application header".to_string());
    }
    let function = f[1];
    let body = if function == 129 || function == 130 {
        if f.len() < 4 {
            return Verdict::Reject("response without IIN".to_string());
        }
        &f[4..]
    } else if REQUEST_FNS.contains(&function) {
        &f[2..]
    } else {
        return Verdict::Unknown;
    };
    let mut i = 0usize;
    let mut lines = Vec::new();
    let mut objs = Vec::new();
    while i < body.len() {
        if body.len() - i < 3 {
            return Verdict::Reject(format!("{} stray octets after the last object", body.len() - i));
        }
        let (g, v, q) = (body[i], body[i + 1], body[i + 2]);
        if g == 60 && (1..=4).contains(&v) && q == 0x06 {
            lines.push(format!("h 60 {v} 6"));
            i += 3;
            continue;
        }
        if g != 70 || !(2..=8).contains(&v) || q != 0x5B {
            return Verdict::Unknown;
        }
        if body.len() - i < 4 {
            return Verdict::Reject("free-format header without its count".to_string());
        }
        let count = body[i + 3];
        if count != 1 {
            return Verdict::Reject(format!("free-format count {count}"));
        }
        if body.len() - i < 6 {
            return Verdict::Reject("free-format header without its length".to_string());
        }
        let len = get(body, i + 4, 2) as usize;
        if body.len() - i - 6 < len {
            return Verdict::Reject(format!("free-format length {len}, {} octets present", body.len() - i - 6));
        }
        match ref_decode(v, &body[i + 6..i + 6 + len], true) {
            Err(e) => return Verdict::Reject(e),
            Ok((o, _)) => {
                lines.push(render(&o));
                objs.push(o);
            }
        }
        i += 6 + len;
    }
    lines.push(format!("n {}", lines.len()));
    Verdict::Accept(function, lines, objs)
}

/// a directory listing: the concatenation of g70v7 objects, all octets consumed
fn ref_dir(data: &[u8]) -> Result<Vec<String>, String> {
    let mut i = 0;
    let mut out = Vec::new();
    while i < data.len() {
        let (o, used) = ref_decode(7, &data[i..], false)?;
        if let Obj::V7 { ftype, size, time, perm, name, .. } = &o {
            out.push(format!("d {ftype} {size} {time} {perm} {}", hex(name)));
        }
        i += used;
    }
    Ok(out)
}

// ------------------------------------------------------------------------------------------
// op parsing
// ------------------------------------------------------------------------------------------
fn hexok(s: &str) -> bool {
    s == "-" || (s.len() % 2 == 0 && s.bytes().all(|c| c.is_ascii_hexdigit()))
}

fn hx(s: &str) -> Option<Vec<u8>> {
    if hexok(s) {
        Some(unhex(s))
    } else {
        None
    }
}

fn parse_obj(t: &[&str]) -> Option<Obj> {
    Some(match t {
        ["v2", k, u, p] => Obj::V2 { key: k.parse().ok()?, user: hx(u)?, pass: hx(p)? },
        ["v3", tm, pm, k, sz, m, mb, rq, n] => Obj::V3 {
            time: tm.parse().ok()?,
            perm: pm.parse::<u16>().ok().filter(|p| *p < 512)?,
            key: k.parse().ok()?,
            size: sz.parse().ok()?,
            mode: m.parse().ok()?,
            max_block: mb.parse().ok()?,
            req: rq.parse().ok()?,
            name: hx(n)?,
        },
        ["v4", h, sz, mb, rq, st, tx] => Obj::V4 { handle: h.parse().ok()?, size: sz.parse().ok()?, max_block: mb.parse().ok()?, req: rq.parse().ok()?, status: st.parse().ok()?, text: hx(tx)? },
        ["v5", h, b, d] => Obj::V5 { handle: h.parse().ok()?, block: b.parse().ok()?, data: hx(d)? },
        ["v6", h, b, st, tx] => Obj::V6 { handle: h.parse().ok()?, block: b.parse().ok()?, status: st.parse().ok()?, text: hx(tx)? },
        ["v7", ft, sz, tm, pm, rq, n] => Obj::V7 {
            ftype: ft.parse().ok()?,
            size: sz.parse().ok()?,
            time: tm.parse().ok()?,
            perm: pm.parse::<u16>().ok().filter(|p| *p < 512)?,
            req: rq.parse().ok()?,
            name: hx(n)?,
        },
        ["v8", s] => Obj::V8 { spec: hx(s)? },
        _ => return None,
    })
}

fn parse_task(t: &[&str]) -> Option<TaskSpec> {
    Some(match t {
        ["auth", u, p] => TaskSpec::Auth { user: hx(u)?, pass: hx(p)? },
        ["open", n, k, sz, m, pm, mb] => TaskSpec::Open {
            name: hx(n)?,
            key: k.parse().ok()?,
            size: sz.parse().ok()?,
            mode: m.parse().ok()?,
            perm: pm.parse::<u16>().ok().filter(|p| *p < 512)?,
            max_block: mb.parse().ok()?,
        },
        ["close", h] => TaskSpec::Close { handle: h.parse().ok()? },
        ["info", n] => TaskSpec::Info { name: hx(n)? },
        ["wblock", h, b, d] => TaskSpec::WriteBlock { handle: h.parse().ok()?, block: b.parse().ok()?, data: hx(d)? },
        _ => return None,
    })
}

struct Mon<'a> {
    w: &'a mut dyn Write,
    hdr: String,
    stats: &'a mut Stats,
}

impl<'a> Mon<'a> {
    fn fail(&mut self, name: &str, detail: &str) {
        let d: String = detail.chars().take(600).collect();
        writeln!(self.w, "MONITOR-FAIL {} :: {name} :: {d}", self.hdr).unwrap();
        self.stats.hit(&format!("monfail_{name}"));
    }
}

/// what the reference demands of a request: function code, variation, and which fields are prescribed
/// (`None` = the choice of the implementation: request id, creation time of a file to be opened ...)
struct Want {
    function: Option<u8>,
    obj: Obj,
    /// compare only the fields the user supplied (task requests): the others are the implementation's choice
    user_fields_only: bool,
}

fn same_user_fields(want: &Obj, got: &Obj) -> bool {
    match (want, got) {
        (Obj::V2 { user: a, pass: b, .. }, Obj::V2 { user: c, pass: d, .. }) => a == c && b == d,
        (Obj::V3 { perm: p1, key: k1, size: s1, mode: m1, max_block: b1, name: n1, .. }, Obj::V3 { perm: p2, key: k2, size: s2, mode: m2, max_block: b2, name: n2, .. }) => {
            p1 == p2 && k1 == k2 && s1 == s2 && m1 == m2 && b1 == b2 && n1 == n2
        }
        (Obj::V4 { handle: a, .. }, Obj::V4 { handle: b, .. }) => a == b,
        (Obj::V5 { handle: a, block: b, data: c }, Obj::V5 { handle: d, block: e, data: f }) => a == d && b == e && c == f,
        (Obj::V7 { name: a, .. }, Obj::V7 { name: b, .. }) => a == b,
        _ => false,
    }
}

/// judge a `req ...` answer of the library (build / task / rreq)
fn judge_request(mon: &mut Mon, cap: usize, want: &Want, lib: &[String]) {
    let first = lib.first().map(|s| s.as_str()).unwrap_or("");
    if let Some(why) = first.strip_prefix("req err ") {
        let enc = ref_encode(&want.obj);
        let justified = match why {
            "badspec" => !strings_ok(&want.obj) || want.function.map(|f| !REQUEST_FNS.contains(&f) && f != 129 && f != 130).unwrap_or(false),
            "nowriter" => matches!(want.obj, Obj::V6 { .. } | Obj::V8 { .. }),
            _ => match &enc {
                None => true,
                Some(e) => e.len() > 65535 || 2 + 6 + e.len() > cap,
            },
        };
        if !justified {
            mon.fail("file_object_parses_back", &format!("the library refuses ({why}) to build {} although it is encodable and fits {cap} octets", render(&want.obj)));
        }
        mon.stats.hit("request_refused");
        return;
    }
    let Some(h) = first.strip_prefix("req ") else { return };
    if !hexok(h) {
        return;
    }
    mon.stats.hit("request_built");
    let frag = unhex(h);
    if frag.len() > cap {
        mon.fail("file_object_parses_back", &format!("fragment of {} octets in a buffer of {cap}", frag.len()));
    }
    match ref_walk(&frag) {
        Verdict::Accept(function, lines, objs) => {
            if let Some(f) = want.function {
                if f != function {
                    mon.fail("file_object_parses_back", &format!("function code {function} written, {f} wanted"));
                }
            }
            let ok = objs.len() == 1
                && variation(&objs[0]) == variation(&want.obj)
                && if want.user_fields_only { same_user_fields(&want.obj, &objs[0]) } else { render(&objs[0]) == render(&want.obj) };
            if !ok {
                mon.fail("file_object_parses_back", &format!("built from {} ; the fragment {h} holds {}", render(&want.obj), lines.join(" | ")));
            }
            // the library's own parser on its own fragment
            let dump: Vec<String> = lib[1..].iter().filter(|l| *l != "ok").cloned().collect();
            if dump != lines {
                mon.fail("file_object_parses_back", &format!("fragment {h}: encoded {} ; the library's parser says {}", lines.join(" | "), dump.join(" | ")));
            }
        }
        Verdict::Reject(e) => mon.fail("file_object_parses_back", &format!("built from {} ; the fragment {h} is malformed: {e} ; the library's parser says {}", render(&want.obj), lib[1..].join(" | "))),
        Verdict::Unknown => mon.fail("file_object_parses_back", &format!("built from {} ; the fragment {h} is not a group-70 free-format fragment", render(&want.obj))),
    }
}

fn judge_parse(mon: &mut Mon, frag: &[u8], lib: &[String]) {
    let dump: Vec<String> = lib.iter().filter(|l| *l != "ok").cloned().collect();
    let rejected = dump.first().map(|l| l.starts_with("objerr") || l.starts_with("err hdr")).unwrap_or(false);
    match ref_walk(frag) {
        Verdict::Unknown => mon.stats.hit("parse_no_reference_verdict"),
        Verdict::Accept(_, lines, _) => {
            mon.stats.hit("parse_reference_accepts");
            if dump != lines {
                mon.fail("file_parser_accepts_only_exact", &format!("fragment {}: well formed, holds {} ; the library's parser says {}", hex(frag), lines.join(" | "), dump.join(" | ")));
            }
        }
        Verdict::Reject(e) => {
            mon.stats.hit("parse_reference_rejects");
            if !rejected {
                mon.fail("file_parser_accepts_only_exact", &format!("fragment {}: malformed ({e}) ; the library's parser accepts it: {}", hex(frag), dump.join(" | ")));
            }
        }
    }
}

// ------------------------------------------------------------------------------------------
// run
// ------------------------------------------------------------------------------------------
pub fn run(ops: &str, out: &mut dyn Write, mon_w: &mut dyn Write) {
    std::panic::set_hook(Box::new(|_| {}));
    let mut stats = Stats::default();
    for (hdr, lines) in split_cases(ops) {
        writeln!(out, "{hdr}").unwrap();
        let kind = case_attr(&hdr, "kind").unwrap_or("?").to_string();
        stats.hit(&format!("kind_{kind}"));
        stats.note_case(&lines.join("\n"));
        let mut reader: Option<ReadProbe> = None;
        // what the reference knows about the read task: (name, max block, credentials)
        let mut rinfo: Option<(Vec<u8>, u16)> = None;
        for line in &lines {
            if line.starts_with('@') || line.trim().is_empty() {
                continue;
            }
            let t: Vec<&str> = line.split_whitespace().collect();
            let mut res: Vec<String> = Vec::new();
            let mut mon = Mon { w: mon_w, hdr: hdr.clone(), stats: &mut stats };
            mon.stats.hit(&format!("op_{}", t[0]));
            match t.as_slice() {
                ["new"] => {
                    reader = None;
                    rinfo = None;
                }
                ["build", ctrl, function, cap, raw, rest @ ..] => match (ctrl.parse::<u8>(), function.parse::<u8>(), cap.parse::<usize>(), parse_obj(rest)) {
                    (Ok(ctrl), Ok(function), Ok(cap), Some(obj)) if *raw == "0" || *raw == "1" => {
                        mon.stats.hit(&format!("build_v{}", variation(&obj)));
                        match file70_probe::build(ctrl, function, cap, &obj, *raw == "1") {
                            Err(()) => res.push("panic".to_string()),
                            Ok(Err(e)) => res.push(format!("req err {e}")),
                            Ok(Ok(frag)) => {
                                res.push(format!("req {}", hex(&frag)));
                                res.extend(file70_probe::parse_fragment(&frag));
                            }
                        }
                        judge_request(&mut mon, cap, &Want { function: Some(function), obj, user_fields_only: false }, &res);
                    }
                    _ => res.push("bad-op".to_string()),
                },
                ["task", seq, cap, rest @ ..] => match (seq.parse::<u8>(), cap.parse::<usize>(), parse_task(rest)) {
                    (Ok(seq), Ok(cap), Some(spec)) => {
                        mon.stats.hit(&format!("task_{}", rest[0]));
                        match file70_probe::task_request(&spec, seq, cap) {
                            Err(()) => res.push("panic".to_string()),
                            Ok(Err(e)) => res.push(format!("req err {e}")),
                            Ok(Ok(frag)) => {
                                res.push(format!("req {}", hex(&frag)));
                                res.extend(file70_probe::parse_fragment(&frag));
                            }
                        }
                        // IEEE 1815: AUTHENTICATE_FILE 29 / g70v2, OPEN_FILE 25 / g70v3, CLOSE_FILE 26 / g70v4,
                        // GET_FILE_INFO 28 / g70v7, WRITE 2 / g70v5
                        let (f, obj) = match spec {
                            TaskSpec::Auth { user, pass } => (29, Obj::V2 { key: 0, user, pass }),
                            TaskSpec::Open { name, key, size, mode, perm, max_block } => (25, Obj::V3 { time: 0, perm, key, size, mode, max_block, req: 0, name }),
                            TaskSpec::Close { handle } => (26, Obj::V4 { handle, size: 0, max_block: 0, req: 0, status: 0, text: vec![] }),
                            TaskSpec::Info { name } => (28, Obj::V7 { ftype: 0, size: 0, time: 0, perm: 0, req: 0, name }),
                            TaskSpec::WriteBlock { handle, block, data } => (2, Obj::V5 { handle, block, data }),
                        };
                        let mut lib = res.clone();
                        if lib.first().map(|s| s == "req err write").unwrap_or(false) {
                            lib[0] = "req err cursor".to_string();
                        }
                        judge_request(&mut mon, cap, &Want { function: Some(f), obj, user_fields_only: true }, &lib);
                    }
                    _ => res.push("bad-op".to_string()),
                },
                ["parse", h] if hexok(h) => {
                    let frag = unhex(h);
                    res.extend(file70_probe::parse_fragment(&frag));
                    judge_parse(&mut mon, &frag, &res);
                }
                ["rnew", name, mb, ms, creds @ ..] if hexok(name) && creds.iter().all(|c| hexok(c)) && (creds.is_empty() || creds.len() == 2) => {
                    match (mb.parse::<u16>(), ms.parse::<usize>()) {
                        (Ok(mb), Ok(ms)) => {
                            let c: Vec<Vec<u8>> = creds.iter().map(|c| unhex(c)).collect();
                            let name = unhex(name);
                            reader = ReadProbe::new(&name, mb, ms, if c.is_empty() { None } else { Some((&c[0], &c[1])) });
                            rinfo = reader.as_ref().map(|_| (name, mb));
                            res.push(if reader.is_some() { "rnew ok".to_string() } else { "rnew badspec".to_string() });
                        }
                        _ => res.push("bad-op".to_string()),
                    }
                }
                ["rreq", seq, cap] => match (seq.parse::<u8>(), cap.parse::<usize>(), reader.as_ref()) {
                    (Ok(seq), Ok(cap), Some(rp)) => {
                        match rp.request(seq, cap) {
                            Err(()) => res.push("panic".to_string()),
                            Ok(None) => res.push("req none".to_string()),
                            Ok(Some(Err(e))) => res.push(format!("req err {e}")),
                            Ok(Some(Ok(frag))) => {
                                res.push(format!("req {}", hex(&frag)));
                                res.extend(file70_probe::parse_fragment(&frag));
                                // whatever the state: one group-70 object of the variation its function code goes with,
                                // an OPEN carrying the file name and the block size that were asked for
                                if let (Verdict::Accept(f, _, objs), Some((name, mb))) = (ref_walk(&frag), rinfo.as_ref()) {
                                    let fits = objs.len() == 1
                                        && match (f, &objs[0]) {
                                            (29, Obj::V2 { .. }) | (26, Obj::V4 { .. }) => true,
                                            (25, Obj::V3 { name: n, max_block, mode, .. }) => n == name && max_block == mb && *mode == 1,
                                            (1, Obj::V5 { data, .. }) => data.is_empty(),
                                            _ => false,
                                        };
                                    if !fits {
                                        mon.fail("file_object_parses_back", &format!("file read task: request {} does not go with function {f}", hex(&frag)));
                                    }
                                    let dump: Vec<String> = res[1..].to_vec();
                                    if let Verdict::Accept(_, lines, _) = ref_walk(&frag) {
                                        if dump != lines {
                                            mon.fail("file_object_parses_back", &format!("fragment {}: encoded {} ; the library's parser says {}", hex(&frag), lines.join(" | "), dump.join(" | ")));
                                        }
                                    }
                                } else {
                                    mon.fail("file_object_parses_back", &format!("file read task: request {} is not a well-formed group-70 request", hex(&frag)));
                                }
                            }
                        }
                    }
                    (Ok(_), Ok(_), None) => res.push("req none".to_string()),
                    _ => res.push("bad-op".to_string()),
                },
                ["rresp", h] if hexok(h) => match reader.as_mut() {
                    None => res.push("ended".to_string()),
                    Some(rp) => match rp.response(&unhex(h)) {
                        Err(()) => res.push("panic".to_string()),
                        Ok(lines) => res.extend(lines),
                    },
                },
                ["dir", blocks @ ..] if blocks.iter().all(|b| hexok(b)) => {
                    let bl: Vec<Vec<u8>> = blocks.iter().map(|b| unhex(b)).collect();
                    let all: Vec<u8> = bl.concat();
                    match file70_probe::directory(&bl) {
                        Err(()) => res.push("panic".to_string()),
                        Ok(None) => res.push("dir err".to_string()),
                        Ok(Some(items)) => {
                            res.push(format!("dir {}", items.len()));
                            res.extend(items);
                        }
                    }
                    match ref_dir(&all) {
                        Ok(want) => {
                            mon.stats.hit("dir_reference_accepts");
                            if res.first() != Some(&format!("dir {}", want.len())) || res[1..] != want[..] {
                                mon.fail("file_parser_accepts_only_exact", &format!("directory listing {}: well formed, {} ; the library says {}", hex(&all), want.join(" | "), res.join(" | ")));
                            }
                        }
                        Err(e) => {
                            mon.stats.hit("dir_reference_rejects");
                            if res.first().map(|s| s.as_str()) != Some("dir err") && res.first().map(|s| s.as_str()) != Some("panic") {
                                mon.fail("file_parser_accepts_only_exact", &format!("directory listing {}: malformed ({e}) ; the library accepts it: {}", hex(&all), res.join(" | ")));
                            }
                        }
                    }
                }
                _ => res.push("bad-op".to_string()),
            }
            if res.iter().any(|l| l == "panic" || l == "display panic") {
                mon.fail("no_panic", &format!("panic in op: {}", line.chars().take(300).collect::<String>()));
            }
            for l in &res {
                writeln!(out, "{l}").unwrap();
            }
            writeln!(out, "ok").unwrap();
        }
    }
    stats.dump(mon_w);
}

// ------------------------------------------------------------------------------------------
// generator
// ------------------------------------------------------------------------------------------
struct Gen<'a> {
    w: &'a mut dyn Write,
    case: u64,
}

impl<'a> Gen<'a> {
    fn hdr(&mut self, kind: &str, extra: &str) {
        writeln!(self.w, "# case {} kind={} {}", self.case, kind, extra).unwrap();
        // the model driver keeps its state across cases: every case starts without a read task
        writeln!(self.w, "new").unwrap();
        self.case += 1;
    }
    fn line(&mut self, s: &str) {
        writeln!(self.w, "{s}").unwrap();
    }
}

const U32S: [u32; 8] = [0, 1, 255, 65536, 0x7FFF_FFFF, 0x8000_0000, 0xFFFF_FFFE, 0xFFFF_FFFF];
const U16S: [u16; 8] = [0, 1, 255, 256, 0x7FFF, 0x8000, 0xFFFE, 0xFFFF];
const TIMES: [u64; 6] = [0, 1, 1_700_000_000_000, 0x8000_0000_0000, 0xFFFF_FFFF_FFFE, 0xFFFF_FFFF_FFFF];
const STATUS: [u8; 22] = [0, 1, 2, 3, 4, 5, 6, 7, 8, 9, 10, 15, 16, 17, 18, 19, 20, 21, 128, 254, 255, 100];
const PERMS: [u16; 8] = [0, 0x1FF, 0o644, 0o755, 1, 0x100, 0x0AA, 0x155];
const BLOCKS: [u32; 8] = [0, 1, 2, 0x7FFF_FFFE, 0x7FFF_FFFF, 0x8000_0000, 0x8000_0001, 0xFFFF_FFFF];
/// scalar values at the edges of the 1/2/3/4-octet UTF-8 forms, and NUL
const SCALARS: [u32; 14] = [0, 0x41, 0x7F, 0x80, 0xE9, 0x7FF, 0x800, 0x20AC, 0x65E5, 0xD7FF, 0xE000, 0xFFFF, 0x10000, 0x10FFFF];

fn pick_u32(r: &mut Rng) -> u32 {
    if r.chance(2, 3) {
        *r.pick(&U32S)
    } else {
        r.next() as u32
    }
}
fn pick_u16(r: &mut Rng) -> u16 {
    if r.chance(2, 3) {
        *r.pick(&U16S)
    } else {
        r.next() as u16
    }
}
fn pick_time(r: &mut Rng) -> u64 {
    if r.chance(2, 3) {
        *r.pick(&TIMES)
    } else {
        r.next() & 0xFFFF_FFFF_FFFF
    }
}
fn pick_perm(r: &mut Rng) -> u16 {
    if r.chance(1, 2) {
        *r.pick(&PERMS)
    } else {
        (r.next() & 0x1FF) as u16
    }
}
fn pick_block(r: &mut Rng) -> u32 {
    if r.chance(2, 3) {
        *r.pick(&BLOCKS)
    } else {
        r.next() as u32
    }
}

/// string classes: 0 empty, 1 ASCII, 2 two-octet forms, 3 three-octet, 4 four-octet, 5 mixed with boundaries and NUL
fn utf8_str(r: &mut Rng, class: u64, chars: usize) -> Vec<u8> {
    let mut s = String::new();
    for _ in 0..chars {
        let c = match class {
            0 => break,
            1 => char::from_u32(r.range(0x20, 0x7E) as u32),
            2 => char::from_u32(r.range(0x80, 0x7FF) as u32),
            3 => {
                let x = r.range(0x800, 0xFFFF) as u32;
                char::from_u32(if (0xD800..=0xDFFF).contains(&x) { 0x65E5 } else { x })
            }
            4 => char::from_u32(r.range(0x10000, 0x10FFFF) as u32),
            _ => char::from_u32(*r.pick(&SCALARS)),
        };
        s.push(c.unwrap_or('?'));
    }
    s.into_bytes()
}

fn gen_name(r: &mut Rng) -> Vec<u8> {
    let class = r.below(6);
    let chars = match r.below(10) {
        0 => 1,
        1 => 2,
        2..=6 => r.range(3, 24) as usize,
        7 => r.range(60, 90) as usize,
        8 => r.range(200, 700) as usize,
        _ => *r.pick(&[255usize, 256, 257, 1000]),
    };
    utf8_str(r, class, chars)
}

/// octets that are NOT well-formed UTF-8 (spliced into an otherwise valid string)
fn bad_utf8(r: &mut Rng) -> Vec<u8> {
    const BAD: [&[u8]; 14] = [
        &[0x80],
        &[0xBF],
        &[0xC3],
        &[0xC0, 0x80],
        &[0xC1, 0xBF],
        &[0xE6, 0x97],
        &[0xE0, 0x80, 0x80],
        &[0xED, 0xA0, 0x80],
        &[0xF0, 0x9F, 0x98],
        &[0xF0, 0x80, 0x80, 0x80],
        &[0xF4, 0x90, 0x80, 0x80],
        &[0xF5, 0x80, 0x80, 0x80],
        &[0xFF],
        &[0xC3, 0x28],
    ];
    let (c0, n0) = (1 + r.below(5), r.below(4) as usize);
    let mut v = utf8_str(r, c0, n0);
    v.extend_from_slice(BAD[r.below(BAD.len() as u64) as usize]);
    if r.chance(1, 2) {
        let n1 = r.below(3) as usize;
        v.extend(utf8_str(r, 1, n1));
    }
    v
}

fn gen_obj(r: &mut Rng, v: u8) -> Obj {
    match v {
        2 => Obj::V2 { key: pick_u32(r), user: gen_name(r), pass: gen_name(r) },
        3 => Obj::V3 { time: pick_time(r), perm: pick_perm(r), key: pick_u32(r), size: pick_u32(r), mode: if r.chance(3, 4) { r.below(5) as u16 } else { pick_u16(r) }, max_block: pick_u16(r), req: pick_u16(r), name: gen_name(r) },
        4 => Obj::V4 { handle: pick_u32(r), size: pick_u32(r), max_block: pick_u16(r), req: pick_u16(r), status: *r.pick(&STATUS), text: if r.chance(1, 2) { vec![] } else { gen_name(r) } },
        5 => {
            let n = match r.below(8) {
                0 => 0,
                1 => 1,
                2..=4 => r.range(2, 64) as usize,
                5 => r.range(200, 300) as usize,
                6 => r.range(1000, 2034) as usize,
                _ => *r.pick(&[2032usize, 2033, 2034, 2035, 241, 255, 256]),
            };
            Obj::V5 { handle: pick_u32(r), block: pick_block(r), data: r.bytes(n) }
        }
        6 => Obj::V6 { handle: pick_u32(r), block: pick_block(r), status: *r.pick(&STATUS), text: if r.chance(1, 2) { vec![] } else { gen_name(r) } },
        7 => Obj::V7 { ftype: if r.chance(3, 4) { r.below(3) as u16 } else { pick_u16(r) }, size: pick_u32(r), time: pick_time(r), perm: pick_perm(r), req: pick_u16(r), name: gen_name(r) },
        _ => Obj::V8 { spec: gen_name(r) },
    }
}

fn obj_tokens(o: &Obj) -> String {
    match o {
        Obj::V2 { key, user, pass } => format!("v2 {key} {} {}", hex(user), hex(pass)),
        Obj::V3 { time, perm, key, size, mode, max_block, req, name } => format!("v3 {time} {perm} {key} {size} {mode} {max_block} {req} {}", hex(name)),
        Obj::V4 { handle, size, max_block, req, status, text } => format!("v4 {handle} {size} {max_block} {req} {status} {}", hex(text)),
        Obj::V5 { handle, block, data } => format!("v5 {handle} {block} {}", hex(data)),
        Obj::V6 { handle, block, status, text } => format!("v6 {handle} {block} {status} {}", hex(text)),
        Obj::V7 { ftype, size, time, perm, req, name } => format!("v7 {ftype} {size} {time} {perm} {req} {}", hex(name)),
        Obj::V8 { spec } => format!("v8 {}", hex(spec)),
    }
}

/// capacities around the size the request needs
fn gen_cap(r: &mut Rng, need: usize) -> usize {
    match r.below(10) {
        0 => need.saturating_sub(1),
        1 => need,
        2 => need + 1,
        3 => r.below(13) as usize,
        4 => r.range(0, need as u64) as usize,
        5 => need.saturating_sub(r.range(2, 8) as usize),
        6 => 249,
        7 => r.range(need as u64, 2048.max(need as u64)) as usize,
        _ => 2048,
    }
}

fn request_fn(r: &mut Rng, v: u8) -> u8 {
    if r.chance(3, 4) {
        match v {
            2 => 29,
            3 => *r.pick(&[25u8, 27]),
            4 => *r.pick(&[26u8, 30]),
            5 => *r.pick(&[1u8, 2]),
            7 => 28,
            _ => 1,
        }
    } else {
        *r.pick(&[1u8, 2, 25, 26, 27, 28, 29, 30, 3, 13, 0, 24])
    }
}

fn free_header(v: u8, count: u8, len: usize) -> Vec<u8> {
    vec![70, v, 0x5B, count, len as u8, (len >> 8) as u8]
}

fn app_header(r: &mut Rng, function: u8) -> Vec<u8> {
    let ctrl = 0xC0 | (r.below(16) as u8);
    if function == 129 || function == 130 {
        vec![if function == 130 { ctrl | 0x10 } else { ctrl }, function, r.next() as u8, (r.next() as u8) & 0x3F]
    } else {
        vec![ctrl, function]
    }
}

/// a well-formed fragment carrying `o` (reference encoding); `None` when it has no encoding
fn wf_fragment(r: &mut Rng, function: u8, o: &Obj) -> Option<Vec<u8>> {
    let body = ref_encode(o)?;
    if body.len() > 65535 {
        return None;
    }
    let mut f = app_header(r, function);
    f.extend(free_header(variation(o), 1, body.len()));
    f.extend(body);
    Some(f)
}

fn response_fn(r: &mut Rng) -> u8 {
    if r.chance(4, 5) {
        129
    } else {
        *r.pick(&[130u8, 1, 2, 25, 26, 28, 29])
    }
}

/// the usual mistakes, applied to a well-formed fragment whose object starts at `at` (after the 6 header octets)
fn mutate(r: &mut Rng, frag: &[u8], at: usize, v: u8) -> (String, Vec<u8>) {
    let mut f = frag.to_vec();
    let body_len = f.len() - at;
    let set16 = |f: &mut Vec<u8>, i: usize, x: usize| {
        f[i] = x as u8;
        f[i + 1] = (x >> 8) as u8;
    };
    let kind = r.below(14);
    let what = match kind {
        0 if matches!(v, 2 | 3 | 7) && body_len >= 4 => {
            // size field off by one / random
            let cur = get(&f, at + 2, 2) as usize;
            let x = match r.below(4) {
                0 => cur + 1,
                1 => cur.saturating_sub(1),
                2 => 0xFFFF,
                _ => r.below(70000) as usize & 0xFFFF,
            };
            set16(&mut f, at + 2, x);
            "size-field"
        }
        1 if matches!(v, 2 | 3 | 7) && body_len >= 2 => {
            let cur = get(&f, at, 2) as usize;
            let x = match r.below(4) {
                0 => cur + 1,
                1 => cur - 1,
                2 => 0,
                _ => r.below(65536) as usize,
            };
            set16(&mut f, at, x);
            "offset-const"
        }
        2 if v == 2 && body_len >= 8 => {
            let cur = get(&f, at + 4, 2) as usize;
            let x = match r.below(3) {
                0 => cur + 1,
                1 => cur.saturating_sub(1),
                _ => r.below(65536) as usize,
            };
            set16(&mut f, at + 4, x);
            "password-offset"
        }
        3 if v == 2 && body_len >= 8 => {
            let cur = get(&f, at + 6, 2) as usize;
            set16(&mut f, at + 6, if r.chance(1, 2) { cur + 1 } else { cur.saturating_sub(1) });
            "password-size"
        }
        4 => {
            // free-format length field
            let cur = get(&f, at - 2, 2) as usize;
            let x = match r.below(5) {
                0 => cur + 1,
                1 => cur.saturating_sub(1),
                2 => 0,
                3 => 0xFFFF,
                _ => r.below(cur as u64 + 3) as usize,
            };
            set16(&mut f, at - 2, x);
            "free-length"
        }
        5 => {
            f[at - 3] = *r.pick(&[0u8, 2, 3, 255]);
            "count"
        }
        6 => {
            let k = r.range(1, 2) as usize;
            f.extend(r.bytes(k));
            "trailing-outside"
        }
        7 => {
            // trailing octets inside the object (length adjusted)
            let k = r.range(1, 3) as usize;
            f.extend(utf8_str(r, 1, k));
            let l = f.len() - at;
            set16(&mut f, at - 2, l);
            "trailing-inside"
        }
        8 => {
            let n = r.range(0, f.len() as u64 - 1) as usize;
            f.truncate(n);
            "truncated"
        }
        9 => {
            // truncated, the length field following
            let cut = r.range(1, body_len.max(1) as u64) as usize;
            f.truncate(f.len() - cut.min(body_len));
            let l = f.len() - at;
            set16(&mut f, at - 2, l);
            "shortened"
        }
        10 => {
            f[at - 4] = *r.pick(&[0x06u8, 0x07, 0x00, 0x17, 0x5A, 0x5C]);
            "qualifier"
        }
        11 => {
            f[at - 5] = *r.pick(&[0u8, 1, 9, 10, 255]);
            "variation"
        }
        _ => {
            let i = r.range(2, f.len() as u64 - 1) as usize;
            f[i] ^= 1 << r.below(8);
            "bitflip"
        }
    };
    (what.to_string(), f)
}

/// replace one string of the object by octets that are not UTF-8
fn spoil_string(r: &mut Rng, o: &Obj) -> Obj {
    let bad = bad_utf8(r);
    match o.clone() {
        Obj::V2 { key, user, pass } => {
            if r.chance(1, 2) {
                Obj::V2 { key, user: bad, pass }
            } else {
                Obj::V2 { key, user, pass: bad }
            }
        }
        Obj::V3 { time, perm, key, size, mode, max_block, req, .. } => Obj::V3 { time, perm, key, size, mode, max_block, req, name: bad },
        Obj::V4 { handle, size, max_block, req, status, .. } => Obj::V4 { handle, size, max_block, req, status, text: bad },
        Obj::V5 { handle, block, .. } => Obj::V5 { handle, block, data: bad },
        Obj::V6 { handle, block, status, .. } => Obj::V6 { handle, block, status, text: bad },
        Obj::V7 { ftype, size, time, perm, req, .. } => Obj::V7 { ftype, size, time, perm, req, name: bad },
        Obj::V8 { .. } => Obj::V8 { spec: bad },
    }
}

pub fn gen(thorough: bool, seed: u64, w: &mut dyn Write) {
    let mut r = Rng::new(seed);
    let mut g = Gen { w, case: 0 };
    let scale = if thorough { 40 } else { 1 };

    // (0) fixed cases: the library's own unit-test objects, and names whose octet length is not their character count
    g.hdr("fixed", "names=non-ascii");
    g.line(&format!("build 192 29 2048 0 v2 3735931646 {} {}", hex(b"root"), hex(b"foo")));
    for name in ["a.txt", "donn\u{e9}es.csv", "\u{65e5}\u{8a8c}/\u{1F4C4}.log", "\u{0}", "\u{7f}\u{80}\u{7ff}\u{800}\u{ffff}\u{10000}\u{10ffff}"] {
        let n = hex(name.as_bytes());
        g.line(&format!("build 192 28 2048 0 v7 1 2864434397 187723572702975 511 61183 {n}"));
        g.line(&format!("build 192 25 2048 0 v3 187723572702975 341 3735931646 2864434397 3 42 61183 {n}"));
        g.line(&format!("build 192 29 2048 0 v2 7 {n} {n}"));
        g.line(&format!("build 192 26 2048 0 v4 16909060 2864434397 1024 42 3 {n}"));
        g.line(&format!("task 3 2048 auth {n} {n}"));
        g.line(&format!("task 4 2048 open {n} 7 0 1 0 1024"));
        g.line(&format!("task 5 2048 info {n}"));
    }
    g.line("task 6 2048 close 16909060");
    g.line("task 7 2048 wblock 16909060 2147483651 6869");

    // (1) every variation x boundary values of every numeric field (one field at a time off a base object)
    for v in 2u8..=8 {
        g.hdr("fields", &format!("variation={v}"));
        let function = match v {
            2 => 29,
            3 => 25,
            4 => 26,
            5 => 2,
            7 => 28,
            _ => 129,
        };
        let name = "f\u{e9}\u{65e5}\u{1F4C4}".as_bytes().to_vec();
        let mut objs: Vec<Obj> = Vec::new();
        for x in U32S {
            match v {
                2 => objs.push(Obj::V2 { key: x, user: name.clone(), pass: name.clone() }),
                3 => {
                    objs.push(Obj::V3 { time: 5, perm: 0o644, key: x, size: 9, mode: 1, max_block: 1024, req: 77, name: name.clone() });
                    objs.push(Obj::V3 { time: 5, perm: 0o644, key: 8, size: x, mode: 1, max_block: 1024, req: 77, name: name.clone() });
                }
                4 => {
                    objs.push(Obj::V4 { handle: x, size: 9, max_block: 1024, req: 77, status: 0, text: name.clone() });
                    objs.push(Obj::V4 { handle: 8, size: x, max_block: 1024, req: 77, status: 0, text: vec![] });
                }
                5 => {
                    objs.push(Obj::V5 { handle: x, block: 3, data: name.clone() });
                    objs.push(Obj::V5 { handle: 8, block: x, data: vec![] });
                }
                6 => {
                    objs.push(Obj::V6 { handle: x, block: 3, status: 0, text: name.clone() });
                    objs.push(Obj::V6 { handle: 8, block: x, status: 20, text: vec![] });
                }
                7 => objs.push(Obj::V7 { ftype: 1, size: x, time: 5, perm: 0o644, req: 77, name: name.clone() }),
                _ => {}
            }
        }
        for x in U16S {
            match v {
                3 => {
                    objs.push(Obj::V3 { time: 5, perm: 0o644, key: 8, size: 9, mode: x, max_block: 1024, req: 77, name: name.clone() });
                    objs.push(Obj::V3 { time: 5, perm: 0o644, key: 8, size: 9, mode: 1, max_block: x, req: 77, name: name.clone() });
                    objs.push(Obj::V3 { time: 5, perm: 0o644, key: 8, size: 9, mode: 1, max_block: 1024, req: x, name: name.clone() });
                }
                4 => {
                    objs.push(Obj::V4 { handle: 8, size: 9, max_block: x, req: 77, status: 0, text: vec![] });
                    objs.push(Obj::V4 { handle: 8, size: 9, max_block: 1024, req: x, status: 0, text: vec![] });
                }
                7 => {
                    objs.push(Obj::V7 { ftype: x, size: 9, time: 5, perm: 0o644, req: 77, name: name.clone() });
                    objs.push(Obj::V7 { ftype: 1, size: 9, time: 5, perm: 0o644, req: x, name: name.clone() });
                }
                _ => {}
            }
        }
        for t in TIMES.iter().chain([1u64 << 48, u64::MAX].iter()) {
            match v {
                3 => objs.push(Obj::V3 { time: *t, perm: 0, key: 8, size: 9, mode: 2, max_block: 1024, req: 77, name: name.clone() }),
                7 => objs.push(Obj::V7 { ftype: 0, size: 9, time: *t, perm: 0, req: 77, name: name.clone() }),
                _ => {}
            }
        }
        for p in (0..9).map(|i| 1u16 << i).chain(PERMS) {
            match v {
                3 => objs.push(Obj::V3 { time: 5, perm: p, key: 8, size: 9, mode: 3, max_block: 1024, req: 77, name: name.clone() }),
                7 => objs.push(Obj::V7 { ftype: 0, size: 9, time: 5, perm: p, req: 77, name: name.clone() }),
                _ => {}
            }
        }
        for st in 0u16..=255 {
            match v {
                4 if thorough || STATUS.contains(&(st as u8)) => objs.push(Obj::V4 { handle: 8, size: 9, max_block: 1024, req: 77, status: st as u8, text: vec![] }),
                6 if thorough || STATUS.contains(&(st as u8)) => objs.push(Obj::V6 { handle: 8, block: 3, status: st as u8, text: vec![] }),
                _ => {}
            }
        }
        if v == 8 {
            for c in 0..6 {
                objs.push(Obj::V8 { spec: utf8_str(&mut r, c, 9) });
            }
        }
        for o in &objs {
            if matches!(v, 6 | 8) {
                // no writer in the library: the parser on the reference encoding
                if let Some(f) = wf_fragment(&mut r, function, o) {
                    g.line(&format!("parse {}", hex(&f)));
                }
            } else {
                g.line(&format!("build 192 {function} 2048 0 {}", obj_tokens(o)));
                // the enumerations spelled `Other(code)` / `Reserved(code)`
                if matches!(v, 3 | 4 | 7) && r.chance(1, 4) {
                    g.line(&format!("build 192 {function} 2048 1 {}", obj_tokens(o)));
                }
            }
        }
        g.line(&format!("build 192 {function} 2048 0 {}", obj_tokens(&gen_obj(&mut r, v))));
    }

    // (2) strings: every class x lengths, in every string position, capacities around the exact size
    for class in 0..6u64 {
        g.hdr("strings", &format!("class={class}"));
        for chars in [0usize, 1, 2, 3, 7, 16, 63, 64, 85, 127, 128, 255, 256, 500] {
            if class == 0 && chars > 0 {
                continue;
            }
            let s = utf8_str(&mut r, class, chars);
            let t = utf8_str(&mut r, (class + 1) % 6, chars.min(40));
            for o in [
                Obj::V2 { key: 1, user: s.clone(), pass: t.clone() },
                Obj::V2 { key: 1, user: t.clone(), pass: s.clone() },
                Obj::V3 { time: 0, perm: 0, key: 0, size: 0, mode: 1, max_block: 2048, req: 1, name: s.clone() },
                Obj::V4 { handle: 1, size: 2, max_block: 3, req: 4, status: 255, text: s.clone() },
                Obj::V7 { ftype: 1, size: 0, time: 0, perm: 0, req: 1, name: s.clone() },
            ] {
                let need = 8 + ref_encode(&o).map(|e| e.len()).unwrap_or(0);
                let f = request_fn(&mut r, variation(&o));
                for cap in [need - 1, need, 2048] {
                    g.line(&format!("build 192 {f} {cap} 0 {}", obj_tokens(&o)));
                }
            }
            g.line(&format!("task 1 2048 auth {} {}", hex(&s), hex(&t)));
            g.line(&format!("task 1 2048 open {} 5 0 1 420 2048", hex(&s)));
            g.line(&format!("task 1 2048 info {}", hex(&s)));
            for v in [6u8, 8] {
                let o = if v == 6 { Obj::V6 { handle: 1, block: 2, status: 3, text: s.clone() } } else { Obj::V8 { spec: s.clone() } };
                if let Some(f) = wf_fragment(&mut r, 129, &o) {
                    g.line(&format!("parse {}", hex(&f)));
                }
            }
        }
    }

    // (3) sizes that 16 bits cannot express: 65535 - 12 +- 1 for the user name, 65535 / 65536 for the others
    g.hdr("overflow", "");
    for n in [65522usize, 65523, 65524, 65535, 65536] {
        let long = vec![b'x'; n];
        g.line(&format!("build 192 29 70000 0 v2 1 {} 61", hex(&long)));
        g.line(&format!("build 192 29 70000 0 v2 1 61 {}", hex(&long)));
        g.line(&format!("build 192 29 2048 0 v2 1 {} -", hex(&long)));
        if n >= 65535 {
            g.line(&format!("build 192 25 70000 0 v3 0 0 0 0 1 0 0 {}", hex(&long)));
            g.line(&format!("build 192 28 70000 0 v7 0 0 0 0 0 {}", hex(&long)));
            g.line(&format!("build 192 2 70000 0 v5 1 2 {}", hex(&long)));
            g.line(&format!("build 192 26 70000 0 v4 1 2 3 4 5 {}", hex(&long)));
        }
    }
    // the parser on a user-name size that makes the password offset overflow
    for ul in [65523u32, 65524, 65535] {
        let mut f = vec![0xC0u8, 29];
        let mut body = vec![12u8, 0, ul as u8, (ul >> 8) as u8, (12 + ul) as u8, ((12 + ul) >> 8) as u8, 0, 0, 1, 0, 0, 0];
        body.extend(vec![b'y'; 40]);
        f.extend(free_header(2, 1, body.len()));
        f.extend(body);
        g.line(&format!("parse {}", hex(&f)));
    }

    // (4) random objects through the writers at capacities around the exact size
    let n = 260 * scale;
    for i in 0..n {
        let v = *r.pick(&[2u8, 3, 4, 5, 7, 2, 3, 7]);
        g.hdr("build", &format!("variation={v}"));
        let o = gen_obj(&mut r, v);
        let need = 8 + ref_encode(&o).map(|e| e.len()).unwrap_or(0);
        let f = request_fn(&mut r, v);
        let ctrl = 0xC0 | (i % 16) as u8;
        let raw = (matches!(v, 3 | 4 | 7) && r.chance(1, 6)) as u8;
        for _ in 0..r.range(1, 3) {
            g.line(&format!("build {ctrl} {f} {} {raw} {}", gen_cap(&mut r, need), obj_tokens(&o)));
        }
    }

    // (5) the master's tasks
    let n = 200 * scale;
    for i in 0..n {
        g.hdr("task", "");
        let seq = (i % 16) as u8;
        let (line, need) = match r.below(5) {
            0 => {
                let (u, p) = (gen_name(&mut r), gen_name(&mut r));
                (format!("auth {} {}", hex(&u), hex(&p)), 8 + 12 + u.len() + p.len())
            }
            1 => {
                let nm = gen_name(&mut r);
                (format!("open {} {} {} {} {} {}", hex(&nm), pick_u32(&mut r), pick_u32(&mut r), if r.chance(3, 4) { r.below(5) as u16 } else { pick_u16(&mut r) }, pick_perm(&mut r), pick_u16(&mut r)), 8 + 26 + nm.len())
            }
            2 => (format!("close {}", pick_u32(&mut r)), 8 + 13),
            3 => {
                let nm = gen_name(&mut r);
                (format!("info {}", hex(&nm)), 8 + 20 + nm.len())
            }
            _ => {
                let d = match gen_obj(&mut r, 5) {
                    Obj::V5 { data, .. } => data,
                    _ => vec![],
                };
                (format!("wblock {} {} {}", pick_u32(&mut r), pick_block(&mut r), hex(&d)), 8 + 8 + d.len())
            }
        };
        for _ in 0..r.range(1, 3) {
            g.line(&format!("task {seq} {} {line}", gen_cap(&mut r, need)));
        }
    }

    // (6) the parser: well-formed objects of all seven variations, one or several per fragment
    let n = 220 * scale;
    for _ in 0..n {
        g.hdr("wellformed", "");
        let k = if r.chance(3, 4) { 1 } else { r.range(2, 4) };
        let function = if r.chance(1, 2) { response_fn(&mut r) } else { *r.pick(&[1u8, 2, 25, 26, 27, 28, 29, 30]) };
        let mut f = app_header(&mut r, function);
        for j in 0..k {
            let v = r.range(2, 8) as u8;
            let o = gen_obj(&mut r, v);
            if let Some(body) = ref_encode(&o) {
                if body.len() <= 3000 {
                    f.extend(free_header(v, 1, body.len()));
                    f.extend(body);
                }
            }
            if j == 0 && r.chance(1, 8) {
                f.extend([60, r.range(1, 4) as u8, 0x06]);
            }
        }
        g.line(&format!("parse {}", hex(&f)));
    }

    // (7) the parser: malformed
    let n = 420 * scale;
    for _ in 0..n {
        let v = r.range(2, 8) as u8;
        let mut o = gen_obj(&mut r, v);
        // keep the mutated cases small so that truncation hits every field
        if r.chance(3, 4) {
            o = match o {
                Obj::V5 { handle, block, data } => Obj::V5 { handle, block, data: data.into_iter().take(12).collect() },
                o => o,
            };
        }
        let function = if r.chance(1, 2) { 129 } else { request_fn(&mut r, v) };
        if r.chance(1, 5) && v != 5 {
            g.hdr("malformed", "mistake=not-utf8");
            let bad = spoil_string(&mut r, &o);
            if let Some(f) = wf_fragment(&mut r, function, &bad) {
                g.line(&format!("parse {}", hex(&f)));
            }
            continue;
        }
        let Some(f) = wf_fragment(&mut r, function, &o) else { continue };
        let at = (if function == 129 || function == 130 { 4 } else { 2 }) + 6;
        let (what, m) = mutate(&mut r, &f, at, v);
        g.hdr("malformed", &format!("mistake={what} variation={v}"));
        g.line(&format!("parse {}", hex(&m)));
    }
    // every truncation of one fragment per variation
    for v in 2u8..=8 {
        g.hdr("truncate", &format!("variation={v}"));
        let o = match gen_obj(&mut r, v) {
            Obj::V5 { handle, block, .. } => Obj::V5 { handle, block, data: vec![1, 2, 3] },
            Obj::V2 { key, .. } => Obj::V2 { key, user: "\u{e9}t\u{e9}".as_bytes().to_vec(), pass: "\u{1F4C4}".as_bytes().to_vec() },
            Obj::V3 { time, perm, key, size, mode, max_block, req, .. } => Obj::V3 { time, perm, key, size, mode, max_block, req, name: "\u{65e5}\u{8a8c}.log".as_bytes().to_vec() },
            Obj::V7 { ftype, size, time, perm, req, .. } => Obj::V7 { ftype, size, time, perm, req, name: "\u{65e5}\u{8a8c}.log".as_bytes().to_vec() },
            Obj::V4 { handle, size, max_block, req, status, .. } => Obj::V4 { handle, size, max_block, req, status, text: "n\u{e3}o".as_bytes().to_vec() },
            Obj::V6 { handle, block, status, .. } => Obj::V6 { handle, block, status, text: "n\u{e3}o".as_bytes().to_vec() },
            Obj::V8 { .. } => Obj::V8 { spec: "\u{65e5}\u{8a8c}/*.l\u{f6}g".as_bytes().to_vec() },
            o => o,
        };
        if let Some(f) = wf_fragment(&mut r, 129, &o) {
            let stride = if thorough { 1 } else { 1 };
            let mut i = 0;
            while i < f.len() {
                g.line(&format!("parse {}", hex(&f[..i])));
                // the same cut with the free-format length following the cut (the object itself is short)
                if i > 10 {
                    let mut s = f[..i].to_vec();
                    let l = i - 10;
                    s[8] = l as u8;
                    s[9] = (l >> 8) as u8;
                    g.line(&format!("parse {}", hex(&s)));
                }
                i += stride;
            }
        }
    }

    // (8) the file read task: requests of every state, responses right and wrong
    let n = 70 * scale;
    for _ in 0..n {
        g.hdr("readtask", "");
        let name = gen_name(&mut r);
        let mb = pick_u16(&mut r);
        let ms = *r.pick(&[0usize, 10, 100, 4096, usize::MAX >> 1]);
        let creds = r.chance(1, 2);
        if creds {
            g.line(&format!("rnew {} {mb} {ms} {} {}", hex(&name), hex(&gen_name(&mut r)), hex(&gen_name(&mut r))));
        } else {
            g.line(&format!("rnew {} {mb} {ms}", hex(&name)));
        }
        let need = 8 + 26 + name.len();
        let mut seq = r.below(16) as u8;
        let handle = pick_u32(&mut r);
        let mut block = 0u32;
        // the script of a plausible transfer, with a chance of a wrong turn at every step
        let mut stage = if creds { 0 } else { 1 };
        for _ in 0..r.range(2, 9) {
            g.line(&format!("rreq {seq} {}", if r.chance(1, 6) { gen_cap(&mut r, need) } else { 2048 }));
            seq = (seq + 1) % 16;
            let wrong = r.chance(1, 6);
            let o = match (stage, wrong) {
                (0, false) => Obj::V2 { key: if r.chance(1, 8) { 0 } else { pick_u32(&mut r) }, user: vec![], pass: vec![] },
                (1, false) => Obj::V4 { handle, size: pick_u32(&mut r), max_block: mb, req: 0x4653, status: if r.chance(1, 8) { *r.pick(&STATUS) } else { 0 }, text: if r.chance(1, 4) { gen_name(&mut r) } else { vec![] } },
                (2, false) => {
                    let last = r.chance(1, 4);
                    let b = if r.chance(1, 10) { pick_block(&mut r) } else { block | if last { 0x8000_0000 } else { 0 } };
                    let dl = r.below(40) as usize;
                    let d = r.bytes(dl);
                    Obj::V5 { handle, block: b, data: d }
                }
                (3, false) => Obj::V4 { handle, size: 0, max_block: 0, req: 0x4653, status: 0, text: vec![] },
                _ => {
                    let v = r.range(2, 8) as u8;
                    gen_obj(&mut r, v)
                }
            };
            let rf = response_fn(&mut r);
            let mut f = match wf_fragment(&mut r, rf, &o) {
                Some(f) => f,
                None => continue,
            };
            if r.chance(1, 12) {
                let at = if f[1] == 129 || f[1] == 130 { 10 } else { 8 };
                f = mutate(&mut r, &f, at, variation(&o)).1;
            }
            if r.chance(1, 15) {
                // two headers / none
                if r.chance(1, 2) {
                    f.extend([60, 1, 0x06]);
                } else {
                    f.truncate(4);
                }
            }
            g.line(&format!("rresp {}", hex(&f)));
            if !wrong {
                if let Obj::V5 { block: b, .. } = &o {
                    if stage == 2 && *b & 0x7FFF_FFFF == block {
                        if b & 0x8000_0000 != 0 {
                            stage = 3;
                        } else {
                            block += 1;
                        }
                    }
                } else if stage < 2 {
                    stage += 1;
                }
            }
        }
        g.line("rreq 0 2048");
    }
    // block numbers at the end of the 31-bit space
    g.hdr("readtask", "block=wrap");
    g.line("rnew 612e747874 512 1000000");
    g.line("rreq 1 2048");
    g.line(&format!("rresp {}", hex(&[0xC1, 0x81, 0, 0, 70, 4, 0x5B, 1, 13, 0, 9, 0, 0, 0, 100, 0, 0, 0, 0, 2, 0x53, 0x46, 0])));
    g.line("rreq 2 2048");
    g.line(&format!("rresp {}", hex(&[0xC2, 0x81, 0, 0, 70, 5, 0x5B, 1, 9, 0, 9, 0, 0, 0, 0, 0, 0, 0, 0x41])));
    g.line("rreq 3 2048");
    g.line(&format!("rresp {}", hex(&[0xC3, 0x81, 0, 0, 70, 5, 0x5B, 1, 9, 0, 9, 0, 0, 0, 1, 0, 0, 0x80, 0x42])));
    g.line("rreq 4 2048");
    g.line(&format!("rresp {}", hex(&[0xC4, 0x81, 0, 0, 70, 4, 0x5B, 1, 13, 0, 9, 0, 0, 0, 0, 0, 0, 0, 0, 0, 0x53, 0x46, 0])));
    g.line("rreq 5 2048");

    // (9) directory listings
    let n = 90 * scale;
    for _ in 0..n {
        g.hdr("directory", "");
        let k = r.below(6);
        let mut data = Vec::new();
        let mut starts = Vec::new();
        for _ in 0..k {
            starts.push(data.len());
            let o = gen_obj(&mut r, 7);
            if let Some(e) = ref_encode(&o) {
                if e.len() < 900 {
                    data.extend(e);
                }
            }
        }
        if r.chance(1, 3) && !data.is_empty() {
            match r.below(5) {
                0 => {
                    let n = r.below(data.len() as u64) as usize;
                    data.truncate(n);
                }
                1 => {
                    let k = r.range(1, 5) as usize;
                    data.extend(r.bytes(k));
                }
                2 => {
                    let s = *r.pick(&starts);
                    if s + 4 <= data.len() {
                        data[s + 2] = data[s + 2].wrapping_add(1);
                    }
                }
                3 => {
                    let s = *r.pick(&starts);
                    if s + 2 <= data.len() {
                        data[s] ^= 1 << r.below(8);
                    }
                }
                _ => {
                    let i = r.below(data.len() as u64) as usize;
                    data[i] ^= 0x80;
                }
            }
        }
        // the blocks the file transfer delivered it in
        let mut blocks: Vec<String> = Vec::new();
        let mut i = 0;
        while i < data.len() {
            let n = (r.range(1, 300) as usize).min(data.len() - i);
            blocks.push(hex(&data[i..i + n]));
            i += n;
        }
        if r.chance(1, 6) {
            blocks.push("-".to_string());
        }
        g.line(&format!("dir {}", blocks.join(" ")).trim_end().to_string());
    }
}
