//! engine `link` (C06): the real `link::reader::Reader` + `Parser` + `format_*` against the
//! Lean model (`Dnp3.Model.LinkReader`), plus trace monitors.
//!
//! ops:   new <d|c> <s|g> <frag> | feed <hex> | fmt <ctrl> <dst> <src> <transport|-> <hex>
//!        expect <ctrl> <dst> <src> <hex>      (monitor input only; no output on either side)
//! out:   frame <ctrl> <dst> <src> <hex> | err <kind> | bytes <hex> | badwrite | ok
use crate::rng::Rng;
use crate::util::*;
use dnp3::verif_hooks as hooks;
use std::io::Write;

const LENS: [usize; 14] = [0, 1, 2, 15, 16, 17, 31, 32, 33, 100, 248, 249, 250, 128];
const FRAGS: [usize; 8] = [249, 250, 292, 497, 498, 747, 1000, 2048];

#[derive(Clone)]
struct Frame {
    ctrl: u8,
    dst: u16,
    src: u16,
    payload: Vec<u8>,
}

impl Frame {
    fn random(r: &mut Rng, len: usize) -> Frame {
        let dst = match r.below(6) {
            0 => *r.pick(&[0xFFFFu16, 0xFFFE, 0xFFFD, 0xFFFC, 0xFFF0, 0]),
            _ => r.next() as u16,
        };
        Frame { ctrl: r.next() as u8, dst, src: r.next() as u16, payload: r.bytes(len) }
    }
    fn image(&self) -> Vec<u8> {
        ref_frame(self.ctrl, self.dst, self.src, &self.payload)
    }
    fn expect_line(&self) -> String {
        format!("@expect {} {} {} {}", self.ctrl, self.dst, self.src, hex(&self.payload))
    }
}

fn rand_len(r: &mut Rng) -> usize {
    if r.chance(2, 3) {
        *r.pick(&LENS)
    } else {
        r.below(251) as usize
    }
}

/// split `stream` into non-empty chunks by one of several styles
fn chunk(r: &mut Rng, stream: &[u8], cap: usize) -> Vec<Vec<u8>> {
    let n = stream.len();
    if n == 0 {
        return vec![];
    }
    let style = r.below(6);
    let mut cuts: Vec<usize> = Vec::new();
    match style {
        0 => {}
        1 => cuts = (1..n).collect(),
        2 => {
            let k = r.range(1, 8);
            for _ in 0..k {
                cuts.push(r.range(1, n.max(2) as u64 - 1) as usize);
            }
        }
        3 => {
            // cuts around multiples of the buffer capacity (straddle the shift point)
            let mut p = cap;
            while p < n + 3 {
                let d = r.below(5) as usize;
                if p > 2 + d {
                    cuts.push(p - 2 + d);
                }
                p += cap;
            }
            cuts.push(r.range(1, n.max(2) as u64 - 1) as usize);
        }
        4 => {
            // small random reads
            let mut p = 0;
            while p < n {
                p += r.range(1, 20) as usize;
                cuts.push(p);
            }
        }
        _ => {
            let mut p = 0;
            while p < n {
                p += r.range(1, 400) as usize;
                cuts.push(p);
            }
        }
    }
    cuts.retain(|c| *c > 0 && *c < n);
    cuts.sort();
    cuts.dedup();
    let mut res = Vec::new();
    let mut prev = 0;
    for c in cuts {
        res.push(stream[prev..c].to_vec());
        prev = c;
    }
    res.push(stream[prev..].to_vec());
    res
}

fn cap_of(frag: usize) -> usize {
    let nf = if frag % 249 == 0 { frag / 249 } else { frag / 249 + 1 };
    (if nf == 0 { 292 } else { nf * 292 }) + 1
}

pub fn gen(thorough: bool, seed: u64, w: &mut dyn Write) {
    let mut r = Rng::new(seed);
    let mut case = 0u64;
    let mut hdr = |w: &mut dyn Write, kind: &str, extra: &str| {
        writeln!(w, "# case {case} kind={kind} {extra}").unwrap();
        case += 1;
    };

    // (1) format correspondence: every control octet, boundary lengths, header-only
    for ctrl in 0..=255u8 {
        hdr(w, "fmt", "");
        let l = rand_len(&mut r).min(249);
        let f = Frame::random(&mut r, l);
        writeln!(w, "fmt {} {} {} {} {}", ctrl, f.dst, f.src, r.next() as u8, hex(&f.payload)).unwrap();
        writeln!(w, "fmt {} {} {} - -", ctrl, f.dst, f.src).unwrap();
    }
    for len in 0..=251usize {
        hdr(w, "fmt", "");
        let f = Frame::random(&mut r, 0);
        writeln!(w, "fmt {} {} {} {} {}", f.ctrl, f.dst, f.src, r.next() as u8, hex(&r.bytes(len))).unwrap();
    }

    // (2) exhaustive single split: every payload length 0..=250 x every split point
    let lens: Vec<usize> = (0..=250).collect();
    for &len in &lens {
        let f = Frame::random(&mut r, len);
        let img = f.image();
        let em = if r.chance(1, 2) { "c" } else { "d" };
        let frag = *r.pick(&FRAGS);
        let step = if thorough { 1 } else { 1 + img.len() / 40 };
        let mut k = 1;
        while k < img.len() {
            hdr(w, "split", "complete=1");
            writeln!(w, "new {em} s {frag}").unwrap();
            writeln!(w, "{}", f.expect_line()).unwrap();
            writeln!(w, "feed {}", hex(&img[..k])).unwrap();
            writeln!(w, "feed {}", hex(&img[k..])).unwrap();
            k += step;
        }
    }

    // (3) multi-frame streams with random chunking, both error modes
    let n_round = if thorough { 40000 } else { 1500 };
    for _ in 0..n_round {
        let nf = r.range(1, 6) as usize;
        let frames: Vec<Frame> = (0..nf).map(|_| { let l = rand_len(&mut r); Frame::random(&mut r, l) }).collect();
        let mut stream = Vec::new();
        for f in &frames {
            stream.extend(f.image());
        }
        let em = if r.chance(1, 2) { "c" } else { "d" };
        let frag = if r.chance(3, 4) { *r.pick(&FRAGS) } else { r.range(249, 2048) as usize };
        hdr(w, "roundtrip", "complete=1");
        writeln!(w, "new {em} s {frag}").unwrap();
        for f in &frames {
            writeln!(w, "{}", f.expect_line()).unwrap();
        }
        for c in chunk(&mut r, &stream, cap_of(frag)) {
            writeln!(w, "feed {}", hex(&c)).unwrap();
        }
    }

    // (3b) sessions: the session ends (`Reader::reset`, what the tasks do after every session) while a frame
    //      is partly received — or after an error in Close mode —, the frames of the next session arrive intact
    //      (S148: nothing of the old session, neither octets nor parser state, survives the reset)
    let n_sess = if thorough { 20000 } else { 800 };
    for _ in 0..n_sess {
        let em = if r.chance(1, 2) { "c" } else { "d" };
        let frag = if r.chance(3, 4) { *r.pick(&FRAGS) } else { r.range(249, 2048) as usize };
        hdr(w, "sessions", "complete=1");
        writeln!(w, "new {em} s {frag}").unwrap();
        let ns = r.range(2, 4);
        for si in 0..ns {
            let last = si + 1 == ns;
            // complete frames of this session
            let nf = r.below(3) as usize + if last { 1 } else { 0 };
            let frames: Vec<Frame> = (0..nf).map(|_| { let l = rand_len(&mut r); Frame::random(&mut r, l) }).collect();
            let mut stream = Vec::new();
            for f in &frames {
                writeln!(w, "{}", f.expect_line()).unwrap();
                stream.extend(f.image());
            }
            if !last {
                // ... and the beginning of one more
                let l = rand_len(&mut r);
                let img = Frame::random(&mut r, l).image();
                let cut = match r.below(4) {
                    0 => 1,
                    1 => 2,
                    2 => 10.min(img.len() - 1),
                    _ => r.range(1, (img.len() - 1) as u64) as usize,
                };
                stream.extend(&img[..cut]);
            }
            for c in chunk(&mut r, &stream, cap_of(frag)) {
                writeln!(w, "feed {}", hex(&c)).unwrap();
            }
            if !last {
                writeln!(w, "reset").unwrap();
            }
        }
    }

    // (4) bit errors: weight 1 (dense), 2, 3 and heavier; followed by a clean frame
    let n_bit = if thorough { 120000 } else { 4000 };
    for i in 0..n_bit {
        let len = if thorough && i < 251 * 64 { (i / 64) as usize } else { rand_len(&mut r) };
        let f = Frame::random(&mut r, len);
        let mut img = f.image();
        let nbits = img.len() * 8;
        let weight = match r.below(10) {
            0..=3 => 1,
            4..=6 => 2,
            7..=8 => 3,
            _ => r.range(4, 12) as usize,
        };
        let mut flipped = Vec::new();
        while flipped.len() < weight {
            let b = r.below(nbits as u64) as usize;
            if !flipped.contains(&b) {
                flipped.push(b);
                img[b / 8] ^= 1 << (b % 8);
            }
        }
        let em = if r.chance(1, 2) { "c" } else { "d" };
        hdr(w, "biterr", &format!("weight={weight}"));
        writeln!(w, "new {em} s {}", *r.pick(&FRAGS)).unwrap();
        for c in chunk(&mut r, &img, 293) {
            writeln!(w, "feed {}", hex(&c)).unwrap();
        }
    }
    if thorough {
        // every single-bit error of one frame per length (exhaustive in position)
        for len in (0..=250usize).step_by(1) {
            let f = Frame::random(&mut r, len);
            let img = f.image();
            for b in 0..img.len() * 8 {
                let mut d = img.clone();
                d[b / 8] ^= 1 << (b % 8);
                hdr(w, "biterr", "weight=1");
                writeln!(w, "new c s 2048").unwrap();
                writeln!(w, "feed {}", hex(&d)).unwrap();
            }
        }
    }

    // (5) discard mode: noise then frames
    let n_noise = if thorough { 40000 } else { 1500 };
    for _ in 0..n_noise {
        let style = r.below(5);
        let nlen = r.range(1, 40) as usize;
        let mut noise = r.bytes(nlen);
        let mut safe = true; // completeness is asserted only for noise without 0x05
        match style {
            0 | 1 => {
                for b in noise.iter_mut() {
                    if *b == 0x05 {
                        *b = 0x06;
                    }
                }
            }
            2 => {
                safe = false;
                let p = r.below(nlen as u64) as usize;
                noise[p] = 0x05;
            }
            3 => {
                safe = false;
                noise.push(0x05);
                noise.push(0x64);
                let extra = r.below(9) as usize;
                noise.extend(r.bytes(extra));
            }
            _ => {
                safe = false;
                // fake header with a valid CRC and a body that will fail
                let l = rand_len(&mut r);
                let f = Frame::random(&mut r, l);
                let img = f.image();
                let cut = 10 + r.below((img.len() - 9) as u64) as usize;
                noise = img[..cut.min(img.len())].to_vec();
                if noise.len() > 10 {
                    let p = 10 + r.below((noise.len() - 10) as u64) as usize;
                    noise[p] ^= 0x10;
                }
            }
        }
        let nf = r.range(1, 3) as usize;
        let frames: Vec<Frame> = (0..nf).map(|_| { let l = rand_len(&mut r); Frame::random(&mut r, l) }).collect();
        let mut stream = noise.clone();
        for f in &frames {
            stream.extend(f.image());
        }
        let frag = *r.pick(&FRAGS);
        hdr(w, "noise", &format!("complete={}", if safe { 1 } else { 0 }));
        writeln!(w, "new d s {frag}").unwrap();
        for f in &frames {
            writeln!(w, "{}", f.expect_line()).unwrap();
        }
        for c in chunk(&mut r, &stream, cap_of(frag)) {
            writeln!(w, "feed {}", hex(&c)).unwrap();
        }
    }

    // (6) datagram mode: whole frames per datagram, and frames split across datagrams
    let n_dg = if thorough { 20000 } else { 1000 };
    for _ in 0..n_dg {
        let em = if r.chance(1, 2) { "c" } else { "d" };
        let frag = *r.pick(&FRAGS);
        let split = r.chance(1, 2);
        hdr(w, "datagram", &format!("complete={}", if split { 0 } else { 1 }));
        writeln!(w, "new {em} g {frag}").unwrap();
        let nd = r.range(1, 5);
        let mut lines = Vec::new();
        for _ in 0..nd {
            // 1..2 frames per datagram, total <= 292 octets
            let l1 = r.below(100) as usize;
            let f1 = Frame::random(&mut r, l1);
            let mut dg = f1.image();
            let mut fs = vec![f1];
            if r.chance(1, 3) {
                let l2 = r.below(100) as usize;
                let f2 = Frame::random(&mut r, l2);
                dg.extend(f2.image());
                fs.push(f2);
            }
            if split && r.chance(1, 2) && dg.len() > 2 {
                let k = r.range(1, dg.len() as u64 - 1) as usize;
                lines.push(format!("feed {}", hex(&dg[..k])));
                lines.push(format!("feed {}", hex(&dg[k..])));
            } else {
                for f in &fs {
                    writeln!(w, "{}", f.expect_line()).unwrap();
                }
                lines.push(format!("feed {}", hex(&dg)));
            }
        }
        for l in lines {
            writeln!(w, "{l}").unwrap();
        }
    }
}

pub fn run(ops: &str, out: &mut dyn Write, mon: &mut dyn Write) {
    let rt = runtime();
    let mut stats = Stats::default();
    rt.block_on(tokio::task::unconstrained(async {
        for (hdr, lines) in split_cases(ops) {
            writeln!(out, "{hdr}").unwrap();
            let kind = case_attr(&hdr, "kind").unwrap_or("?").to_string();
            let complete = case_attr(&hdr, "complete") == Some("1");
            stats.hit(&format!("kind_{kind}"));
            stats.note_case(&lines.join("\n"));
            let mut probe = hooks::LinkProbe::new(false, false, 2048);
            let mut datagram = false;
            let mut expected: Vec<String> = Vec::new();
            let mut delivered: Vec<String> = Vec::new();
            let mut chunks: Vec<Vec<u8>> = Vec::new();
            // number of chunks fed when a session ended (`reset`)
            let mut session_ends: Vec<usize> = Vec::new();
            let mut errs = 0;
            for line in &lines {
                let ws: Vec<&str> = line.split_whitespace().collect();
                match ws.as_slice() {
                    ["new", em, rm, frag] => {
                        datagram = *rm == "g";
                        probe = hooks::LinkProbe::new(*em == "d", datagram, frag.parse().unwrap());
                        writeln!(out, "ok").unwrap();
                    }
                    ["reset"] => {
                        session_ends.push(chunks.len());
                        probe.reset_reader();
                        writeln!(out, "ok").unwrap();
                    }
                    ["feed", h] => {
                        let bytes = unhex(h);
                        let evs = probe.feed(&bytes).await;
                        chunks.push(bytes);
                        for e in evs {
                            if let Some(f) = e.strip_prefix("frame ") {
                                delivered.push(f.to_string());
                                stats.hit("frames_delivered");
                            } else {
                                errs += 1;
                                stats.hit(&format!("err_{}", e.split_whitespace().nth(1).unwrap_or("?")));
                            }
                            writeln!(out, "{e}").unwrap();
                        }
                        writeln!(out, "ok").unwrap();
                    }
                    ["fmt", c, d, s, t, h] => {
                        let app = unhex(h);
                        let res = if *t == "-" {
                            hooks::format_frame_raw(c.parse().unwrap(), d.parse().unwrap(), s.parse().unwrap(), None)
                        } else {
                            hooks::format_frame_raw(
                                c.parse().unwrap(),
                                d.parse().unwrap(),
                                s.parse().unwrap(),
                                Some((t.parse().unwrap(), &app)),
                            )
                        };
                        match &res {
                            Some(b) => writeln!(out, "bytes {}", hex(b)).unwrap(),
                            None => writeln!(out, "badwrite").unwrap(),
                        }
                        writeln!(out, "ok").unwrap();
                        // monitor: the formatter agrees with the independent reference framer
                        let c8: u8 = c.parse().unwrap();
                        let mut payload = Vec::new();
                        if *t != "-" {
                            payload.push(t.parse::<u8>().unwrap());
                            payload.extend(&app);
                        }
                        let want = if payload.len() > 250 { None } else {
                            Some(ref_frame(c8, d.parse().unwrap(), s.parse().unwrap(), &payload))
                        };
                        // the control octet round-trips through ControlField only for the
                        // bits it keeps (DIR, FCB, FCV, PRM|FUNC): all 8 bits, so equality is expected
                        if res != want {
                            writeln!(mon, "MONITOR-FAIL {hdr} :: format_matches_reference :: {line}").unwrap();
                        }
                    }
                    ["@expect", c, d, s, h] => expected.push(format!("{c} {d} {s} {h}")),
                    [] => {}
                    _ => writeln!(out, "bad-op").unwrap(),
                }
            }
            // soundness monitor: every delivered frame is the image of a well-formed frame that
            // is present in the fed octets (in datagram mode: inside one datagram)
            let stream: Vec<u8> = chunks.iter().flatten().copied().collect();
            for f in &delivered {
                let ws: Vec<&str> = f.split_whitespace().collect();
                let payload = unhex(ws[3]);
                let ok = if payload.len() > 250 { false } else {
                    let img = ref_frame(ws[0].parse().unwrap(), ws[1].parse().unwrap(), ws[2].parse().unwrap(), &payload);
                    if datagram { chunks.iter().any(|c| contains(c, &img)) } else { contains(&stream, &img) }
                };
                if !ok {
                    writeln!(mon, "MONITOR-FAIL {hdr} :: delivered_frame_is_intact_image :: frame {f}").unwrap();
                }
            }
            // completeness monitors
            let discard = lines.iter().any(|l| l.starts_with("new d"));
            if complete && !discard {
                if !(delivered == expected && errs == 0) {
                    writeln!(mon, "MONITOR-FAIL {hdr} :: every_sent_frame_recovered :: expected {} delivered {}", expected.len(), delivered.len()).unwrap();
                }
            }
            if discard && kind != "fmt" {
                // discard mode: what is delivered is exactly what an ideal resynchronising
                // scanner finds in the same octets (per datagram in datagram mode),
                // independent of how the octets were split into reads
                let want: Vec<String> = if datagram {
                    chunks.iter().flat_map(|c| ref_scan(c)).collect()
                } else if !session_ends.is_empty() {
                    // every session is scanned by itself: nothing is carried over a `reset`
                    let mut v = Vec::new();
                    let mut from = 0;
                    for to in session_ends.iter().copied().chain(std::iter::once(chunks.len())) {
                        let s: Vec<u8> = chunks[from..to].iter().flatten().copied().collect();
                        v.extend(ref_scan(&s));
                        from = to;
                    }
                    v
                } else {
                    ref_scan(&stream)
                };
                if delivered != want || errs != 0 {
                    // cause predicate of known finding D10: every lost frame starts inside the span of a
                    // frame candidate that began earlier (its octets were consumed by an earlier read)
                    let mut cause = "";
                    if !datagram && errs == 0 {
                        let mut all_d10 = true;
                        let mut any = false;
                        let mut di = 0;
                        for (f, off) in ref_scan_offsets(&stream) {
                            if di < delivered.len() && delivered[di] == f {
                                di += 1;
                                continue;
                            }
                            any = true;
                            // an earlier-started candidate (05 [64 [header [body]]]) spans `off`
                            let mut p1 = false;
                            let p2 = false;
                            let lo = off.saturating_sub(292);
                            for c in lo..off {
                                if stream[c] != 0x05 { continue; }
                                if c + 1 == off { p1 = true; break; }
                                if stream[c + 1] != 0x64 { continue; }
                                if off - c < 10 { p1 = true; break; }
                                let len = stream[c + 2] as usize;
                                if len < 5 { continue; }
                                let crc = u16::from_le_bytes([stream[c + 8], stream[c + 9]]);
                                if ref_crc(0, &stream[c..c + 8]) != crc { continue; }
                                let dl = len - 5;
                                let trailer = (dl / 16) * 18 + if dl % 16 == 0 { 0 } else { dl % 16 + 2 };
                                if c + 10 + trailer > off { p1 = true; break; }
                            }
                            if !(p1 || p2) {
                                all_d10 = false;
                            }
                        }
                        if any && all_d10 && di == delivered.len() {
                            cause = " cause=D10";
                        }
                    }
                    writeln!(mon, "MONITOR-FAIL {hdr} :: discard_mode_finds_every_valid_frame{cause} :: want {} delivered {}", want.len(), delivered.len()).unwrap();
                }
                if complete && !datagram {
                    let ok = delivered.len() >= expected.len() && delivered[delivered.len() - expected.len()..] == expected[..];
                    if !ok && want.len() >= expected.len() && want[want.len() - expected.len()..] == expected[..] {
                        // (already reported above through `want`)
                    } else if !ok {
                        writeln!(mon, "MONITOR-FAIL {hdr} :: frame_after_noise_recovered :: expected {} delivered {}", expected.len(), delivered.len()).unwrap();
                    }
                }
            }
        }
    }));
    stats.dump(mon);
}

/// ideal discard-mode scanner over a complete octet string (independent of the library)
fn ref_scan_offsets(s: &[u8]) -> Vec<(String, usize)> {
    let n = s.len();
    let mut o = 0;
    let mut res = Vec::new();
    while o < n {
        if s[o] != 0x05 {
            o += 1;
            continue;
        }
        if o + 1 >= n {
            break;
        }
        if s[o + 1] != 0x64 {
            o += 1;
            continue;
        }
        if o + 10 > n {
            break;
        }
        let len = s[o + 2] as usize;
        if len < 5 {
            o += 1;
            continue;
        }
        let crc = u16::from_le_bytes([s[o + 8], s[o + 9]]);
        if ref_crc(0, &s[o..o + 8]) != crc {
            o += 1;
            continue;
        }
        let dl = len - 5;
        let trailer = (dl / 16) * 18 + if dl % 16 == 0 { 0 } else { dl % 16 + 2 };
        if o + 10 + trailer > n {
            break;
        }
        let mut payload = Vec::new();
        let mut ok = true;
        for blk in s[o + 10..o + 10 + trailer].chunks(18) {
            let dlen = blk.len() - 2;
            let c = u16::from_le_bytes([blk[dlen], blk[dlen + 1]]);
            if ref_crc(0, &blk[..dlen]) != c {
                ok = false;
                break;
            }
            payload.extend_from_slice(&blk[..dlen]);
        }
        if !ok {
            o += 1;
            continue;
        }
        let dst = u16::from_le_bytes([s[o + 4], s[o + 5]]);
        let src = u16::from_le_bytes([s[o + 6], s[o + 7]]);
        res.push((format!("{} {} {} {}", s[o + 3], dst, src, hex(&payload)), o));
        o += 10 + trailer;
    }
    res
}

fn ref_scan(s: &[u8]) -> Vec<String> {
    ref_scan_offsets(s).into_iter().map(|x| x.0).collect()
}
