"""gen_ffi -- C20: extract every conversion arm / struct-field assignment of ffi/dnp3-ffi/src/**.rs.

Outputs
  lean/Dnp3/Gen/FfiArms.lean          arms table + struct-field table (names interned as Nat + name table)
  harness/src/ffi_probe_gen.rs        generated Rust probe: executes every reachable arm through the REAL `From`
  (report["ffi"])                     what was parsed / skipped, counted

A construct that looks like a conversion but cannot be classified => api.broken("translator:FfiArms.lean:...").
"""
import os
import re
import sys

sys.path.insert(0, os.path.dirname(os.path.abspath(__file__)))
import rsparse as R  # noqa: E402
from rsparse import is_p, is_id, is_g, flat  # noqa: E402

FFI_SRC = "ffi/dnp3-ffi/src"
GEN = "FfiArms.lean"


# ------------------------------------------------------------------------------------------
# walking the token tree: impl / fn / match / struct literal with context
# ------------------------------------------------------------------------------------------
class Ctx:
    def __init__(self, file):
        self.file = file
        self.impl = None      # flat text of the impl header (`From<ffi::X> for Y`), or None
        self.fn = None        # fn name
        self.params = []      # [(name, type text)]
        self.ret = None       # return type text
        self.macro = None
        self.cfg = None       # text of an enclosing #[cfg(...)] attribute (impl / fn level)
        self.uses_self = None

    def copy(self):
        c = Ctx(self.file)
        c.__dict__.update(self.__dict__)
        return c


class Match:
    def __init__(self, ctx, slot, scrut, arms, line, tail):
        self.ctx = ctx
        self.slot = slot      # field name / let name / None
        self.scrut = scrut    # token list
        self.arms = arms      # [(pattern toks, guard toks|None, body toks)]
        self.line = line
        self.tail = tail      # True if the match is the tail expression of its fn body


class Lit:
    """a struct literal or constructor call found in a conversion position"""
    def __init__(self, ctx, path, fields, rest, line, slot, kind):
        self.ctx = ctx
        self.path = path      # text of the type path
        self.fields = fields  # [(name, expr toks)]
        self.rest = rest      # True when `..base` is present
        self.line = line
        self.slot = slot
        self.tail = False
        self.kind = kind      # "lit" | "ctor"


def parse_arms(items):
    arms = []
    i = 0
    n = len(items)
    while i < n:
        pat = []
        while i < n and not is_p(items[i], "=>"):
            pat.append(items[i])
            i += 1
        if i >= n:
            if pat:
                raise R.ParseError("match arm without => at line %d" % pat[0].line)
            break
        i += 1  # =>
        body = []
        if i < n and is_g(items[i], "{") and (i + 1 >= n or not (is_p(items[i + 1], ".") or is_p(items[i + 1], "?"))):
            body = [items[i]]
            i += 1
            if i < n and is_p(items[i], ","):
                i += 1
        else:
            depth = 0
            while i < n:
                t = items[i]
                if is_p(t, "<") and i > 0 and is_p(items[i - 1], "::"):
                    depth += 1
                elif is_p(t, ">") and depth:
                    depth -= 1
                if is_p(t, ",") and depth == 0:
                    i += 1
                    break
                body.append(t)
                i += 1
        guard = None
        for k, t in enumerate(pat):
            if is_id(t, "if"):
                guard = pat[k + 1:]
                pat = pat[:k]
                break
        arms.append((pat, guard, body))
    return arms


def path_before(items, j):
    """tokens of a path expression ending just before index j (ident (:: ident)*), or []"""
    k = j
    res = []
    while k - 1 >= 0 and items[k - 1].kind == "id":
        res.insert(0, items[k - 1])
        k -= 1
        if k - 1 >= 0 and is_p(items[k - 1], "::"):
            res.insert(0, items[k - 1])
            k -= 1
        else:
            break
    if res and is_p(res[0], "::"):
        res = res[1:]
    return res


KEYWORDS_BEFORE_BLOCK = {"else", "loop", "unsafe", "move", "async", "in", "if", "while", "for", "match", "return", "mut", "let", "fn", "impl", "struct", "enum", "mod", "where", "dyn", "as", "pub"}


def attrs_before(items, i):
    """text of `#[cfg(...)]` attributes directly preceding items[i] (skipping `pub`, `unsafe` ...)"""
    k = i - 1
    res = []
    while k >= 0:
        t = items[k]
        if t.kind == "id" and t.text in ("pub", "unsafe", "const", "async", "extern", "default"):
            k -= 1
            continue
        if is_g(t, "(") and k >= 1 and is_id(items[k - 1], "pub"):
            k -= 1
            continue
        if t.kind == "str" and k >= 1 and is_id(items[k - 1], "extern"):
            k -= 1
            continue
        if is_g(t, "[") and k >= 1 and is_p(items[k - 1], "#"):
            txt = flat(t.items)
            if txt.startswith("cfg"):
                res.append(txt)
            k -= 2
            continue
        break
    return " ".join(res) if res else None


def walk(items, ctx, out, in_brace=False, fn_body=False, slot0=None):
    """collect Match and Lit objects into out"""
    i = 0
    n = len(items)
    while i < n:
        t = items[i]
        if is_id(t, "macro_rules") and i + 3 < n and is_p(items[i + 1], "!"):
            c = ctx.copy()
            c.macro = items[i + 2].text
            walk(items[i + 3].items if is_g(items[i + 3]) else [], c, out)
            i += 4
            continue
        if is_id(t, "impl"):
            j = i + 1
            while j < n and not is_g(items[j], "{") and not is_p(items[j], ";"):
                j += 1
            if j < n and is_g(items[j], "{"):
                c = ctx.copy()
                hdr = items[i + 1:j]
                # drop leading generics `<...>`
                if hdr and is_p(hdr[0], "<"):
                    d = 0
                    k = 0
                    for k, h in enumerate(hdr):
                        if is_p(h, "<"):
                            d += 1
                        elif is_p(h, ">"):
                            d -= 1
                            if d == 0:
                                break
                    hdr = hdr[k + 1:]
                c.impl = flat(hdr)
                c.cfg = attrs_before(items, i) or ctx.cfg
                walk(items[j].items, c, out)
                i = j + 1
                continue
        if is_id(t, "fn") and i + 1 < n and items[i + 1].kind == "id":
            j = i + 2
            while j < n and not is_g(items[j], "("):
                j += 1
            if j < n:
                params = []
                for p in R.split_commas(items[j].items):
                    k = next((x for x, q in enumerate(p) if is_p(q, ":")), None)
                    if k is not None:
                        nm = [q.text for q in p[:k] if q.kind == "id" and q.text not in ("mut", "ref")]
                        params.append((nm[-1] if nm else "?", flat(p[k + 1:])))
                    elif p:
                        params.append(("self", flat(p)))
                k = j + 1
                while k < n and not is_g(items[k], "{") and not is_p(items[k], ";"):
                    k += 1
                if k < n and is_g(items[k], "{"):
                    c = ctx.copy()
                    c.fn = items[i + 1].text if ctx.fn is None else ctx.fn + "." + items[i + 1].text
                    c.params = params if ctx.fn is None else ctx.params + params
                    c.cfg = attrs_before(items, i) or ctx.cfg
                    ret = items[j + 1:k]
                    if ret and is_p(ret[0], "->"):
                        r2 = []
                        for q in ret[1:]:
                            if is_id(q, "where"):
                                break
                            r2.append(q)
                        c.ret = flat(r2)
                    else:
                        c.ret = None
                    walk(items[k].items, c, out, in_brace=True, fn_body=True)
                    i = k + 1
                    continue
                i = k + 1
                continue
        if is_id(t, "match"):
            j = i + 1
            while j < n and not is_g(items[j], "{"):
                j += 1
            if j >= n:
                raise R.ParseError("match without body at line %d" % t.line)
            slot = None
            if i == 0 and slot0 is not None:
                slot = slot0
            elif i >= 2 and is_p(items[i - 1], ":") and items[i - 2].kind == "id":
                slot = items[i - 2].text
            elif i >= 2 and is_p(items[i - 1], "=") and items[i - 2].kind == "id":
                slot = "let " + items[i - 2].text
            arms = parse_arms(items[j].items)
            tail = fn_body and i == 0 and j == n - 1
            out.append(Match(ctx, slot, items[i + 1:j], arms, t.line, tail))
            walk(items[i + 1:j], ctx, out)
            for pat, guard, body in arms:
                walk(body, ctx, out)
            i = j + 1
            continue
        if is_g(t, "{"):
            # struct literal?  `Path {` where the path's last segment is CamelCase / Self
            p = path_before(items, i)
            if p and p[-1].text[0].isupper() and not (len(p) == 1 and i >= 2 and items[i - 2].kind == "id" and items[i - 2].text in ("struct", "enum", "union", "trait", "mod", "impl", "for")) \
                    and not (i - len(p) - 1 >= 0 and items[i - len(p) - 1].kind == "id" and items[i - len(p) - 1].text in ("struct", "enum", "union", "trait", "mod", "impl", "for", "match", "if", "while", "in", "->")) \
                    and ctx.fn is not None and looks_like_literal(t.items):
                fields, rest = parse_fields(t.items)
                slot = None
                k0 = i - (2 * len([q for q in p if q.kind == "id"]) - 1)
                if k0 == 0 and slot0 is not None:
                    slot = slot0
                elif k0 >= 2 and is_p(items[k0 - 1], ":") and items[k0 - 2].kind == "id":
                    slot = items[k0 - 2].text
                elif k0 >= 2 and is_p(items[k0 - 1], "=") and items[k0 - 2].kind == "id":
                    slot = "let " + items[k0 - 2].text
                lit = Lit(ctx, flat(p), fields, rest, t.line, slot, "lit")
                lit.tail = fn_body and k0 == 0
                out.append(lit)
                for fname, e in fields:
                    walk(e, ctx, out, slot0=fname)
                i += 1
                continue
            walk(t.items, ctx, out, in_brace=True)
            i += 1
            continue
        if is_g(t, "("):
            p = path_before(items, i)
            if p and len(p) >= 3 and p[-1].text == "new" and p[-3].text[0].isupper() and ctx.fn is not None:
                args = R.split_commas(t.items)
                lit = Lit(ctx, flat(p[:-2]), [("#%d" % k, a) for k, a in enumerate(args)], False, t.line, slot0 if i == len(p) else None, "ctor")
                lit.tail = fn_body and i == len(p) and i == n - 1
                out.append(lit)
            walk(t.items, ctx, out)
            i += 1
            continue
        if is_g(t):
            walk(t.items, ctx, out)
        i += 1


def looks_like_literal(items):
    """`{ a: e, b, ..x }` (struct literal) as opposed to a block"""
    if not items:
        return False
    parts = R.split_commas(items)
    for p in parts:
        if not p:
            continue
        if is_p(p[0], ".."):
            continue
        if len(p) == 1 and p[0].kind == "id":
            continue
        if len(p) >= 3 and p[0].kind == "id" and is_p(p[1], ":") and not is_p(p[2], ":"):
            continue
        return False
    return True


def parse_fields(items):
    fields = []
    rest = False
    for p in R.split_commas(items):
        if not p:
            continue
        if is_p(p[0], ".."):
            rest = True
        elif len(p) == 1:
            fields.append((p[0].text, [p[0]]))
        else:
            fields.append((p[0].text, p[2:]))
    return fields, rest


def subst(items, env):
    """macro transcription: replace `$name` by the argument tokens"""
    res = []
    k = 0
    while k < len(items):
        t = items[k]
        if is_p(t, "$") and k + 1 < len(items) and items[k + 1].kind == "id" and items[k + 1].text in env:
            res.extend(env[items[k + 1].text])
            k += 2
            continue
        if is_g(t):
            res.append(R.Tok("group", t.text, t.line, subst(t.items, env)))
        else:
            res.append(t)
        k += 1
    return res


def top_level(tr, rel, api, out, uses):
    """walk one file: expand the single-rule macros it defines and invokes, record `use` lines"""
    macros = {}
    skip = set()
    n = len(tr)
    for i, t in enumerate(tr):
        if is_id(t, "macro_rules") and i + 3 < n and is_p(tr[i + 1], "!") and is_g(tr[i + 3]):
            name = tr[i + 2].text
            body = tr[i + 3].items
            # ( params ) => { body } [;]
            rules = [k for k, b in enumerate(body) if is_p(b, "=>")]
            if len(rules) == 1 and rules[0] == 1 and is_g(body[0]) and len(body) >= 3 and is_g(body[2]):
                params = [q.text for k, q in enumerate(body[0].items) if q.kind == "id" and k >= 1 and is_p(body[0].items[k - 1], "$")]
                macros[name] = (params, body[2].items, i)
            else:
                api.broken("translator:%s:%s/%s:macro_rules %s (more than one rule)" % (GEN, FFI_SRC, rel, name))
    invoked = set()
    for i, t in enumerate(tr):
        if t.kind == "id" and t.text in macros and i + 2 < n and is_p(tr[i + 1], "!") and is_g(tr[i + 2]):
            params, body, _ = macros[t.text]
            args = R.split_commas(tr[i + 2].items)
            if len(args) != len(params):
                api.broken("translator:%s:%s/%s:macro %s arity" % (GEN, FFI_SRC, rel, t.text))
                continue
            c = Ctx(rel)
            c.macro = "%s!(%s)" % (t.text, ",".join(flat(a) for a in args))
            c.cfg = attrs_before(tr, i)
            walk(subst(body, dict(zip(params, args))), c, out)
            invoked.add(t.text)
            skip.add(i)
            skip.add(i + 2)
    for name, (_, _, i) in macros.items():
        if name in invoked:
            skip.update([i, i + 1, i + 2, i + 3])
    rest = [t for k, t in enumerate(tr) if k not in skip]
    walk(rest, Ctx(rel), out)
    # use lines (with cfg attribute if any)
    for i, t in enumerate(tr):
        if is_id(t, "use") and (i == 0 or not is_p(tr[i - 1], "::")):
            j = i
            while j < n and not is_p(tr[j], ";"):
                j += 1
            uses.append((flat(tr[i + 1:j]), attrs_before(tr, i)))


def collect(api):
    found = []
    root = os.path.join(api.REPO, FFI_SRC)
    files = []
    for d, _, fs in os.walk(root):
        for f in fs:
            if f.endswith(".rs"):
                files.append(os.path.relpath(os.path.join(d, f), root))
    for rel in sorted(files):
        text = api.strip_tests(open(os.path.join(root, rel)).read())
        try:
            tr = R.parse(text)
            out = []
            uses = []
            top_level(tr, rel, api, out, uses)
            found.append((rel, out, uses))
        except R.ParseError as e:
            api.broken("translator:%s:%s/%s:%s" % (GEN, FFI_SRC, rel, e))
    return found


# ------------------------------------------------------------------------------------------
# classification of patterns / values
# ------------------------------------------------------------------------------------------
GENERIC = {"Some": "Option", "None": "Option", "Ok": "Result", "Err": "Result"}


def is_variant_name(s):
    return bool(s) and s[0].isupper() and not (len(s) > 3 and s.upper() == s and "_" in s)


def norm_type(txt):
    txt = txt.replace(" ", "")
    while txt.startswith("&"):
        txt = txt[1:]
    if txt.startswith("crate::ffi::"):
        txt = txt[len("crate::"):]
    return txt


class Env:
    """per-match name resolution: Self type, names imported from crate::ffi"""
    def __init__(self, ctx, ffi_names):
        self.ctx = ctx
        self.ffi_names = ffi_names
        self.self_ty = None
        self.from_ty = None
        self.is_from = False
        hdr = ctx.impl
        if hdr:
            m = re.match(r"(?:Try)?From<(.*)>for (.*)$", hdr)
            if m:
                self.from_ty = norm_type(m.group(1))
                self.self_ty = norm_type(m.group(2))
                self.is_from = ctx.fn is not None and ctx.fn.split(".")[0] in ("from", "try_from")
            elif "for " in hdr and not hdr.startswith("for "):
                self.self_ty = norm_type(hdr.split("for ", 1)[1])
            else:
                self.self_ty = norm_type(hdr)
            if self.self_ty:
                self.self_ty = re.sub(r"<'[a-z_]+>$", "", self.self_ty)

    def ty(self, segs):
        """type path text of a variant path's type part"""
        if segs and segs[0] == "Self" and self.self_ty:
            segs = self.self_ty.split("::") + segs[1:]
        t = norm_type("::".join(segs))
        if len(segs) == 1 and segs[0] in self.ffi_names:
            t = "ffi::" + t
        return t


def is_ffi(ty):
    return ty.startswith("ffi::")


def read_path(toks, k=0):
    """(segments, next index) of `a::b::C` starting at toks[k]; generic args `::<..>` are skipped"""
    segs = []
    n = len(toks)
    while k < n and toks[k].kind == "id":
        segs.append(toks[k].text)
        k += 1
        if k + 1 < n and is_p(toks[k], "::") and toks[k + 1].kind == "id":
            k += 1
            continue
        break
    return segs, k


def strip_pat(toks):
    toks = list(toks)
    while toks and (is_p(toks[0], "&") or is_id(toks[0], "ref") or is_id(toks[0], "mut")):
        toks = toks[1:]
    return toks


class V:
    """classified pattern alternative / value"""
    def __init__(self, kind, ty="", var="", payload=False, wrap=None, via=None, text=""):
        self.kind = kind      # variant | wild | lit | delegate | call | nested | tuple | other
        self.ty = ty
        self.var = var
        self.payload = payload
        self.wrap = wrap or []
        self.via = via        # struct field through which the variant is delivered
        self.text = text
        self.parts = []

    def generic(self):
        return self.kind == "variant" and self.ty in ("Option", "Result")


def pat_of(toks, env):
    toks = strip_pat(toks)
    txt = flat(toks)
    if not toks:
        return V("other", text=txt)
    if len(toks) == 1:
        t = toks[0]
        if is_p(t, "_"):
            return V("wild", var="_", text=txt)
        if t.kind in ("num", "str", "char") or is_id(t, "true") or is_id(t, "false"):
            return V("lit", ty="bool" if t.kind == "id" else "lit", var=t.text, text=txt)
        if is_g(t, "("):
            parts = [pat_of(p, env) for p in R.split_commas(t.items)]
            if len(parts) == 1:
                return parts[0]
            v = V("tuple", text=txt)
            v.parts = parts
            return v
        if t.kind == "id" and t.text == "_":
            return V("wild", var="_", text=txt)
        if t.kind == "id" and not t.text[0].isupper():
            return V("wild", var="_", text=txt)  # binding catch-all
    if toks[0].kind == "id":
        segs, k = read_path(toks)
        rest = toks[k:]
        if len(rest) > 1 or (rest and not is_g(rest[0])):
            return V("other", text=txt)
        last = segs[-1]
        if len(segs) == 1 and last in GENERIC:
            if rest and is_g(rest[0], "("):
                inner = pat_of(rest[0].items, env)
                if inner.kind in ("variant", "tuple"):
                    if inner.kind == "variant":
                        inner.wrap = [last] + inner.wrap
                        return inner
                return V("variant", GENERIC[last], last, payload=bool(rest[0].items), text=txt)
            return V("variant", GENERIC[last], last, text=txt)
        if is_variant_name(last) and len(segs) >= 2:
            return V("variant", env.ty(segs[:-1]), last, payload=bool(rest), text=txt)
        if is_variant_name(last) and len(segs) == 1 and rest:
            return V("variant", "?", last, payload=True, text=txt)
    return V("other", text=txt)


def strip_expr(toks):
    toks = list(toks)
    changed = True
    while changed and toks:
        changed = False
        if is_p(toks[0], "&") or is_p(toks[0], "*"):
            toks = toks[1:]
            changed = True
        if toks and is_p(toks[-1], "?"):
            toks = toks[:-1]
            changed = True
        if len(toks) >= 3 and is_g(toks[-1], "(") and not toks[-1].items and is_id(toks[-2], "into") and is_p(toks[-3], "."):
            toks = toks[:-3]
            changed = True
        if len(toks) == 1 and is_g(toks[0], "{"):
            stmts = R.split_top(toks[0].items, ";")
            if stmts and stmts[-1]:
                toks = stmts[-1]
                changed = True
    return toks


def value_of(toks, env):
    orig = flat(toks)
    had_into = len(toks) >= 3 and is_id(toks[-2], "into") and is_p(toks[-3], ".")
    toks = strip_expr(toks)
    txt = flat(toks)
    if not toks:
        return V("other", text=orig)
    if is_id(toks[0], "match"):
        return V("nested", text=txt)
    if is_id(toks[0], "return"):
        return V("other", text=orig)
    if len(toks) == 1:
        t = toks[0]
        if t.kind in ("num", "str", "char") or is_id(t, "true") or is_id(t, "false"):
            return V("lit", ty="lit", var=t.text, text=txt)
        if is_g(t, "("):
            parts = [value_of(p, env) for p in R.split_commas(t.items)]
            if not parts:
                return V("lit", ty="unit", var="()", text=txt)
            if len(parts) == 1:
                return parts[0]
            vs = [p for p in parts if p.kind == "variant"]
            if len(vs) == 1:
                return vs[0]
            v = V("tuple", text=txt)
            v.parts = parts
            return v
        if t.kind == "id" and not t.text[0].isupper():
            return V("delegate" if had_into else "other", var=t.text, text=orig)
    if toks[0].kind == "id":
        segs, k = read_path(toks)
        rest = toks[k:]
        last = segs[-1]
        if not rest:
            if len(segs) == 1 and last == "None":
                return V("variant", "Option", "None", text=txt)
            if is_variant_name(last) and len(segs) >= 2:
                return V("variant", env.ty(segs[:-1]), last, text=txt)
            return V("other", text=orig)
        if len(rest) == 1 and is_g(rest[0], "("):
            if (len(segs) == 1 and last in ("Some", "Ok", "Err")) or segs == ["Box", "new"]:
                args = R.split_commas(rest[0].items)
                if len(args) == 1:
                    inner = value_of(args[0], env)
                    if inner.kind == "lit" and inner.ty == "unit":
                        return V("variant", GENERIC[last], last, text=txt)
                    if inner.kind in ("variant", "call", "delegate", "nested"):
                        inner.wrap = [last] + inner.wrap
                        return inner
                return V("other", text=orig)
            if is_variant_name(last) and len(segs) >= 2:
                return V("variant", env.ty(segs[:-1]), last, payload=True, text=txt)
            if len(segs) >= 2 and segs[-2][0].isupper():
                return V("call", env.ty(segs[:-1]), last, payload=True, text=txt)
            return V("other", text=orig)
        if len(rest) == 1 and is_g(rest[0], "{") and looks_like_literal(rest[0].items):
            if len(segs) >= 2 and segs[-2][0].isupper() and is_variant_name(last):
                return V("variant", env.ty(segs[:-1]), last, payload=True, text=txt)
            fields, _ = parse_fields(rest[0].items)
            vs = []
            for fname, e in fields:
                fv = value_of(e, env)
                if fv.kind == "variant" and not fv.generic():
                    fv.via = fname
                    vs.append(fv)
            if len(vs) == 1:
                return vs[0]
            return V("other", text=orig)
    return V("other", text=orig)


def ffi_variants_in(toks, env, acc):
    """every `ffi::T::V` path occurring in a token list (nested matches excluded)"""
    k = 0
    n = len(toks)
    while k < n:
        t = toks[k]
        if is_id(t, "match"):
            j = k + 1
            while j < n and not is_g(toks[j], "{"):
                j += 1
            ffi_variants_in(toks[k + 1:j], env, acc)
            k = j + 1
            continue
        if t.kind == "id" and (k == 0 or not is_p(toks[k - 1], "::")) and (k == 0 or not is_p(toks[k - 1], ".")):
            segs, k2 = read_path(toks, k)
            if len(segs) >= 2 and is_variant_name(segs[-1]) and segs[-2][0].isupper():
                ty = env.ty(segs[:-1])
                if is_ffi(ty):
                    acc.append((ty, segs[-1]))
            k = max(k2, k + 1)
            continue
        if is_g(t):
            ffi_variants_in(t.items, env, acc)
        k += 1


def pat_variants(v, acc):
    if v.kind == "variant" and not v.generic():
        acc.append(v)
    for p in v.parts:
        pat_variants(p, acc)


# ------------------------------------------------------------------------------------------
# rows
# ------------------------------------------------------------------------------------------
class ArmRow:
    def __init__(self, impl, direction, lv, rv, kind):
        self.impl = impl
        self.dir = direction
        self.lty, self.lvar, self.lpayload, self.lwrap = lv.ty, lv.var, lv.payload, lv.wrap
        self.rty, self.rvar, self.rwrap, self.via = rv.ty, rv.var, rv.wrap, rv.via
        self.kind = kind
        self.ltext = lv.text
        self.probe = None     # filled by the probe planner


class FieldRow:
    def __init__(self, conv, direction, ty, field, kind, chain, src):
        self.conv, self.dir, self.ty, self.field, self.kind, self.chain, self.src = conv, direction, ty, field, kind, chain, src


def ident(s):
    return re.sub(r"\s+", ".", s.strip())


def conv_id(ctx, slot=None):
    base = ctx.impl if ctx.impl else "fn"
    if ctx.fn and not (ctx.impl and ctx.fn.split(".")[0] in ("from", "try_from") and "." not in ctx.fn):
        base += "::" + ctx.fn
    s = "%s::%s" % (ctx.file, base)
    if ctx.macro:
        s += "@" + ctx.macro
    if slot:
        s += "#" + slot
    return ident(s)


KW = {"as", "if", "else", "true", "false", "mut", "ref", "usize", "u8", "u16", "u32", "u64", "i8", "i16", "i32", "i64", "f32", "f64", "bool", "_", "move", "return", "let", "match", "in", "for", "while", "loop", "unsafe", "crate", "super", "dyn", "impl", "fn", "where", "const", "static", "break", "continue"}


def chains_in(toks, roots, acc, idents):
    k = 0
    n = len(toks)
    while k < n:
        t = toks[k]
        if t.kind == "id" and (k == 0 or not (is_p(toks[k - 1], ".") or is_p(toks[k - 1], "::"))) and not (k + 1 < n and is_p(toks[k + 1], "::")):
            is_local = (not t.text[0].isupper()) and t.text not in KW and not (k + 1 < n and (is_g(toks[k + 1], "(") or is_p(toks[k + 1], "!")))
            if t.text in roots or is_local:
                chain = []
                j = k + 1
                while j + 1 < n and is_p(toks[j], ".") and toks[j + 1].kind in ("id", "num"):
                    chain.append(toks[j + 1].text)
                    j += 2
                    if j < n and is_g(toks[j], "("):
                        chains_in(toks[j].items, roots, acc, idents)
                        j += 1
                while chain and chain[-1] in ("into", "clone", "to_owned", "as_ref"):
                    chain.pop()
                acc.append((t.text, chain))
                k = j
                continue
        if is_g(t):
            chains_in(t.items, roots, acc, idents)
        k += 1


def field_source(expr, roots):
    """-> (kind, chain, text)"""
    toks = list(expr)
    txt = flat(toks)[:120]
    while toks and (is_p(toks[0], "&") or is_p(toks[0], "*")):
        toks = toks[1:]
    if toks and is_id(toks[0], "match"):
        j = 1
        while j < len(toks) and not is_g(toks[j], "{"):
            j += 1
        acc, ids = [], []
        chains_in(toks[1:j], roots, acc, ids)
        chain = []
        for r, c in acc:
            chain.extend(c if c else [r])
        return "match", chain, txt
    if toks and toks[0].kind == "id":
        segs, k = read_path(toks)
        if k < len(toks) and is_g(toks[k], "{") and segs[-1][0].isupper() and looks_like_literal(toks[k].items):
            return "nested", [], txt
    acc, ids = [], []
    chains_in(toks, roots, acc, ids)
    if acc:
        chain = []
        for r, c in acc:
            for sg in (c if c else [r]):
                if sg not in chain:
                    chain.append(sg)
        plain = all(not c for _, c in acc)
        return ("ident" if plain else "accessor"), chain, txt
    return "const", [], txt


def native_ctor_params(api, type_name):
    """parameter names of `fn new` in `impl <type_name>` of dnp3/src (None when not unique)"""
    root = os.path.join(api.REPO, "dnp3", "src")
    hits = []
    pat = re.compile(r"impl(<[^>]*>)?\s+%s(<[^>]*>)?\s*\{" % re.escape(type_name))
    for d, _, fs in os.walk(root):
        for f in fs:
            if not f.endswith(".rs"):
                continue
            text = open(os.path.join(d, f)).read()
            if not pat.search(text) or "fn new" not in text:
                continue
            try:
                tr = R.parse(api.strip_tests(text))
            except R.ParseError:
                continue
            stack = [tr]
            while stack:
                items = stack.pop()
                for i, t in enumerate(items):
                    if is_id(t, "impl"):
                        j = i + 1
                        while j < len(items) and not is_g(items[j], "{") and not is_p(items[j], ";"):
                            j += 1
                        if j < len(items) and is_g(items[j], "{"):
                            hdr = flat(items[i + 1:j])
                            hdr = re.sub(r"^<[^>]*>", "", hdr)
                            if re.sub(r"<.*>$", "", hdr) == type_name:
                                body = items[j].items
                                for k, q in enumerate(body):
                                    if is_id(q, "fn") and k + 2 < len(body) and is_id(body[k + 1], "new"):
                                        g = next((x for x in body[k + 2:k + 5] if is_g(x, "(")), None)
                                        if g is not None:
                                            names = []
                                            for p in R.split_commas(g.items):
                                                c = next((x for x, y in enumerate(p) if is_p(y, ":")), None)
                                                if c:
                                                    names.append([y.text for y in p[:c] if y.kind == "id" and y.text != "mut"][-1])
                                            hits.append(names)
                    elif is_g(t, "{"):
                        stack.append(t.items)
    return hits[0] if len(hits) == 1 else None


def classify(api, found):
    arms = []
    fields = []
    st = {"files": len(found), "matches": 0, "conv_matches": 0, "embedded_rows": 0, "control_matches": 0,
          "dispatch_matches": 0, "ffi_constants_in_non_conversion_arms": 0, "struct_convs": 0, "literals_skipped": 0,
          "ctor_convs": 0}
    seen_ids = {}

    def uniq(cid):
        n = seen_ids.get(cid, 0)
        seen_ids[cid] = n + 1
        return cid if n == 0 else "%s@%d" % (cid, n + 1)

    per_file = {}
    for rel, out, uses in found:
        ffi_names = set()
        for u, _ in uses:
            m = re.match(r"crate::ffi::(\w+)$", u)
            if m:
                ffi_names.add(m.group(1))
            m = re.match(r"crate::ffi::\{(.*)\}$", u)
            if m:
                ffi_names.update(x.strip() for x in m.group(1).split(","))
        per_file[rel] = uses
        for o in out:
            env = Env(o.ctx, ffi_names)
            if isinstance(o, Match):
                st["matches"] += 1
                cls = []
                for pat, guard, body in o.arms:
                    alts = [pat_of(a, env) for a in R.split_top(pat, "|")]
                    cls.append((alts, guard, value_of(body, env), body))
                from_slot = env.is_from and (o.tail or o.slot is not None)
                c1 = c2 = c3 = False
                for alts, guard, val, body in cls:
                    for p in alts:
                        pv = []
                        pat_variants(p, pv)
                        if p.kind == "variant" and not p.generic():
                            if val.kind == "variant" and not val.generic() and (is_ffi(p.ty) != is_ffi(val.ty)):
                                c1 = True
                            if is_ffi(p.ty) and val.kind == "call":
                                c2 = True
                            if from_slot:
                                c3 = True
                        if from_slot and val.kind == "variant" and not val.generic() and p.kind == "variant":
                            c3 = True
                        if p.kind == "lit" and val.kind == "variant" and not val.generic() and env.is_from:
                            c3 = True
                if c1 or c2 or c3:
                    st["conv_matches"] += 1
                    cid = uniq(conv_id(o.ctx, o.slot))
                    o.cid = cid
                    o.rows = []
                    for alts, guard, val, body in cls:
                        for p in alts:
                            where = "%s/%s:%d" % (FFI_SRC, rel, o.line)
                            if guard is not None:
                                api.broken("translator:%s:%s:%s:guarded arm `%s`" % (GEN, where, cid, p.text))
                                continue
                            if p.kind not in ("variant", "wild", "lit"):
                                api.broken("translator:%s:%s:%s:pattern `%s`" % (GEN, where, cid, p.text[:60]))
                                continue
                            if val.kind == "nested":
                                kind = "nested"
                            elif val.kind in ("variant", "delegate", "call", "lit"):
                                kind = val.kind if p.kind != "wild" else "wild-" + val.kind
                            else:
                                api.broken("translator:%s:%s:%s:arm `%s` => `%s`" % (GEN, where, cid, p.text[:40], val.text[:60]))
                                continue
                            if val.kind == "delegate":
                                val.ty, val.var = (env.self_ty or "?"), "*"
                            if val.kind == "nested":
                                val.ty, val.var = (env.self_ty or "?"), "*"
                            if is_ffi(p.ty):
                                d = "toNative"
                            elif is_ffi(val.ty) or (env.self_ty and is_ffi(env.self_ty)):
                                d = "toFfi"
                            elif env.from_ty and is_ffi(env.from_ty):
                                d = "toNative"
                            else:
                                d = "local"
                            row = ArmRow(cid, d, p, val, kind)
                            row.match = o
                            row.env = env
                            arms.append(row)
                            o.rows.append(row)
                else:
                    generic_only = all(all(p.kind in ("wild", "lit") or p.generic() for p in alts) for alts, _, _, _ in cls)
                    st["control_matches" if generic_only else "dispatch_matches"] += 1
                    cid = None
                    for alts, guard, val, body in cls:
                        pv = []
                        for p in alts:
                            pat_variants(p, pv)
                        fv = []
                        ffi_variants_in(body, env, fv)
                        for ty, var in fv:
                            base = ty.split("::")[-1]
                            hit = [p for p in pv if not is_ffi(p.ty) and p.ty.split("::")[-1].lower() == base.lower()]
                            if hit:
                                if cid is None:
                                    cid = uniq(conv_id(o.ctx, o.slot) + "~embedded")
                                row = ArmRow(cid, "toFfi", hit[0], V("variant", ty, var), "embedded")
                                row.match = o
                                row.env = env
                                arms.append(row)
                                st["embedded_rows"] += 1
                            else:
                                st["ffi_constants_in_non_conversion_arms"] += 1
            else:
                segs = o.path.split("::")
                ty = env.ty(segs)
                to_ffi = is_ffi(ty)
                to_native = (not to_ffi) and env.is_from and env.from_ty and is_ffi(env.from_ty) and env.self_ty and ty.split("::")[-1] == env.self_ty.split("::")[-1]
                has_src = bool(o.ctx.params)
                if o.kind == "ctor" and not (to_native and (o.tail or o.slot is None)):
                    continue
                if o.kind == "ctor" and not to_native:
                    continue
                if not (to_ffi or to_native) or not has_src:
                    st["literals_skipped"] += 1
                    continue
                roots = set(n for n, _ in o.ctx.params) | {"self"}
                cid = uniq(conv_id(o.ctx, o.slot) + "=>" + ty.split("::")[-1])
                names = [f for f, _ in o.fields]
                if o.kind == "ctor":
                    st["ctor_convs"] += 1
                    params = native_ctor_params(api, ty.split("::")[-1])
                    if params is None or len(params) != len(o.fields):
                        api.broken("translator:%s:%s/%s:%d:%s:constructor parameters of %s::new not resolved" % (GEN, FFI_SRC, rel, o.line, cid, ty))
                        continue
                    names = params
                else:
                    st["struct_convs"] += 1
                if o.rest:
                    fields.append(FieldRow(cid, "toFfi" if to_ffi else "toNative", ty, "..", "rest", [], ".."))
                for name, (_, e) in zip(names, o.fields):
                    kind, chain, txt = field_source(e, roots)
                    fields.append(FieldRow(cid, "toFfi" if to_ffi else "toNative", ty, name, kind, chain, txt))
    st["arms"] = len(arms)
    st["field_rows"] = len(fields)
    st["impls"] = len(set(a.impl for a in arms))
    st["struct_conversions"] = len(set(f.conv for f in fields))
    return arms, fields, st, per_file


# ------------------------------------------------------------------------------------------
# post-processing of field rows: discriminants delivered through an arm, constant literals
# ------------------------------------------------------------------------------------------
def post_fields(arms, fields, st):
    via = set()
    for a in arms:
        if a.via:
            via.add((a.impl.split("@")[0], a.via))
    by_conv = {}
    for f in fields:
        by_conv.setdefault(f.conv, []).append(f)
    keep = []
    for conv, rows in by_conv.items():
        base = conv.split("=>")[0].split("@")[0].split("#")[0]
        in_arm = any(v[0].split("#")[0] == base for v in via)
        if all(r.kind == "const" for r in rows) and not in_arm:
            st["constant_literals_skipped"] = st.get("constant_literals_skipped", 0) + 1
            continue
        for r in rows:
            if r.kind == "const" and in_arm and any(v[1] == r.field and v[0].split("#")[0] == base for v in via):
                r.kind = "discriminant"
            keep.append(r)
    st["field_rows"] = len(keep)
    st["struct_conversions"] = len(set(f.conv for f in keep))
    return keep


# ------------------------------------------------------------------------------------------
# probe planning + Rust emission
# ------------------------------------------------------------------------------------------
# boundary payloads for source variants that carry data (keyed by the pattern text as written)
PAYLOADS = {
    "Some(Time::Synchronized(_))": ["Some(Time::Synchronized(Timestamp::new(0)))", "Some(Time::Synchronized(Timestamp::new(0xFFFF_FFFF_FFFF)))"],
    "Some(Time::Unsynchronized(_))": ["Some(Time::Unsynchronized(Timestamp::new(0)))", "Some(Time::Unsynchronized(Timestamp::new(0xFFFF_FFFF_FFFF)))"],
    "UpdateInfo::Created(id)": ["UpdateInfo::Created(0)", "UpdateInfo::Created(u64::MAX)"],
    "UpdateInfo::Overflow{created,discarded}": ["UpdateInfo::Overflow { created: 0, discarded: u64::MAX }", "UpdateInfo::Overflow { created: u64::MAX, discarded: 0 }"],
    "CommandStatus::Unknown(_)": ["CommandStatus::Unknown(0)", "CommandStatus::Unknown(127)", "CommandStatus::Unknown(255)"],
    "TripCloseCode::Unknown(_)": ["TripCloseCode::Unknown(0)", "TripCloseCode::Unknown(255)"],
    "OpType::Unknown(_)": ["OpType::Unknown(0)", "OpType::Unknown(5)", "OpType::Unknown(255)"],
    "Variation::Group0(_)": ["Variation::Group0(0)", "Variation::Group0(255)"],
    "Variation::Group110(_)": ["Variation::Group110(0)", "Variation::Group110(255)"],
    "Variation::Group111(_)": ["Variation::Group111(0)", "Variation::Group111(255)"],
    "dnp3::app::FileType::Other(_)": ["dnp3::app::FileType::Other(0)", "dnp3::app::FileType::Other(u16::MAX)"],
    "ClientState::WaitAfterFailedConnect(_)": ["ClientState::WaitAfterFailedConnect(std::time::Duration::from_secs(0))", "ClientState::WaitAfterFailedConnect(std::time::Duration::MAX)"],
    "ClientState::WaitAfterDisconnect(_)": ["ClientState::WaitAfterDisconnect(std::time::Duration::from_secs(0))", "ClientState::WaitAfterDisconnect(std::time::Duration::MAX)"],
    "TaskError::RejectedByIin2(_)": ["TaskError::RejectedByIin2(dnp3::app::Iin::new(dnp3::app::Iin1::new(0), dnp3::app::Iin2::new(0x04)))", "TaskError::RejectedByIin2(dnp3::app::Iin::new(dnp3::app::Iin1::new(0xFF), dnp3::app::Iin2::new(0xFF)))"],
    "WriteError::IinError(_)": ["WriteError::IinError(dnp3::app::Iin2::new(0x01))", "WriteError::IinError(dnp3::app::Iin2::new(0xFF))"],
    "TimeSyncError::IinError(_)": ["TimeSyncError::IinError(dnp3::app::Iin2::new(0x01))", "TimeSyncError::IinError(dnp3::app::Iin2::new(0xFF))"],
    "TimeSyncError::BadOutstationTimeDelay(_)": ["TimeSyncError::BadOutstationTimeDelay(0)", "TimeSyncError::BadOutstationTimeDelay(u16::MAX)"],
    "None": ["None"],
}


def type_names(root, pub_only):
    names = set()
    pat = re.compile(r"^\s*pub(?:\([a-z]+\))?\s+(?:enum|struct|type)\s+([A-Z]\w*)" if pub_only else r"^\s*(?:pub(?:\([a-z]+\))?\s+)?(?:enum|struct|type)\s+([A-Z]\w*)", re.M)
    for d, _, fs in os.walk(root):
        for f in fs:
            if f.endswith(".rs"):
                names.update(pat.findall(open(os.path.join(d, f)).read()))
    return names


STD_OK = {"Option", "Result", "Self"}


def plan_probes(api, arms, per_file, st):
    native = type_names(os.path.join(api.REPO, "dnp3", "src"), True)
    local = type_names(os.path.join(api.REPO, FFI_SRC), False)
    why = {}

    def no(r, reason):
        why[reason] = why.get(reason, 0) + 1
        r.probe = None

    def type_ok(txt):
        t = txt.replace("crate::ffi::", "ffi::")
        if "crate::" in t:
            return False
        t2 = re.sub(r"ffi::\w+", "", t)
        for name in re.findall(r"[A-Z]\w*", t2):
            if name in STD_OK:
                continue
            if name in local or name not in native:
                return False
        return True

    for r in arms:
        m = r.match
        ctx = m.ctx
        env = r.env
        if r.kind != "variant":
            no(r, "kind-" + r.kind)
            continue
        if ctx.cfg:
            no(r, "cfg-gated")
            continue
        hm = re.match(r"From<(.*)>for (.*)$", ctx.impl or "")
        if not hm or ctx.fn != "from":
            no(r, "not-a-From-impl")
            continue
        s_txt, t_txt = hm.group(1).replace("crate::ffi::", "ffi::"), hm.group(2).replace("crate::ffi::", "ffi::")
        if not (type_ok(s_txt) and type_ok(t_txt)):
            no(r, "crate-local-type")
            continue
        if not ctx.params:
            no(r, "no-param")
            continue
        pname = ctx.params[0][0]
        scr = flat(m.scrut)
        mode = None
        if scr == pname:
            mode = "direct"
        else:
            sm = re.match(r"%s\.(\w+)\(\)$" % re.escape(pname), scr)
            if sm and is_ffi(norm_type(s_txt)) and is_ffi(r.lty):
                mode = "setter:" + sm.group(1)
        if mode is None:
            no(r, "scrutinee-not-reachable")
            continue
        ltxt = r.ltext.replace("crate::ffi::", "ffi::")
        if r.lpayload or r.lwrap or r.lty in ("Option", "Result"):
            exprs = PAYLOADS.get(ltxt)
            if not exprs:
                no(r, "payload-variant-without-constructor")
                continue
        elif r.lvar == "_" or r.lty in ("bool", "lit"):
            no(r, "wildcard-or-literal")
            continue
        else:
            exprs = [ltxt]
        if "Self" in ltxt:
            no(r, "Self-in-pattern")
            continue
        # output
        to_ffi = r.dir == "toFfi"
        slot = m.slot[4:] if (m.slot or "").startswith("let ") else m.slot
        if m.tail or slot is None:
            if slot is None and not m.tail:
                no(r, "match-not-tail-nor-field")
                continue
            if r.via:
                outx = ("fmt", "o.%s()" % r.via)
            else:
                outx = ("fmt", "o")
        else:
            if to_ffi:
                outx = ("fmt", "o.%s()" % slot)
            else:
                outx = ("field", slot)
        r.probe = {"mode": mode, "S": s_txt, "T": t_txt, "exprs": exprs, "out": outx, "depth": len(r.rwrap) + 1}
    st["probed_arms"] = len([r for r in arms if r.probe])
    st["unprobed_arms"] = dict(sorted(why.items()))


def rust_probe(arms, per_file):
    out = []
    out.append("// GENERATED by tools/gen_ffi.py from ffi/dnp3-ffi/src -- do not edit\n")
    out.append("// For every conversion arm the translator extracted (and can reach through a public `From`), construct the\n")
    out.append("// source variant, apply the REAL conversion and report what came out.\n")
    out.append("#![allow(unused_imports, unused_mut, dead_code, invalid_value, clippy::all)]\n\n")
    files = []
    for r in arms:
        if r.probe and r.match.ctx.file not in files:
            files.append(r.match.ctx.file)
    impls = []
    for r in arms:
        if r.probe and r.impl not in impls:
            impls.append(r.impl)
    out.append("pub const IMPLS: &[&str] = &[\n")
    for i in impls:
        out.append('    "%s",\n' % i)
    out.append("];\n\n")
    out.append("pub fn run(id: &str, out: &mut Vec<String>) -> bool {\n    match id {\n")
    for k, i in enumerate(impls):
        f = next(r.match.ctx.file for r in arms if r.impl == i)
        out.append('        "%s" => m%d::p%d(out),\n' % (i, files.index(f), k))
    out.append("        _ => return false,\n    }\n    true\n}\n\n")
    for fi, f in enumerate(files):
        out.append("mod m%d {\n    // %s/%s\n" % (fi, FFI_SRC, f))
        out.append("    use crate::eng_ffi::{dbg_field, head, line};\n    use dnp3_ffi::ffi;\n")
        for u, cfg in per_file.get(f, []):
            if cfg:
                continue
            if u.startswith("dnp3::") or u.startswith("std::"):
                out.append("    use %s;\n" % u)
        for k, i in enumerate(impls):
            rows = [r for r in arms if r.impl == i and r.probe]
            if rows[0].match.ctx.file != f:
                continue
            out.append("\n    pub fn p%d(out: &mut Vec<String>) {\n" % k)
            for r in rows:
                p = r.probe
                s_txt, t_txt = p["S"], p["T"]
                byref = s_txt.startswith("&")
                s0 = s_txt.lstrip("&")
                out.append("        {\n            let mut obs: Vec<String> = Vec::new();\n")
                for e in p["exprs"]:
                    if p["mode"] == "direct":
                        out.append("            let src: %s = %s;\n" % (s0, e))
                    else:
                        acc = p["mode"].split(":")[1]
                        out.append("            let mut src: %s = unsafe { std::mem::zeroed() };\n            src.set_%s(%s);\n" % (s0, acc, e))
                    out.append("            let o: %s = <%s as From<%s>>::from(%ssrc);\n" % (t_txt, t_txt, s_txt, "&" if byref else ""))
                    kind, x = p["out"]
                    if kind == "fmt":
                        out.append('            obs.push(head(&format!("{:?}", %s), %d));\n' % (x, p["depth"]))
                    else:
                        out.append('            obs.push(head(&dbg_field(&format!("{:?}", o), "%s"), %d));\n' % (x, p["depth"]))
                out.append('            out.push(line("%s", "%s::%s", &obs));\n        }\n' % (r.impl, r.lty, r.lvar))
            out.append("    }\n")
        out.append("}\n\n")
    return "".join(out)


# ------------------------------------------------------------------------------------------
# Lean emission
# ------------------------------------------------------------------------------------------
def lstr(s):
    return '"' + s.replace("\\", "\\\\").replace('"', '\\"') + '"'


ARM_KINDS = ["variant", "delegate", "nested", "call", "lit", "embedded", "wild-variant", "wild-delegate", "wild-call", "wild-lit"]
FIELD_KINDS = ["accessor", "ident", "match", "const", "nested", "discriminant", "rest", "expr"]
DIRS = ["toNative", "toFfi", "local"]


def lean_tables(arms, fields, st):
    """Names are interned: the kernel is very slow on `String` (≈5 ms per equality, ≈40 ms per `toList` in 4.33),
    so the checked tables hold name ids, `nameCodes` holds the character codes of every name, and the `String`
    views used by the model driver are *defined from* the codes (single source of truth)."""
    names = []
    index = {}

    def nid(x):
        if x not in index:
            index[x] = len(names)
            names.append(x)
        return index[x]

    impls = []
    convs = []

    def iid(lst, x):
        if x not in lst:
            lst.append(x)
        return lst.index(x)

    nid("")
    arm_rows = []
    for r in arms:
        arm_rows.append((iid(impls, r.impl), DIRS.index(r.dir), nid(r.lty), nid(r.lvar), nid(r.rty), nid(r.rvar),
                         "true" if (r.lpayload or bool(r.lwrap)) else "false", ARM_KINDS.index(r.kind), nid(".".join(r.rwrap)),
                         "true" if r.probe else "false",
                         "%s  %s::%s => %s%s::%s" % (r.impl, r.lty, r.lvar, (".".join(r.rwrap) + " ") if r.rwrap else "", r.rty, r.rvar)))
    field_rows = []
    for f in fields:
        field_rows.append((iid(convs, f.conv), DIRS.index(f.dir), nid(f.ty), nid(f.field), FIELD_KINDS.index(f.kind), [nid(c) for c in f.chain],
                           "%s  %s: %s" % (f.conv, f.field, f.src)))

    def chunked(b, base, ty, rows, doc):
        chunks = []
        for k in range(0, len(rows), 100):
            name = "%s%d" % (base, k // 100)
            chunks.append(name)
            part = rows[k:k + 100]
            b.append("def %s : List %s := [\n" % (name, ty))
            for q, r in enumerate(part):
                b.append("  %s%s%s\n" % (r[0], "," if q + 1 < len(part) else "", ("  -- " + r[1]) if r[1] else ""))
            b.append("]\n\n")
        b.append("/-- %s -/\ndef %s : List %s := %s\n\n" % (doc, base, ty, " ++ ".join(chunks) if chunks else "[]"))

    b = []
    b.append("/-! C20: every conversion arm and struct-field assignment of ffi/dnp3-ffi/src, re-extracted on every run.\n")
    b.append("Type / variant / field names are interned (`nameCodes[i]` = character codes of name `i`); conversions are numbered\n(`implNames`, `convNames`); every row carries its source text as a comment. -/\n")
    b.append("namespace Dnp3.Gen.Ffi\n\n")
    chunked(b, "nameCodes", "(List Nat)", [("[%s]" % ", ".join(str(ord(c)) for c in n), "%d %s" % (k, n)) for k, n in enumerate(names)],
            "character codes of every type / variant / field name used below; the list index is the name's id")
    nch = (len(names) + 99) // 100
    b.append("/-- chunk `k` of `nameCodes` (names `100k .. 100k+99`): lets the kernel look a name up without rebuilding the whole list -/\n")
    b.append("def nameChunk : Nat → List (List Nat)\n" + "".join("  | %d => nameCodes%d\n" % (k, k) for k in range(nch)) + "  | _ => []\n\n")
    b.append("/-- the name with id `i` -/\ndef nameAt (i : Nat) : List Nat := (nameChunk (i / 100)).getD (i % 100) []\n\n")
    chunked(b, "implNames", "String", [(lstr(n), "") for n in impls], "conversion ids (`ArmN.impl` indexes this list)")
    chunked(b, "convNames", "String", [(lstr(n), "") for n in convs], "struct conversion ids (`FieldN.conv` indexes this list)")
    b.append("/-- arm kinds: " + ", ".join("%d=%s" % (k, n) for k, n in enumerate(ARM_KINDS)) + "; dir: " + ", ".join("%d=%s" % (k, n) for k, n in enumerate(DIRS)) + " -/\n")
    b.append("structure ArmN where\n  impl : Nat\n  dir : Nat\n  lty : Nat\n  lvar : Nat\n  rty : Nat\n  rvar : Nat\n  payload : Bool\n  kind : Nat\n  wrap : Nat\n  probed : Bool\n  deriving Repr, DecidableEq, Inhabited\n\n")
    b.append("/-- field kinds: " + ", ".join("%d=%s" % (k, n) for k, n in enumerate(FIELD_KINDS)) + " -/\n")
    b.append("structure FieldN where\n  conv : Nat\n  dir : Nat\n  ty : Nat\n  field : Nat\n  kind : Nat\n  chain : List Nat\n  deriving Repr, DecidableEq, Inhabited\n\n")
    chunked(b, "armsN", "ArmN", [("⟨%d, %d, %d, %d, %d, %d, %s, %d, %d, %s⟩" % r[:10], r[10]) for r in arm_rows], "all %d arms of the %d conversions" % (len(arms), st["impls"]))
    chunked(b, "fieldsN", "FieldN", [("⟨%d, %d, %d, %d, %d, [%s]⟩" % (f[0], f[1], f[2], f[3], f[4], ", ".join(str(c) for c in f[5])), f[6].replace("\n", " ")) for f in field_rows],
            "all %d field assignments of the %d struct conversions" % (len(fields), st["struct_conversions"]))
    b.append("def nArms : Nat := %d\ndef nFields : Nat := %d\ndef nImpls : Nat := %d\ndef nProbed : Nat := %d\n\n" % (len(arms), len(fields), st["impls"], st["probed_arms"]))
    b.append("/-! ### `String` views (model driver only; defined from the codes, never evaluated by the kernel) -/\n")
    b.append("def name (i : Nat) : String := String.ofList ((nameAt i).map Char.ofNat)\n\n")
    b.append("structure Arm where\n  impl : String\n  lty : String\n  lvar : String\n  rty : String\n  rvar : String\n  wrap : String\n  probed : Bool\n\n")
    b.append("def arms : List Arm := armsN.map fun r => ⟨implNames.getD r.impl \"?\", name r.lty, name r.lvar, name r.rty, name r.rvar, name r.wrap, r.probed⟩\n\n")
    b.append("end Dnp3.Gen.Ffi\n")
    return "".join(b)


def generate(api):
    found = collect(api)
    arms, fields, st, per_file = classify(api, found)
    fields = post_fields(arms, fields, st)
    plan_probes(api, arms, per_file, st)
    if os.environ.get("VERIF_FFI_SELFTEST") == "misread":
        # self-test of the correspondence: deliberately mis-read the source (exchange the targets of two arms of one
        # conversion in the TABLE only); `./check C20 quick` must then report a model/implementation disagreement
        k = next(i for i, a in enumerate(arms) if a.impl.endswith("From<ffi::UpdateFlagsType>for.UpdateFlagsType"))
        arms[k].rvar, arms[k + 1].rvar = arms[k + 1].rvar, arms[k].rvar
    if not arms:
        api.broken("translator:%s:%s:no conversion arms found" % (GEN, FFI_SRC))
    api.emit(GEN, lean_tables(arms, fields, st))
    probe = rust_probe(arms, per_file)
    path = os.path.normpath(os.path.join(os.path.dirname(os.path.abspath(__file__)), "..", "harness", "src", "ffi_probe_gen.rs"))
    old = open(path).read() if os.path.exists(path) else None
    if old != probe:
        with open(path, "w") as f:
            f.write(probe)
    api.report["ffi"] = st
    for fn in ["database_update_flags"]:
        api.report["hashes"]["ffi/outstation/database.rs::" + fn] = api.fn_hash(FFI_SRC + "/outstation/database.rs", fn)
