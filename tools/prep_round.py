#!/usr/bin/env python3
"""prep_round.py <round> <Cxx> [<Cxx> ...]: scratch worktree + PROMPT.txt (property text only, earlier ideas listed) per property"""
import json,glob,collections,subprocess,sys
rnd=sys.argv[1]; props=sys.argv[2:]
touched=collections.Counter()
for d in glob.glob('/verif/seeded/S*/patch.diff'):
    for l in open(d):
        if l.startswith('+++ b/'): touched[l[6:].strip()]+=1
names=collections.defaultdict(list)
for d in sorted(glob.glob('/verif/seeded/S*'), key=lambda x:int(x.split('/')[-1].split('_')[0][1:])):
    b=d.split('/')[-1]; _,c,*rest=b.split('_'); names[c].append(' '.join(rest))
t=open('/verif/tools/MUT_PROMPT.txt').read()
special={
'C02':" Changes under dnp3/src/tcp/, dnp3/src/util/, dnp3/src/transport/real/ or dnp3/src/link/ that only manifest end-to-end (reconnect handling, re-chunked streams, in-flight data at a disconnect, session replacement) are especially welcome; your demonstration may be a new test connecting a real master to a real outstation over 127.0.0.1 if no mock-based test can show it.",
'C20':" The change may be under ffi/dnp3-ffi/src instead of dnp3/src; your demonstration test may live in that crate (`cargo test -p dnp3-ffi --offline --lib <filter>`); in that case put the package name `dnp3-ffi` on a second line of FILTER.txt, and the full suite to keep green is `cargo test -p dnp3 -p dnp3-ffi --offline`.",
}
for l in open('/verif/properties.jsonl'):
    p=json.loads(l); pid=p['id']
    if pid not in props: continue
    un=[f for f in p['anchors']['files'] if touched[f]==0 and f.endswith('.rs') and not f.startswith('examples') and '/mock/' not in f]
    w=f'/tmp/mut{rnd}_{pid}'
    subprocess.run(['/verif/tools/mk_mut_worktree.sh',rnd,pid],check=True,stdout=subprocess.DEVNULL)
    e="Earlier experiments already tried these ideas (do not repeat them or close variants): "+"; ".join(names[pid])+". Do not change code that is compiled only for tests (`#[cfg(test)]` modules such as transport/mock): the change must alter the library as built for users. Prefer a kind of mistake the earlier ideas do not cover, in a function they did not modify: two sites that are each fine alone, a wrap-around or boundary value of a counter / length / address / time, a state variable not updated on one rarely taken path, an ordering of two steps, an early return that skips bookkeeping, a configuration value other than the default."
    if un: e+=" Files no earlier experiment touched: "+", ".join(un)+"."
    e+=special.get(pid,'')
    open(w+'/PROMPT.txt','w').write(t.replace('WORKTREE',w).replace('EXTRA',e))
    print(pid, w)
