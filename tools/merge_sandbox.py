#!/usr/bin/env python3
"""merge_sandbox.py <sandbox verif dir> <base git ref> [--apply]
3-way merge of a builder agent's sandbox copy of /verif into the working tree.
base = the committed tree the sandbox was copied from. Without --apply: report only."""
import os, subprocess, sys, shutil, tempfile
ROOT = "/verif"
sbx, base = sys.argv[1].rstrip("/"), sys.argv[2]
apply_ = "--apply" in sys.argv
SKIP_DIRS = ("evidence/", "work/", "replay/", "lean/.lake/", "harness/target/", ".git/", "__pycache__")
SKIP_FILES = ("MANIFEST.json", "lean/gen_report.json", "harness/Cargo.toml", "harness/.cargo/config.toml", "check", "harness/Cargo.lock")
def base_blob(path):
    r = subprocess.run(["git", "-C", ROOT, "show", "%s:%s" % (base, path)], capture_output=True)
    return r.stdout if r.returncode == 0 else None
def skip(rel):
    return any(rel.startswith(d) or ("/" + d) in ("/" + rel) for d in SKIP_DIRS) or rel in SKIP_FILES or rel.endswith(".orig") or rel.endswith(".pyc")
changed = []
for dp, dn, fn in os.walk(sbx):
    for f in fn:
        p = os.path.join(dp, f); rel = os.path.relpath(p, sbx)
        if skip(rel): continue
        a = open(p, "rb").read(); b = base_blob(rel)
        if b == a: continue
        changed.append((rel, a, b))
# deletions
base_files = subprocess.run(["git", "-C", ROOT, "ls-tree", "-r", "--name-only", base], capture_output=True, text=True).stdout.split("\n")
deleted = [f for f in base_files if f and not skip(f) and not os.path.exists(os.path.join(sbx, f))]
conflicts = []
for rel, a, b in changed:
    mp = os.path.join(ROOT, rel)
    m = open(mp, "rb").read() if os.path.exists(mp) else None
    if m == a:
        continue
    if b is None and m is None:
        kind = "new"
    elif b is not None and m == b:
        kind = "copy"
    elif b is None and m is not None:
        kind = "CONFLICT(add/add)"
    elif m is None:
        kind = "CONFLICT(deleted in main)"
    else:
        kind = "merge"
    if kind in ("new", "copy"):
        if apply_:
            os.makedirs(os.path.dirname(mp), exist_ok=True); open(mp, "wb").write(a)
        print("%-8s %s" % (kind, rel))
    elif kind == "merge":
        with tempfile.TemporaryDirectory() as td:
            fa, fb, fm = [os.path.join(td, n) for n in ("agent", "base", "main")]
            open(fa, "wb").write(a); open(fb, "wb").write(b); open(fm, "wb").write(m)
            r = subprocess.run(["git", "merge-file", "-p", fm, fb, fa], capture_output=True)
            if r.returncode == 0:
                if apply_: open(mp, "wb").write(r.stdout)
                print("merged   %s" % rel)
            else:
                conflicts.append(rel)
                if apply_: open(mp, "wb").write(r.stdout)
                print("CONFLICT %s (%d)" % (rel, r.returncode))
    else:
        conflicts.append(rel); print("%s %s" % (kind, rel))
for f in deleted:
    mp = os.path.join(ROOT, f)
    if os.path.exists(mp):
        same = open(mp, "rb").read() == base_blob(f)
        print("%-8s %s" % ("delete" if same else "DELETE?(changed in main)", f))
        if apply_ and same: os.remove(mp)
print("conflicts:", conflicts)
