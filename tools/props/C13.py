"""check configuration for C13"""

CFG = {'module': 'Dnp3.Props.C13',
 'gen': ['DbTypes.lean'],
 'engines': ['outstation', 'outstationdb', 'db'],
 'monitors': ['restart_bit_interval',
              'app_bits_mirror',
              'broadcast_bit_rule',
              'class_bits_exact',
              'overflow_bit_interval',
              'overflow_flag_interval',
              'complete_class_poll_carries_every_event'],
 'rule': 'engine outstation: session histories (3-40 ops) from a weighted grammar over every function code '
         'the outstation executes (+ unknown codes, response codes, bad control flags, truncated fragments), '
         'valid and malformed object headers, byte-identical repeats, solicited/unsolicited confirms with '
         'right and wrong sequence numbers, clock advances to t-1/t/t+1 of the configured timeouts, '
         'broadcasts of all three modes, foreign masters, self address, disconnects; configurations over tx '
         'sizes 249..2048, unsolicited on/off, retry limits none/0/1/3, any-master, broadcast, max-controls. '
         'Each history runs the real task and the model; monitors evaluate the property predicates on the '
         "implementation's trace with an independent decoder. engine outstationdb: the same session grammar "
         'over a populated database (points of any mix of the eight point types - binary / double-bit / '
         'binary output status / counter / frozen counter / analog / analog output status / octet string - '
         'in classes 0-3, per-type event capacities 0-250, equal or each type its own, dead-bands, '
         'class-zero configurations, big databases forcing multi-fragment READ series), update transactions '
         'interleaved at every point, READs by class / type / range / variation / count, unsolicited series, '
         'confirms right / wrong / late / missing, timeouts, aborting requests, ENABLE/DISABLE_UNSOLICITED, '
         'disconnects; an event ledger (recorded / carried / released) and a mirrored reference database are '
         'kept by the monitors. engine db: operation sequences straight on the real Database over all eight '
         'point types (add with configured static / event variation and dead-band / update with every '
         "UpdateOptions / select by every READ header form the library's ReadHeader::from_* tables accept / "
         'write_response_headers at capacities 0..2048 / write_unsolicited / clear_written_events / reset; '
         'per-type event capacities; dead-band drift histories), compared with the Lean database model; ',
 'trusted_base': ['hand-written Lean model of outstation/session.rs (+ control/select.rs, '
                  'control/collection.rs, deferred.rs, transport/reader.rs pop_request) tied by differential '
                  'execution of the REAL OutstationTask (real link layer, transport, parser, session, '
                  'database) over an in-memory pipe on a paused clock',
                  'application / control-handler callbacks are scripted identically on both sides',
                  'hand-written Lean model of outstation/database/** (event buffer, static database, '
                  'response writers) tied by differential execution of the real Database (engine db) and of '
                  'the real OutstationTask (engine outstationdb)',
                  'generated per-type tables Gen/DbTypes.lean (point types, Insertable slots, is_any_full / '
                  'max_events lists, ReadHeader::from_* arms, Updatable accessors, static / event variation '
                  'tables) re-extracted from outstation/database/** on every run; their well-formedness is '
                  'proved (Props.Db §Tables)'],
 'assumptions': ['tokio timer and Notify semantics; xxh64 collision-free on compared fragments (model '
                 'compares octets)'],
 'level_text': 'Lean theorems for all states / histories: session model (exact IIN formula of every fresh '
               'response; restart, broadcast and application bits; an unsolicited confirm clears the '
               'broadcast record only if the confirmed response reported it: D16 repaired) and database '
               'model, all eight point types (is_any_full asks every type exactly once; class bits = an '
               'unwritten event of the class is buffered and the counter subtraction never underflows, for '
               'every operation sequence from a fresh database and per operation (D3 repaired: regression '
               'corpus db_D3); overflow bit interval); tie: correspondence of the real task and the real '
               'Database vs the models + IIN ledger monitors',
 'level_note': 'trusted: Lean kernel, harness, scripted callbacks; Rust modelled not verified; runtime '
               'scheduling outside the model'}
