"""check configuration for C11"""

CFG = {'module': 'Dnp3.Props.C11',
 'gen': ['DbTypes.lean'],
 'engines': ['db', 'outstationdb'],
 'monitors': ['series_covers_exactly_once_snapshot',
              'series_shape',
              'series_is_exact_snapshot',
              'events_before_static',
              'response_well_formed',
              'response_within_capacity',
              'write_makes_progress',
              'has_events_flag',
              'series_consecutive',
              'solicited_correlated',
              'no_stall',
              'series_makes_progress',
              'confirm_timeout_not_early'],
 'rule': 'engine db: operation sequences straight on the real Database over all eight point types (add with '
         'configured static / event variation and dead-band / update with every UpdateOptions / select by '
         "every READ header form the library's ReadHeader::from_* tables accept / write_response_headers at "
         'capacities 0..2048 / write_unsolicited / clear_written_events / reset; per-type event capacities; '
         'dead-band drift histories), compared with the Lean database model; engine outstationdb: the same '
         'session grammar over a populated database (points of any mix of the eight point types - binary / '
         'double-bit / binary output status / counter / frozen counter / analog / analog output status / '
         'octet string - in classes 0-3, per-type event capacities 0-250, equal or each type its own, '
         'dead-bands, class-zero configurations, big databases forcing multi-fragment READ series), update '
         'transactions interleaved at every point, READs by class / type / range / variation / count, '
         'unsolicited series, confirms right / wrong / late / missing, timeouts, aborting requests, '
         'ENABLE/DISABLE_UNSOLICITED, disconnects; an event ledger (recorded / carried / released) and a '
         'mirrored reference database are kept by the monitors. Each history runs the real code and the '
         "model; monitors evaluate the property predicates on the implementation's trace with an independent "
         'decoder.',
 'trusted_base': ['hand-written Lean model of outstation/database/** (event buffer, static database, '
                  'response writers) tied by differential execution of the real Database (engine db) and of '
                  'the real OutstationTask (engine outstationdb)',
                  'hand-written Lean model of outstation/session.rs (+ control/select.rs, '
                  'control/collection.rs, deferred.rs, transport/reader.rs pop_request) tied by differential '
                  'execution of the REAL OutstationTask (real link layer, transport, parser, session, '
                  'database) over an in-memory pipe on a paused clock',
                  'application / control-handler callbacks are scripted identically on both sides',
                  'generated per-type tables Gen/DbTypes.lean (point types, Insertable slots, is_any_full / '
                  'max_events lists, ReadHeader::from_* arms, Updatable accessors, static / event variation '
                  'tables) re-extracted from outstation/database/** on every run; their well-formedness is '
                  'proved (Props.Db §Tables)'],
 'assumptions': ['tokio timer and Notify semantics; xxh64 collision-free on compared fragments (model '
                 'compares octets)'],
 'level_text': 'Lean theorems over the database model (all eight point types; READ arms of the generated '
               'ReadHeader::from_* tables keep range / count and map each variation to its own type) for all '
               'databases / selections / capacities / series (exactly-once ascending coverage, conservation '
               'across fragments, progress, capacity; snapshot values for selections on an idle queue) and '
               'over the session model (confirm gating, continuation numbering); tie: correspondence of the '
               'real Database and the real task vs the models + series monitors against a mirrored reference '
               'database',
 'level_note': 'trusted: Lean kernel, harness, scripted callbacks; Rust modelled not verified; runtime '
               'scheduling outside the model'}
