"""check configuration for C11"""

CFG = {'module': 'Dnp3.Props.C11',
 'gen': [],
 'engines': ['db', 'outstationdb'],
 'monitors': ['series_covers_exactly_once_snapshot',
              'series_shape',
              'series_is_exact_snapshot',
              'events_before_static',
              'response_well_formed',
              'response_within_capacity',
              'write_makes_progress',
              'has_events_flag',
              'series_consecutive',
              'solicited_correlated',
              'no_stall'],
 'rule': 'engine db: operation sequences straight on the real Database (add / update / select by every READ '
         'header form / write_response_headers at capacities 0..2048 / write_unsolicited / '
         'clear_written_events / reset), compared with the Lean database model; engine outstationdb: the '
         'same session grammar over a populated database (binary and analog points in classes 0-3, event '
         'buffers of 1-20 per type, big databases forcing multi-fragment READ series), update transactions '
         'interleaved at every point, READs by class / type / range / variation / count, unsolicited series, '
         'confirms right / wrong / late / missing, timeouts, aborting requests, ENABLE/DISABLE_UNSOLICITED, '
         'disconnects; an event ledger (recorded / carried / released) and a mirrored reference database are '
         'kept by the monitors. Each history runs the real code and the model; monitors evaluate the '
         "property predicates on the implementation's trace with an independent decoder.",
 'trusted_base': ['hand-written Lean model of outstation/database/** (event buffer, static database, '
                  'response writers) tied by differential execution of the real Database (engine db) and of '
                  'the real OutstationTask (engine outstationdb)',
                  'hand-written Lean model of outstation/session.rs (+ control/select.rs, '
                  'control/collection.rs, deferred.rs, transport/reader.rs pop_request) tied by differential '
                  'execution of the REAL OutstationTask (real link layer, transport, parser, session, '
                  'database) over an in-memory pipe on a paused clock',
                  'application / control-handler callbacks are scripted identically on both sides'],
 'assumptions': ['tokio timer and Notify semantics; xxh64 collision-free on compared fragments (model '
                 'compares octets)'],
 'level_text': 'Lean theorems over the database model for all databases / selections / capacities / series '
               '(exactly-once ascending coverage, conservation across fragments, progress, capacity; '
               'snapshot values for selections on an idle queue) and over the session model (confirm gating, '
               'continuation numbering); tie: correspondence of the real Database and the real task vs the '
               'models + series monitors against a mirrored reference database',
 'level_note': 'trusted: Lean kernel, harness, scripted callbacks; Rust modelled not verified; runtime '
               'scheduling outside the model'}
