"""check configuration for C14"""

CFG = {'module': 'Dnp3.Props.C14',
 'gen': [],
 'engines': ['outstation', 'outstationdb'],
 'monitors': ['data_only_enabled',
              'null_until_confirmed',
              'one_outstanding',
              'read_deferred_not_dropped',
              'deferred_read_dies_with_session',
              'retries_bounded',
              'series_spacing',
              'unsol_retry_identical'],
 'rule': 'engine outstation: session histories (3-40 ops) from a weighted grammar over every function code '
         'the outstation executes (+ unknown codes, response codes, bad control flags, truncated fragments), '
         'valid and malformed object headers, byte-identical repeats, solicited/unsolicited confirms with '
         'right and wrong sequence numbers, clock advances to t-1/t/t+1 of the configured timeouts, '
         'broadcasts of all three modes, foreign masters, self address, disconnects; configurations over tx '
         'sizes 249..2048, unsolicited on/off, retry limits none/0/1/3, any-master, broadcast, max-controls. '
         'Each history runs the real task and the model; monitors evaluate the property predicates on the '
         "implementation's trace with an independent decoder. engine outstationdb: the same session grammar "
         'over a populated database (binary and analog points in classes 0-3, event buffers of 1-20 per '
         'type, big databases forcing multi-fragment READ series), update transactions interleaved at every '
         'point, READs by class / type / range / variation / count, unsolicited series, confirms right / '
         'wrong / late / missing, timeouts, aborting requests, ENABLE/DISABLE_UNSOLICITED, disconnects; an '
         'event ledger (recorded / carried / released) and a mirrored reference database are kept by the '
         'monitors. ',
 'trusted_base': ['hand-written Lean model of outstation/session.rs (+ control/select.rs, '
                  'control/collection.rs, deferred.rs, transport/reader.rs pop_request) tied by differential '
                  'execution of the REAL OutstationTask (real link layer, transport, parser, session, '
                  'database) over an in-memory pipe on a paused clock',
                  'application / control-handler callbacks are scripted identically on both sides',
                  'hand-written Lean model of outstation/database/** (event buffer, static database, '
                  'response writers) tied by differential execution of the real Database (engine db) and of '
                  'the real OutstationTask (engine outstationdb)'],
 'assumptions': ['tokio timer and Notify semantics; xxh64 collision-free on compared fragments (model '
                 'compares octets)'],
 'level_text': 'Lean theorems over the session model (null-until-confirmed, enabled classes only, one '
               'outstanding, bounded unchanged retries, spacing, deferral) for all histories; tie: '
               'correspondence with explicit virtual time + trace monitors. Partial: the tokio Notify '
               'wake-up and timers are runtime behaviour, observed through the paused clock, not proved',
 'level_note': 'trusted: Lean kernel, harness, scripted callbacks; Rust modelled not verified; runtime '
               'scheduling outside the model'}
