"""check configuration for C03"""

CFG = {'module': 'Dnp3.Props.C03',
 'gen': ['DbTypes.lean'],
 'engines': ['db', 'outstationdb'],
 'monitors': ['released_only_after_confirm',
              'released_once',
              'confirmed_events_released',
              'nothing_invented',
              'event_buffer_capacity',
              'overflow_reported',
              'overflow_flag_interval',
              'overflow_bit_interval',
              'event_ids_increase',
              'event_is_recorded_live_in_order',
              'class_report_in_configured_variation',
              'complete_class_poll_carries_every_event',
              'event_only_for_class_points',
              'kept_until_released_or_discarded',
              'overflow_discards_oldest_of_type',
              'release_exactly_the_carried_oldest_first',
              'released_only_after_carried',
              'released_was_recorded',
              'confirm_callbacks_bracketed',
              'type_capacity_respected',
              'unsolicited_events_only',
              'unsolicited_count',
              'add_result',
              'update_result',
              'existed',
              'nopoint',
              'event_iff_beyond_deadband_of_last_reported',
              'class_poll_returns_oldest_matching'],
 'rule': 'engine db: operation sequences straight on the real Database over all eight point types (add with '
         'configured static / event variation and dead-band / update with every UpdateOptions / select by '
         "every READ header form the library's ReadHeader::from_* tables accept / write_response_headers at "
         'capacities 0..2048 / write_unsolicited / clear_written_events / reset; per-type event capacities; '
         'dead-band drift histories), compared with the Lean database model; engine outstationdb: the same '
         'session grammar over a populated database (points of any mix of the eight point types - binary / '
         'double-bit / binary output status / counter / frozen counter / analog / analog output status / '
         'octet string - in classes 0-3, per-type event capacities 0-250, equal or each type its own, '
         'dead-bands, class-zero configurations, big databases forcing multi-fragment READ series), update '
         'transactions interleaved at every point, READs by class / type / range / variation / count, '
         'unsolicited series, confirms right / wrong / late / missing, timeouts, aborting requests, '
         'ENABLE/DISABLE_UNSOLICITED, disconnects; an event ledger (recorded / carried / released) and a '
         'mirrored reference database are kept by the monitors. Each history runs the real code and the '
         "model; monitors evaluate the property predicates on the implementation's trace with an independent "
         'decoder.',
 'trusted_base': ['hand-written Lean model of outstation/database/** (event buffer, static database, '
                  'response writers) tied by differential execution of the real Database (engine db) and of '
                  'the real OutstationTask (engine outstationdb)',
                  'hand-written Lean model of outstation/session.rs (+ control/select.rs, '
                  'control/collection.rs, deferred.rs, transport/reader.rs pop_request) tied by differential '
                  'execution of the REAL OutstationTask (real link layer, transport, parser, session, '
                  'database) over an in-memory pipe on a paused clock',
                  'application / control-handler callbacks are scripted identically on both sides',
                  'generated per-type tables Gen/DbTypes.lean (point types, Insertable slots, is_any_full / '
                  'max_events lists, ReadHeader::from_* arms, Updatable accessors, static / event variation '
                  'tables) re-extracted from outstation/database/** on every run; their well-formedness is '
                  'proved (Props.Db §Tables)'],
 'assumptions': ['tokio timer and Notify semantics; xxh64 collision-free on compared fragments (model '
                 'compares octets)'],
 'level_text': 'Lean theorems over the database model (all eight point types, every per-type capacity '
               'configuration) for all states / operation sequences (generated tables well formed: every '
               'Insertable slot is its own; type capacity and list capacity never exceeded; the event rule: '
               'Detect creates an event iff the flags changed or the value is beyond the dead-band of the '
               'value last reported, whose baseline moves only with an event; order, exact counters, release '
               'exactly the written records once and only by clear, reset releases nothing, overflow '
               'discards the oldest of the type and is reported, responses mark a prefix) and over the '
               'session model for all states / inputs, database opaque (clearWritten is applied only at the '
               'two confirm points; every series that ends without its confirm - timeout, new request, '
               'unsolicited retries exhausted / DISABLE_UNSOLICITED, disconnect - resets: outside a series '
               'no record is Written); tie: correspondence of the real task vs the session model + '
               'event-ledger monitors',
 'level_note': 'trusted: Lean kernel, harness, scripted callbacks; Rust modelled not verified; runtime '
               'scheduling outside the model'}
