"""check configuration for C03"""

CFG = {'module': 'Dnp3.Props.C03',
 'gen': [],
 'engines': ['db', 'outstationdb'],
 'monitors': ['released_only_after_confirm',
              'released_once',
              'confirmed_events_released',
              'nothing_invented',
              'event_buffer_capacity',
              'overflow_reported',
              'event_ids_increase',
              'event_is_recorded_live_in_order',
              'event_only_for_class_points',
              'kept_until_released_or_discarded',
              'overflow_discards_oldest_of_type',
              'release_exactly_the_carried_oldest_first',
              'released_only_after_carried',
              'released_was_recorded',
              'confirm_callbacks_bracketed',
              'type_capacity_respected',
              'unsolicited_events_only',
              'unsolicited_count',
              'add_result',
              'update_result',
              'existed',
              'nopoint'],
 'rule': 'engine db: operation sequences straight on the real Database (add / update / select by every READ '
         'header form / write_response_headers at capacities 0..2048 / write_unsolicited / '
         'clear_written_events / reset), compared with the Lean database model; engine outstationdb: the '
         'same session grammar over a populated database (binary and analog points in classes 0-3, event '
         'buffers of 1-20 per type, big databases forcing multi-fragment READ series), update transactions '
         'interleaved at every point, READs by class / type / range / variation / count, unsolicited series, '
         'confirms right / wrong / late / missing, timeouts, aborting requests, ENABLE/DISABLE_UNSOLICITED, '
         'disconnects; an event ledger (recorded / carried / released) and a mirrored reference database are '
         'kept by the monitors. Each history runs the real code and the model; monitors evaluate the '
         "property predicates on the implementation's trace with an independent decoder.",
 'trusted_base': ['hand-written Lean model of outstation/database/** (event buffer, static database, '
                  'response writers) tied by differential execution of the real Database (engine db) and of '
                  'the real OutstationTask (engine outstationdb)',
                  'hand-written Lean model of outstation/session.rs (+ control/select.rs, '
                  'control/collection.rs, deferred.rs, transport/reader.rs pop_request) tied by differential '
                  'execution of the REAL OutstationTask (real link layer, transport, parser, session, '
                  'database) over an in-memory pipe on a paused clock',
                  'application / control-handler callbacks are scripted identically on both sides'],
 'assumptions': ['tokio timer and Notify semantics; xxh64 collision-free on compared fragments (model '
                 'compares octets)'],
 'level_text': 'Lean theorems over the database model for all states / operation sequences (order, exact '
               'counters, release exactly the written records once and only by clear, reset releases '
               'nothing, overflow discards the oldest of the type and is reported, responses mark a prefix) '
               'and over the session model for all states / inputs, database opaque (clearWritten is applied '
               'only at the two confirm points; every series that ends without its confirm - timeout, new '
               'request, unsolicited retries exhausted / DISABLE_UNSOLICITED, disconnect - resets: outside a '
               'series no record is Written); tie: correspondence of the real task vs the session model + '
               'event-ledger monitors',
 'level_note': 'trusted: Lean kernel, harness, scripted callbacks; Rust modelled not verified; runtime '
               'scheduling outside the model'}
