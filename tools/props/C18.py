"""check configuration for C18"""

CFG = {'module': 'Dnp3.Props.C18',
 'gen': [],
 'engines': ['pairsync', 'pairmerge'],
 'engine_model': {'pairsync': 'pair', 'pairdata': 'pair'},
 'monitors': ['time_written_is_master_time', 'sync_failure_reported', 'success_implies_written', 'wire_account'],
 'rule': 'engine pairmerge (SEARCH ONLY, no model counterpart, nothing diffed: both families of histories with the relay '
         'allowed to merge consecutive fragments into one write; only the monitors run).  engine pairsync: the REAL MasterTask and the REAL OutstationTask, each behind the real link layer and '
         'transport over its own in-memory pipe on one paused clock, joined by the harness acting as the wire '
         '(per-direction delay, hold, octet-granular delivery, re-chunking, cut).  Histories: user-requested LAN / '
         'non-LAN / direct time synchronisations and the automatic ones triggered by NEED_TIME, with one-way delays '
         'a (request), p+b (processing + reply), c (WRITE) drawn from 0, 1, odd/even, 65535, 65536, beyond 65536, '
         'symmetric paths, master clocks 0 / 1 / 2^47 / 2^48-1 / 2^48-1 minus the sums involved / none, reported '
         'processing delays honest / zero / exactly the round trip / exceeding it / arbitrary, NEED_TIME cleared '
         'before the WRITE arrives or not, the application refusing the write, response time-outs, unsolicited '
         'traffic and relay-inserted wrong-sequence / unsolicited / foreign / forged replies interleaved at every '
         'step, start-up sequences on or off, both link error modes, re-chunking 1..1000 octets.  Every history '
         'runs both real tasks and the Lean pair model (outputs diffed per op, including the virtual instants of '
         'every delivery) and the monitors recompute, from the wire account of the harness and the scripted master '
         'clock, the error bound of each successful procedure and the failure conditions.',
 'trusted_base': ['hand-written Lean models of master/tasks/time.rs (inside the master session model) and of the '
                  'outstation handlers handle_delay_measure / handle_record_current_time / '
                  'handle_write_at_last_recorded_time / handle_write_abs_time (inside the outstation session model), '
                  'tied by differential execution of BOTH real tasks joined in process (engine pairsync); '
                  'Model/TimeSync.lean (arithmetic) is tied to these session models by the link theorems',
                  'the relay between the two pipes is the harness (delays are exact because the clock is paused); '
                  'the master clock is the scripted function base + virtual time (saturating at 2^48-1)',
                  'handler callbacks (OutstationApplication, AssociationHandler clock) are recording / scripted '
                  'implementations in the harness; the processing delay the outstation reports is scripted, the '
                  'real one is part of the reply transit'],
 'assumptions': ['tokio timer semantics on a paused clock; Instant differences are exact virtual times',
                 'Duration / 2 in nanoseconds followed by as_millis truncation is the floor of the half in '
                 'milliseconds (all virtual times are whole milliseconds)',
                 'the relay forwards at most one fragment per write (inside a fragment any re-chunking): two '
                 'fragments arriving in one read are handled by the outstation before check_unsolicited runs, an '
                 'order the fragment-level model does not express'],
 'level_text': 'Lean theorems: arithmetic of both procedures (LAN error = forward delay of RECORD_CURRENT_TIME; '
               'non-LAN error = floor((a+b)/2) - c, bounded by the asymmetry, 0 when equal, independent of an '
               'honest processing delay), the four failure conditions, link theorems tying that arithmetic to '
               'the master session model\'s time-sync task and to the outstation session model, and the '
               'end-to-end composition; tie to the code: correspondence of both REAL tasks joined by a scripted '
               'wire vs the Lean pair model + trace monitors',
 'level_note': 'trusted: Lean kernel, harness (relay, scripted clock, recording callbacks); Rust modelled not '
               'verified; real socket timing and OS scheduling outside the model'}
