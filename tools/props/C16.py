"""check configuration for C16"""

CFG = {'assumptions': ['tokio timer, mpsc and oneshot semantics; xxh64 collision-free on compared unsolicited '
                 'fragments (model compares octets)',
                 'command objects compare as octet strings (the library compares decoded values: NaN and '
                 'signed zero excluded from generated values)',
                 'file transfer tasks and the generic empty-response task are outside the engine vocabulary'],
 'engines': ['master'],
 'gen': [],
 'level_note': 'trusted: Lean kernel, harness, recording callbacks; Rust modelled not verified; runtime '
               'scheduling outside the model',
 'level_text': 'Lean theorems: CommandHeaders.compare as iff (items, header, header list), command success '
               'only by compare in the operate step, OPERATE only from a faithful SELECT echo with the next '
               'sequence number, every error exit completes the promise once, timed-out waits end, no '
               'message extends a response wait, link status check bounded by one response timeout (D24 '
               'repaired; regression corpus harness/corpus/C16/master_D24.ops)',
 'module': 'Dnp3.Props.C16',
 'monitors': ['command_ok_iff_echo',
              'sbo_operate_follows_select',
              'exactly_one_outcome',
              'bounded_duration',
              'error_matches_cause',
              'success_needs_response',
              'no_panic',
              'no_spin'],
 'rule': 'engine master: session histories (5-60 ops) of the REAL MasterTask (real link layer and transport '
         'over an in-memory pipe, paused clock) from a weighted grammar: 1-3 associations with random '
         'configurations (each automatic task on/off, class sets, time-sync procedure, retry strategies '
         'incl. min=max and min>max, keep-alive, response timeouts, queue limits 1/2/16, tx buffer '
         '249/300/2048); correct replies (`reply`, resolved by both sides from the last transmitted request) '
         'with IIN restart / need-time / events / overflow bits; replies wrong in exactly one field '
         '(sequence +1..15, source, destination, FIR, FIN, CON, UNS, function, IIN2 error bits, objects '
         'malformed / unknown / truncated); command echoes mutated in one status / value / index / count / '
         'order / header / width / variation / truncation; multi-fragment read series with one rule broken; '
         'unsolicited fragments (null, data, malformed, duplicates, wrong flags, unknown source) at every '
         'position; all user request kinds (read, read with handler, direct operate and '
         'select-before-operate of all five control types with 8/16-bit indices and 1-3 headers, three '
         'time-sync procedures, cold/warm restart, dead-band write, link status check); polls (add / demand '
         '/ remove), clock advances to t-1 / t / t+1 of every configured timeout, retry delay, period and '
         'keep-alive; link status frames; cut / down / up / disable / enable / remove and re-add association '
         '/ shutdown at any step.  Every history runs the real task and the Lean model (outputs diffed per '
         'op) and the trace monitors evaluate the property predicates on the implementation trace with an '
         'independent decoder.',
 'trusted_base': ['hand-written Lean model of master/task.rs, association.rs, poll.rs, '
                  'tasks/{mod,auto,command,time,restart,read,deadbands}.rs, request.rs::compare and '
                  'app/retry.rs, tied by differential execution of the REAL MasterTask over an in-memory '
                  'pipe on a paused clock',
                  'response objects are parsed by the model for a fixed vocabulary (g1v2 g2v1 g2v2 g30v1 '
                  'g32v1 g12v1 g41v1-4 g50v1 g51v1/2 g52v1/2); the generators use only these and object '
                  'strings that the library rejects too',
                  'handler callbacks (ReadHandler, AssociationHandler clock, AssociationInformation) are '
                  'recording / scripted implementations in the harness',
                  'the probe drives the task like serial/task.rs does (wait_for_enabled, connect, run); '
                  'shutdown = all handles dropped']}
