"""check configuration for C09"""

CFG = {'module': 'Dnp3.Props.C09',
 'gen': ['Variations.lean', 'Qualifiers.lean', 'AppCodes.lean', 'Attrs.lean', 'File70.lean'],
 'engines': ['parse', 'attr', 'file70', 'db', 'outstationdb'],
 'monitors': None,
 'exhaustive_thorough': True,
 'rule': 'engine parse: (1) application header: every control octet x function octets (thorough: all 256; '
         'quick: all defined codes, neighbours, random) with 0..2 trailing octets; (2) product space '
         'variation (every group the library knows, vars 0..11 / wildcard samples, unknown neighbours) x 10 '
         'qualifier octets x 8 count/range classes (0, 1, 255, 256, 65535, [0,0], [255,255], [0,255], '
         '[65535,65535], [0,65535], stop<start, random) x function class (READ, every other request code in '
         'rotation, RESPONSE; thorough adds UNSOLICITED and more) with payloads of the reference-implied '
         'length; (3) multi-header fragments of 2..5 meaningful headers incl. group 0 attributes and group '
         '70 free-format objects; (4) truncation at every octet (quick: stride), extension by 1..3 octets, '
         'single-octet mutations of pooled fragments; (5) random object octets; (6) ranges ending at index '
         '65535 for every ranged payload kind; (7) the master request builders (ReadRequest, ReadHeader, '
         'CommandBuilder, write_count_of_one, write_clear_restart) with buffer capacities 2..2048. Every '
         'case runs the real ParsedFragment::parse, to_request/to_response, the real lazy iterators over '
         'every enum variant (match regenerated from the enum declarations) and Display at all four decode '
         'levels under catch_unwind. distinct = distinct canonical op lists Engines db and outstationdb (the '
         'real Database / the real OutstationTask over a populated database, see C11): every response and '
         'unsolicited fragment the database writers emit, at every capacity and resumption point, is decoded '
         'by an independent decoder and compared with the mirrored reference database. Engine attr (device '
         'attributes, group 0): attribute sets defined through the real Database::define_attr (every value '
         'kind x boundary values: lengths 0 / 1 / 127 / 128 / 254 / 255 / 256 / 300, integers around every '
         'width boundary, float specials, times; default set with demanded and other types; private sets; '
         '0..253 attributes per set), READ of g0 (specific variation, v254, v255, 8- and 16-bit ranges, '
         'qualifier 0x06, more headers than the selection queue holds) answered by the real response '
         'writers into cursors of 5..2048 octets (fixed classes 245 / 249 / 292 / 1024 / 2044 / 2048, '
         'random, and boundaries placed at object size +-0/1/2/5/6/7), every list length 1, 2, 3, 63, 126..131, '
         '200, 252, 253 (thorough: all 1..253) at capacities size-1 / size / size+1; every emitted fragment '
         'parsed by ParsedFragment::parse and by an independent reference decoder; the master WRITE builder '
         '(Headers::add_attribute) at capacities 0..2048; WRITE of attributes then read back; the parser on '
         'generator-made objects: type code x length octet x payload presence grid (thorough: all 256 type '
         'codes), list boundaries 0 / 1 / 127 / 128 / 129 / 255 entries in both encodings with the usual '
         'mistakes, random object sequences with truncation / extension / mutation / insertion, qualifiers '
         '0x00 0x01 0x06 0x17 0x28, function codes 1 2 3 129 130. Engine file70 (file-transfer objects, group 70, '
         'qualifier 0x5B): every variation with a writer (g70v2 v3 v4 v5 v7) built through the real '
         'Group70VarN::write / HeaderWriter::write_free_format after start_request: every numeric field at 0 / 1 / '
         'mid / max of its width one at a time, every FileStatus code, every permission bit, timestamps up to '
         '2^48-1 (and beyond: masked), block numbers with and without the last-block bit, data blocks of 0..2035 '
         'octets, enumerations also spelled Other(code) / Reserved(code); strings of six classes (empty, ASCII, 2- / '
         '3- / 4-octet UTF-8, scalar values at the edges of every form incl. NUL) x lengths 0..1000 characters in '
         'every string position, sizes 65522..65536 around what 16 bits can express; capacities size-1 / size / '
         'size+1 / 0..12 / 249 / 2048 / random; the master tasks AuthFileTask, OpenFileTask, CloseFileTask, '
         'GetFileInfoTask, WriteBlockTask through RequestWriter as MasterSession::send_request does; the '
         'FileReadTask driven through AUTHENTICATE / OPEN / READ / CLOSE by generated responses (right, wrong '
         'variation, bad status, wrong block, last-block bit, malformed, two headers), its request after every '
         'step; every built fragment parsed by ParsedFragment::parse (+ lazy iterator, Display) and by an '
         'independent reference decoder; the parser on generator-made fragments: well-formed objects of all seven '
         'variations (1..4 per fragment, request and response function codes) and malformed ones (size field, '
         'offset constant, password offset / size, free-format length, count octet, trailing octets inside / '
         'outside, truncation at every octet, shortened, qualifier, variation, bit flips, strings that are not '
         'UTF-8: stray continuation, truncated sequence, overlong, surrogate, > U+10FFFF); DirectoryReader on '
         'concatenated file descriptors, well-formed and damaged, in random block splits.',
 'trusted_base': ['hand-written Lean model of app/parse/parser.rs (header walk), range.rs, count.rs, bit.rs, '
                  'bytes.rs, prefix.rs, free_format.rs, attr.rs (AttrValue::parse, parse_from_range, '
                  'parse_prefixed), file/g70v*.rs (read), header.rs, str::from_utf8; tied by differential '
                  'execution (engine parse)',
                  'Variation::lookup, every FixedSize impl (SIZE, read fields, write fields), the five '
                  'qualifier tables, the free-format table, function / qualifier codes, control masks, '
                  'attribute type codes, g70 offsets: regenerated from source (Gen/Variations.lean, '
                  'Gen/Qualifiers.lean, Gen/AppCodes.lean)',
                  'hand-written Lean model of HeaderWriter::write_prefixed_items (Model/RequestBuilder: cursor '
                  'checks, item loop, checked count) tied by differential execution (engine parse, op build)',
                  'hooks/parse_probe.rs + generated hooks/parse_probe_gen.rs (expose ParsedFragment / '
                  'iterators / builders; no behaviour change)',
                  'reference object sizes (IEEE 1815) and reference validation rules inside '
                  'harness/src/eng_parse.rs',
                  'hand-written Lean model of app/attr.rs (OwnedAttrValue::write, AttrValue::parse with values, '
                  'VariationListIter), outstation/database/details/attrs/** (SetMap::define / maybe_write, '
                  'AttrHandler::select, Selection::write_all, write_attr_list, get_list_encoding), '
                  'HeaderWriter::write_attribute and Headers::write (Model/Attr.lean) tied by differential '
                  'execution (engine attr); attribute type codes, named default-set variations and their '
                  'demanded types, reserved / writable variations, list-length constants, selection limits: '
                  'regenerated from source (Gen/Attrs.lean)',
                  'hooks/attr_probe.rs (exposes the attribute database, response writers, request builder and '
                  'parser; no behaviour change); reference attribute decoder (IEEE 1815 attribute data types) '
                  'and READ bookkeeping inside harness/src/eng_attr.rs',
                  'hand-written Lean model of app/file/g70v*.rs (write, read with values), permissions.rs, '
                  'HeaderWriter::write_free_format, the master file tasks\' request builders, FileReadTask::handle, '
                  'DirectoryReader::completed (Model/File70.lean) tied by differential execution (engine file70); field '
                  'order / widths of every write and read, offset constants, byte_length, enum codes, permission bits, '
                  'REQUEST_ID, the builders\' struct literals, the steps of write_free_format: regenerated from source '
                  '(Gen/File70.lean)',
                  'hooks/file70_probe.rs (exposes the object writers, the master file tasks, DirectoryReader and the parser; '
                  'no behaviour change); reference group-70 codec (IEEE 1815 object definitions) inside '
                  'harness/src/eng_file70.rs',
                  'hand-written Lean model of outstation/database/** (event buffer, static database, '
                  'response writers) tied by differential execution of the real Database (engine db) and of '
                  'the real OutstationTask (engine outstationdb)'],
 'assumptions': ['octets are values < 256',
                 'group 70 file objects: engine parse compares accepted / rejected and consumed length (objs -); '
                 'their decoded field values are itemised by engine file70 (enumerations by wire code: Other(x) / '
                 'Reserved(x) with a named code x is a second spelling of the same wire value); group 0 attribute '
                 'values are itemised by engine attr',
                 'Group70Var6::write and Group70Var8::write exist only under #[cfg(test)]: those two variations are '
                 'exercised on the parser side only; the outstation of this library version emits no group-70 object',
                 'floating-point attribute values are their IEEE-754 bit patterns (no float arithmetic is '
                 'involved in encoding or parsing)',
                 'outstation response writers (range/event/prefix writers) are exercised by the outstation '
                 'engine, not here'],
 'level_text': 'Lean theorems about the object-header grammar model for all octet strings: SIZE = sum of '
               'field widths and read order = write order for every regenerated variation, generic field '
               'round trip, walk exactness (accepted => input is the concatenation of the header images, '
               'payload length is what variation/qualifier/count imply), well-founded termination with '
               'strict progress, control-octet and header round trips, iterator agreement (count, indices, '
               'slices; octet-string ranges up to and including index 65535, no iterator panic), the '
               'master\'s count-and-prefix header writer (CommandBuilder -> write_prefixed_items: for every '
               'capacity, buffer content, index width and item list the header is either written completely '
               '- exactly its image, which parses back to the items that were built - or the write fails '
               'with a WriteError, in particular when the count is not expressible in the index type); device '
               'attributes (group 0): parse (encode v) = v consuming exactly the encoded octets for every value '
               'of every kind, the attribute list for every length 0..255 in both encodings (none beyond), the '
               'parser accepts a value iff the octets are exactly what type code and length octet imply, '
               'agreement of the typed value parser with the object walk, and for the outstation response '
               'writer at every capacity, cursor content and selection: a fragment is its prior content plus '
               'whole objects, which parse back, and across fragments the series is exactly the objects the '
               'READ denotes; file-transfer objects (group 70): parse (encode o) = o consuming exactly the '
               'encoded octets for every variation and every field value with strings as UTF-8 octet lists (octet '
               'length, not character count), the parser accepts an object / a free-format header only if offsets are '
               'the constants, size fields the octet lengths, the header length the object length and count 1, '
               'agreement of the typed parser with the object walk, write_free_format and the master\'s file '
               'requests for every capacity: written completely and parsed back to what was built, or a write error; '
               'directory listings; model '
               'tied to the code by the regenerated tables and by differential execution of the real parser, '
               'iterators, Display and builders',
 'level_note': 'trusted: Lean kernel (+ propext/Classical.choice/Quot.sound), translate.py + '
               'gen_variations.py, the correspondence harness; the Rust is modelled, not verified',
 'engine_monitors': {'db': ['response_well_formed', 'event_is_recorded_live_in_order'], 'outstationdb': ['fits_and_parses'],
                     'attr': ['attr_response_parses_back', 'attr_fragment_is_whole_objects',
                              'attr_parser_accepts_only_exact', 'attr_request_parses_back',
                              'response_within_capacity', 'no_panic'],
                     'file70': ['file_object_parses_back', 'file_parser_accepts_only_exact', 'no_panic']}}
