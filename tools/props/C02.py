"""check configuration for C02"""

CFG = {'module': 'Dnp3.Props.C02',
 'gen': [],
 'engines': ['pairdata', 'pairmerge', 'db'],
 'engine_model': {'pairsync': 'pair', 'pairdata': 'pair'},
 'monitors': ['converged_after_quiescence',
              'nothing_fabricated',
              'events_delivered_at_least_once',
              'no_resurrection',
              'wire_account'],
 'rule': 'engine pairmerge (SEARCH ONLY, no model counterpart, nothing diffed: both families of histories '
         'with the relay allowed to merge consecutive fragments into one write; only the monitors run).  '
         'engine pairdata: the REAL MasterTask and the REAL OutstationTask, each behind the real link layer '
         'and transport over its own in-memory pipe on one paused clock, joined by the harness acting as the '
         'wire.  Histories (6-45 ops + tail): update transactions over binary and analog points in classes '
         '0-3 (over-range analogs, all flag patterns, points added late, databases of 30-260 points forcing '
         'multi-fragment responses), user reads of every class combination, periodic polls (add / demand), '
         'unsolicited reporting on/off with retries none/0/1/3, commands (direct and select-before-operate), '
         'per-direction delays 0..6000 ms changed at any time, hold / release, delivery of the next 1..600 '
         'octets (stopping inside link frames), re-chunking 1..1000 octets, cuts at any point (octets in '
         'flight lost, both sessions restart), event buffers of 1..50 per type (overflow), tx buffers '
         '249..2048, both link error modes, automatic tasks of the master on/off; kind ovfread (1 case in '
         '5): event buffers of 36-50 per type behind a 249 / 300 octet response buffer, events collected by '
         'periodic event polls / user event reads (unsolicited mostly off), bursts of updates longer than '
         'the buffer racing with the polls, so that event reads take several fragments and IIN2.3 is '
         'reported in series whose confirms free the buffer again (counters c02_multifragment_event_read, '
         'c02_overflow_during_multifragment_read, c02_iin23_only_in_nonfinal_fragments_<task>).  Every '
         'history ends with a quiescent tail (appiin 0, no re-chunking, delays 0, holds off) after which the '
         "handler's last value per point is compared with the database; two kinds of tail, half of the cases "
         'each (3 in 4 for ovfread).  EXPLICIT: 75 s settling, two user reads of classes 0-3 (`@converged`): '
         'every point must be current, every event not reported as overflow-discarded must have reached the '
         'handler.  AUTO (`@converged auto`): NO user request; 1 auto tail in 4 (1 in 8 for ovfread) first '
         'cuts the connection once more; then only virtual time passes, about 280 s in 62 steps: four blocks '
         'of 20 s in steps of 0.5-5 s separated by waits of 10-61 s (response time-out <= 20 s, confirm '
         'time-out <= 15 s, unsolicited retry delay <= 5 s, back-off of the automatic tasks <= 10 s, poll '
         'periods <= 60 s all fire several times); when the configuration makes the start-up integrity poll '
         'slow (unsolicited on, int != 0, a class in `en` that is not in `dis`, rto <= ctimeout, and a cut '
         'occurred: after the reconnection the outstation still reports unsolicited, the master neither '
         'disables it first nor confirms unsolicited data before its integrity poll is complete, and the '
         'outstation defers the READ until the confirm time-out, i.e. beyond the response time-out unless '
         'the READ arrives late in a confirm wait) the time passes in 1600 steps of 250 ms instead, because '
         'coarse steps re-align the two endpoints at every step.  WHEN CONVERGENCE IS EXPECTED WITHOUT A '
         'USER READ (judged per point, from the cfg line, the addpoll ops that succeeded and the trace; ops '
         'are numbered, within an op the database effect comes first): the current value of point p (class '
         'c; last added / updated in op u) is OWED to the handler iff  (A) a periodic poll whose classes '
         'include class 0 is configured (it re-reads every point), or  (B) c is 1..3, the last update of p '
         'was recorded as an event that was not overflow-discarded, and events of class c are reported by '
         'the library itself: a periodic poll whose classes include c, or unsolicited=1 at the outstation '
         "and c in the master's `en` mask, or c in `evscan` and at least one periodic poll (of any classes) "
         'is configured (its response carries CLASS_c_EVENTS and triggers the automatic event scan), or  (C) '
         "the master's integrity poll includes class 0 (`int` & 8) and was due after u: (C1) the connection "
         'was cut in an op >= u (start-up integrity poll of the new session), or (C2) ovf=1 and in an op >= '
         'u the handler was handed a fragment with IIN2.3 (begin_fragment) while no READ of the master '
         'written before op u was in progress (an indication received during a READ written before u may '
         'arrive during the integrity poll itself, which absorbs it).  NOT owed, hence counted '
         '(c02_auto_point_stale_not_owed) and not failed: class-0 points and points whose last event was '
         'discarded when there is neither a periodic class-0 poll nor a trigger after the update (e.g. '
         'unsolicited off / `en` without the class and no periodic poll: nothing reports by itself; `int` '
         'without class 0; ovf=0), and everything when the association was never created.  One such history '
         "is a FINDING, reported as converged_after_quiescence cause=D28: the point's last event was "
         'overflow-discarded in op d, ovf=1 and `int` includes class 0, and the outstation transmitted '
         'response fragments in ops >= d but none of them with IIN2.3 (the confirm of a response written '
         'before the overflow cleared the indication before any response could carry it): the master is '
         'never told to recover.  An event is owed (events_delivered_at_least_once, auto) iff it was not '
         "overflow-discarded and its point's class is reported by the library itself as in (B).  A point "
         'that is owed and not current, or an owed event that never reached the handler, is a failure.  Both '
         'real tasks and the Lean pair model run every history (outputs diffed per op) and the monitors keep '
         'an independent mirror database, event ledger and wire account. Engine db (see C03): the '
         'event-detection rule the convergence rests on — an update creates an event iff the flags changed '
         'or the value left the dead-band around the value LAST REPORTED — with non-zero dead-bands and slow '
         'drift, on the real Database (the pair engine itself configures dead-band 0).',
 'trusted_base': ['hand-written Lean models of the outstation session + database and of the master session '
                  '(as for C03-C05, C11-C17), composed in Model/Pair.lean with two FIFO queues; tied by '
                  'differential execution of BOTH real tasks joined in process by a scripted relay (engine '
                  'pairdata)',
                  'link layer and transport are inside every run (real code on both sides) but not in the '
                  'pair model: they are tied by C06 / C08',
                  'handler callbacks are recording implementations; user threads are the harness (one '
                  'transaction per op, the tasks run to quiescence after each): real multi-threaded '
                  'interleavings and the TCP client/server tasks (connect loop, back-off) are NOT exercised '
                  'by this engine'],
 'assumptions': ['tokio timer / Notify semantics on a paused clock',
                 'the relay forwards at most one fragment per write (inside a fragment any re-chunking, '
                 'including stopping inside a link frame for arbitrarily long)',
                 'point types: binary input (g1v2 / g2v1) and analog input (g30v1 / g32v1), the vocabulary '
                 'of the session engines; these variations carry no time, so "reported time" is not '
                 'observable here'],
 'level_text': 'proof (partial): Lean theorems over the models for all states / histories: the master '
               'delivers only what a received response carried; the wire of the pair model delivers only '
               'what the other side transmitted; responses carry only database values / buffered events '
               '(database theorems); a quiescent class-0 poll hands the handler exactly the current static '
               'values (partial); an accepted fragment of a READ response with IIN2.3, final or not, leaves '
               'the integrity task demanded (overflow_iin_demands_integrity, '
               'nonfinal_overflow_fragment_step).  Convergence, at-least-once event delivery and '
               'no-resurrection over whole histories with interruptions are runtime predicates: checked by '
               "trace monitors on the implementation's trace of the deterministic pair engine (tails with "
               'two explicit integrity reads, and tails with no user request at all in which only the '
               "library's own mechanisms act), with the correspondence of both real tasks vs the pair model",
 'level_note': 'trusted: Lean kernel, harness (relay, recording callbacks, reference database / ledger); '
               'Rust modelled not verified; real TCP, thread interleavings and reconnect back-off outside '
               'the engine (the real-TCP loopback search of DESIGN.md is not built)',
 'engine_monitors': {'db': ['event_iff_beyond_deadband_of_last_reported',
                            'event_is_recorded_live_in_order',
                            'kept_until_released_or_discarded']}}
