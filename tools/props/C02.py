"""check configuration for C02"""

CFG = {'module': 'Dnp3.Props.C02',
 'gen': [],
 'engines': ['pairdata', 'pairmerge', 'db', 'pairtcp', 'master'],
 'engine_model': {'pairsync': 'pair', 'pairdata': 'pair'},
 'monitors': ['converged_after_quiescence',
              'nothing_fabricated',
              'events_delivered_at_least_once',
              'no_resurrection',
              'wire_account'],
 'rule': 'engine pairtcp (SEARCH ONLY, no Lean-model counterpart: nothing is diffed, the trace monitors '
         'decide; REAL time on a REAL multi-threaded tokio runtime, so every verdict is either a safety '
         'statement judged on time stamps whose order is sound whatever the scheduling - a stamp taken '
         'before an action starts / after it has returned - or an EVENTUAL statement with a generous, '
         "bounded real-time budget; never a comparison of interleavings).  Public API only: the library's "
         'real TCP outstation server (dnp3::tcp::Server, add_outstation_no_spawn + bind_no_spawn spawned by '
         'the harness so that the task JoinHandles are observable, 127.0.0.1:0) and the real master TCP '
         'client channel (spawn_master_tcp_client: the reconnect loop and back-off of tcp/client.rs, '
         'tcp/master/client.rs, util/session.rs, the session replacement of tcp/outstation/server.rs + '
         'server_task.rs, the master start-up sequence of master/task.rs + association.rs), one runtime of 3 '
         'workers per case, 12 cases at a time on distinct ports; database transactions from a separate user '
         'thread (fired, not awaited), master user requests as spawned tasks, recording ReadHandler / '
         "AssociationInformation / OutstationApplication / OutstationInformation of the pair engine's types "
         'with time stamps, the ClientState and ConnectionState listeners.  Between master and outstation a '
         "byte-level TCP proxy inside the harness (accepts the master's connection, connects to the "
         'outstation, forwards both directions through a scripted policy).  Ops: txn (binary / analog / '
         'counter inputs, classes 0-3, all flag patterns, over-range analogs, points added late, addmany '
         '30-260 points behind a 249-300 octet response buffer), sleep 0-250 ms, cut (both sockets closed '
         'now), cut after n octets m2o|o2m (1..700: inside link headers, CRCs, frames), refuse ms (listener '
         'closed: connection refused, the connect back-off path), reject ms (accepted and closed at once), '
         "halfopen o (the master's socket closed, the outstation's kept open and silent: the next connection "
         'meets a running session) / halfopen m, garble m2o|o2m (one flipped bit: session ends in Close '
         'mode, frame dropped in Discard mode), chunk 1..1000 (writes of n octets), delay m2o|o2m 0-400 ms, '
         'poll (periodic, 40-300 ms), read, cmd (direct / select-before-operate), busy p demand|read|level '
         '(1 case in 4: an application task sending the master task a message every 2-20 ms - poll demands, '
         'class-1 reads, set_decode_level - also while the connection is down and through the tail).  '
         'Configurations: unsolicited on/off, retries none/0/1/3, event buffers 1-50 per type, tx buffers '
         '249-2048, both link error modes independently at either end, keep-alives on/off, dis / int / en / '
         'evscan / ovf masks as in pairdata; confirm time-out 30-100 ms, response time-out 150-400 ms and >= '
         '2.5 x the confirm time-out (the slow-start configurations belong to pairdata), unsolicited retry '
         'delay 10-100 ms, task back-off 20-200 ms, ConnectStrategy min 5-20 / max 40-160 / reconnect 0-50 '
         'ms.  Histories of 6-30 ops (quick: 30 cases of 6-18 ops, every kind x every tail; thorough: 3000 '
         'cases), kinds cuts / refuse / halfopen / chunk / garble / unsol / overflow / mixed.  Every history '
         'ends with `clear` (policy reset, listener open, the user thread drained, sockets held by halfopen '
         'judged and closed) and a quiescent tail of REAL time that ends as soon as every eventual '
         'obligation is met, at the latest after 15 s: `tail explicit` (user reads of classes 0-3, repeated '
         'until one issued after `clear` has completed and the picture is right; 1 in 4 cut the connection '
         'just before `clear`) or `tail auto` (no user request; 1 in 3 cut the connection once more just '
         "before).  Monitors (semantics of pairdata's, with time stamps in place of op numbers): "
         'converged_after_quiescence + events_delivered_at_least_once (explicit: every point current, every '
         "event not overflow-discarded delivered; auto: the per-point OWED rule A / B / C1 (the proxy's last "
         "connection was established after the transaction of the point's last update had returned, and the "
         'integrity poll includes class 0) / C2 (IIN2.3 handed to the handler after it while no READ started '
         'before it was in progress); not owed = counted, not failed), nothing_fabricated (every delivered '
         "object is an image the harness' ledger holds for that point and type, written before the "
         'transaction started; objects of a type no point has fail), no_resurrection (a static object '
         "answering a READ was still current when that READ's task_start was called: its replacing "
         'transaction had not returned before), reconnects_after_cut (exactly: every '
         'WaitAfterFailedConnect(d) follows the configured back-off law - min, doubling, capped, reset by a '
         'success -, WaitAfterDisconnect = reconnect delay; a wait of d is followed by Connecting no earlier '
         'than d and no later than d + 6 s, Connecting by its outcome within 6 s; at the end of the tail the '
         'client is Connected through a live proxy connection and, after its last Connected, '
         'DISABLE_UNSOLICITED / the integrity poll / ENABLE_UNSOLICITED - as configured - were answered in '
         'that order, seen through AssociationInformation), server_replaces_session (after halfopen o, once '
         "a later connection has reached the server the old session's socket is closed by the server within "
         '6 s, and a request forwarded on the replacing connection is answered on it), no_panic (panic hook '
         "keyed by the case's thread names; the JoinHandles of the outstation task and the server task; the "
         'master channel still answers), no_hang (user requests complete or fail within 26 s, the user '
         'thread is never blocked in a transaction, the master task takes messages, wall-clock watchdog of '
         '150 s per case), harness_ok (ledger and Database::add / update2 agree on which points exist).  A '
         'case that cannot be judged (a port could not be bound or re-bound) is counted unjudged, not '
         'failed; after 8 failing cases no further case is started (counted '
         "unjudged_not_run_after_failures).  A replay runs the case's ops again: the ops are deterministic "
         'from the seed, the run is not.  Known finding D33 (tag on events_delivered_at_least_once / '
         'converged_after_quiescence / no_resurrection, signature from observations only: the event was '
         'carried by a response fragment the proxy received on an earlier connection, never reached the '
         'handler, and was released - or is still held - while a later connection is the current one).  '
         'engine pairmerge (SEARCH ONLY, no model counterpart, nothing diffed: both families of histories '
         'with the relay allowed to merge consecutive fragments into one write; only the monitors run).  '
         'engine pairdata: the REAL MasterTask and the REAL OutstationTask, each behind the real link layer '
         'and transport over its own in-memory pipe on one paused clock, joined by the harness acting as the '
         'wire.  Histories (6-45 ops + tail): update transactions over binary and analog points in classes '
         '0-3 (over-range analogs, all flag patterns, points added late, databases of 30-260 points forcing '
         'multi-fragment responses), user reads of every class combination, periodic polls (add / demand), '
         'unsolicited reporting on/off with retries none/0/1/3, commands (direct and select-before-operate), '
         'per-direction delays 0..6000 ms changed at any time, hold / release, delivery of the next 1..600 '
         'octets (stopping inside link frames), re-chunking 1..1000 octets, cuts at any point (octets in '
         'flight lost, both sessions restart), event buffers of 1..50 per type (overflow), tx buffers '
         '249..2048, both link error modes, automatic tasks of the master on/off; kind ovfread (1 case in '
         '5): event buffers of 36-50 per type behind a 249 / 300 octet response buffer, events collected by '
         'periodic event polls / user event reads (unsolicited mostly off), bursts of updates longer than '
         'the buffer racing with the polls, so that event reads take several fragments and IIN2.3 is '
         'reported in series whose confirms free the buffer again (counters c02_multifragment_event_read, '
         'c02_overflow_during_multifragment_read, c02_iin23_only_in_nonfinal_fragments_<task>).  Every '
         'history ends with a quiescent tail (appiin 0, no re-chunking, delays 0, holds off) after which the '
         "handler's last value per point is compared with the database; two kinds of tail, half of the cases "
         'each (3 in 4 for ovfread).  EXPLICIT: 75 s settling, two user reads of classes 0-3 (`@converged`): '
         'every point must be current, every event not reported as overflow-discarded must have reached the '
         'handler.  AUTO (`@converged auto`): NO user request; 1 auto tail in 4 (1 in 8 for ovfread) first '
         'cuts the connection once more; then only virtual time passes, about 280 s in 62 steps: four blocks '
         'of 20 s in steps of 0.5-5 s separated by waits of 10-61 s (response time-out <= 20 s, confirm '
         'time-out <= 15 s, unsolicited retry delay <= 5 s, back-off of the automatic tasks <= 10 s, poll '
         'periods <= 60 s all fire several times); when the configuration makes the start-up integrity poll '
         'slow (unsolicited on, int != 0, a class in `en` that is not in `dis`, rto <= ctimeout, and a cut '
         'occurred: after the reconnection the outstation still reports unsolicited, the master neither '
         'disables it first nor confirms unsolicited data before its integrity poll is complete, and the '
         'outstation defers the READ until the confirm time-out, i.e. beyond the response time-out unless '
         'the READ arrives late in a confirm wait) the time passes in 1600 steps of 250 ms instead, because '
         'coarse steps re-align the two endpoints at every step.  WHEN CONVERGENCE IS EXPECTED WITHOUT A '
         'USER READ (judged per point, from the cfg line, the addpoll ops that succeeded and the trace; ops '
         'are numbered, within an op the database effect comes first): the current value of point p (class '
         'c; last added / updated in op u) is OWED to the handler iff  (A) a periodic poll whose classes '
         'include class 0 is configured (it re-reads every point), or  (B) c is 1..3, the last update of p '
         'was recorded as an event that was not overflow-discarded, and events of class c are reported by '
         'the library itself: a periodic poll whose classes include c, or unsolicited=1 at the outstation '
         "and c in the master's `en` mask, or c in `evscan` and at least one periodic poll (of any classes) "
         'is configured (its response carries CLASS_c_EVENTS and triggers the automatic event scan), or  (C) '
         "the master's integrity poll includes class 0 (`int` & 8) and was due after u: (C1) the connection "
         'was cut in an op >= u (start-up integrity poll of the new session), or (C2) ovf=1 and in an op >= '
         'u the handler was handed a fragment with IIN2.3 (begin_fragment) while no READ of the master '
         'written before op u was in progress (an indication received during a READ written before u may '
         'arrive during the integrity poll itself, which absorbs it).  NOT owed, hence counted '
         '(c02_auto_point_stale_not_owed) and not failed: class-0 points and points whose last event was '
         'discarded when there is neither a periodic class-0 poll nor a trigger after the update (e.g. '
         'unsolicited off / `en` without the class and no periodic poll: nothing reports by itself; `int` '
         'without class 0; ovf=0), and everything when the association was never created.  One such history '
         "is a FINDING, reported as converged_after_quiescence cause=D28: the point's last event was "
         'overflow-discarded in op d, ovf=1 and `int` includes class 0, and the outstation transmitted '
         'response fragments in ops >= d but none of them with IIN2.3 (the confirm of a response written '
         'before the overflow cleared the indication before any response could carry it): the master is '
         'never told to recover.  An event is owed (events_delivered_at_least_once, auto) iff it was not '
         "overflow-discarded and its point's class is reported by the library itself as in (B).  A point "
         'that is owed and not current, or an owed event that never reached the handler, is a failure.  Both '
         'real tasks and the Lean pair model run every history (outputs diffed per op) and the monitors keep '
         'an independent mirror database, event ledger and wire account. Engine db (see C03): the '
         'event-detection rule the convergence rests on — an update creates an event iff the flags changed '
         'or the value left the dead-band around the value LAST REPORTED — with non-zero dead-bands and slow '
         'drift, on the real Database (the pair engine itself configures dead-band 0).  engine master '
         "(shared with C17): the master's automatic start-up tasks (disable unsolicited / integrity poll / "
         'enable unsolicited) are re-armed whenever a session ends — link error, cut, or the application '
         'disabling and re-enabling the channel — and after a restart indication, so that every new session '
         'begins with an integrity poll (monitors startup_order, idle_means_nothing_due, unsolicited_gated; '
         'S164).',
 'trusted_base': ['hand-written Lean models of the outstation session + database and of the master session '
                  '(as for C03-C05, C11-C17), composed in Model/Pair.lean with two FIFO queues; tied by '
                  'differential execution of BOTH real tasks joined in process by a scripted relay (engine '
                  'pairdata)',
                  'link layer and transport are inside every run (real code on both sides) but not in the '
                  'pair model: they are tied by C06 / C08',
                  'handler callbacks are recording implementations; user threads are the harness (one '
                  'transaction per op, the tasks run to quiescence after each): real multi-threaded '
                  'interleavings and the TCP client/server tasks (connect loop, back-off, session '
                  'replacement) are NOT exercised by this engine but by the search-only engine pairtcp',
                  'engine pairtcp: harness/src/eng_pairtcp.rs (byte-level TCP proxy, user thread, recording '
                  'callbacks with time stamps), mon_pairtcp.rs (ledger, owed rule, D33 signature), '
                  'gen_pairtcp.rs; search only: it can miss, and what it reports is a run, not a proof'],
 'assumptions': ['tokio timer / Notify semantics on a paused clock',
                 'the relay forwards at most one fragment per write (inside a fragment any re-chunking, '
                 'including stopping inside a link frame for arbitrarily long)',
                 'point types: binary input (g1v2 / g2v1) and analog input (g30v1 / g32v1), the vocabulary '
                 'of the session engines; these variations carry no time, so "reported time" is not '
                 'observable here'],
 'level_text': 'proof (partial): Lean theorems over the models for all states / histories: the master '
               'delivers only what a received response carried; the wire of the pair model delivers only '
               'what the other side transmitted; responses carry only database values / buffered events '
               '(database theorems); a quiescent class-0 poll hands the handler exactly the current static '
               'values (partial); an accepted fragment of a READ response with IIN2.3, final or not, leaves '
               'the integrity task demanded (overflow_iin_demands_integrity, '
               'nonfinal_overflow_fragment_step).  Convergence, at-least-once event delivery and '
               'no-resurrection over whole histories with interruptions are runtime predicates: checked by '
               "trace monitors on the implementation's trace of the deterministic pair engine (tails with "
               'two explicit integrity reads, and tails with no user request at all in which only the '
               "library's own mechanisms act), with the correspondence of both real tasks vs the pair model",
 'level_note': 'trusted: Lean kernel, harness (relay, recording callbacks, reference database / ledger); '
               'Rust modelled not verified; real TCP, thread interleavings, reconnect back-off and session '
               'replacement are outside the theorems and the pair model: they are exercised by the '
               'search-only engine pairtcp (real TCP over loopback through a scripted proxy, real time, '
               'multi-threaded runtime; monitors only)',
 'engine_monitors': {'db': ['event_iff_beyond_deadband_of_last_reported',
                            'event_is_recorded_live_in_order',
                            'complete_class_poll_carries_every_event',
                            'kept_until_released_or_discarded'],
                     'pairtcp': ['converged_after_quiescence',
                                 'events_delivered_at_least_once',
                                 'nothing_fabricated',
                                 'no_resurrection',
                                 'reconnects_after_cut',
                                 'server_replaces_session',
                                 'no_panic',
                                 'no_hang',
                                 'harness_ok'],
                     'master': ['startup_order', 'idle_means_nothing_due', 'unsolicited_gated']}}
