"""check configuration for C02"""

CFG = {'module': 'Dnp3.Props.C02',
 'gen': [],
 'engines': ['pairdata', 'pairmerge'],
 'engine_model': {'pairsync': 'pair', 'pairdata': 'pair'},
 'monitors': ['converged_after_quiescence', 'nothing_fabricated', 'events_delivered_at_least_once',
              'no_resurrection', 'wire_account'],
 'rule': 'engine pairmerge (SEARCH ONLY, no model counterpart, nothing diffed: both families of histories with the relay '
         'allowed to merge consecutive fragments into one write; only the monitors run).  engine pairdata: the REAL MasterTask and the REAL OutstationTask, each behind the real link layer and '
         'transport over its own in-memory pipe on one paused clock, joined by the harness acting as the wire.  '
         'Histories (6-45 ops + tail): update transactions over binary and analog points in classes 0-3 (over-range '
         'analogs, all flag patterns, points added late, databases of 30-260 points forcing multi-fragment '
         'responses), user reads of every class combination, periodic polls (add / demand), unsolicited reporting '
         'on/off with retries none/0/1/3, commands (direct and select-before-operate), per-direction delays '
         '0..6000 ms changed at any time, hold / release, delivery of the next 1..600 octets (stopping inside link '
         'frames), re-chunking 1..1000 octets, cuts at any point (octets in flight lost, both sessions restart), '
         'event buffers of 1..50 per type (overflow), tx buffers 249..2048, both link error modes, automatic tasks '
         'of the master on/off.  Every history ends with a quiescent tail (wire released and prompt, 75 s settling, '
         'two integrity reads) after which the handler\'s last value per point is compared with the database.  Both '
         'real tasks and the Lean pair model run every history (outputs diffed per op) and the monitors keep an '
         'independent mirror database, event ledger and wire account.',
 'trusted_base': ['hand-written Lean models of the outstation session + database and of the master session (as for '
                  'C03-C05, C11-C17), composed in Model/Pair.lean with two FIFO queues; tied by differential '
                  'execution of BOTH real tasks joined in process by a scripted relay (engine pairdata)',
                  'link layer and transport are inside every run (real code on both sides) but not in the pair '
                  'model: they are tied by C06 / C08',
                  'handler callbacks are recording implementations; user threads are the harness (one transaction '
                  'per op, the tasks run to quiescence after each): real multi-threaded interleavings and the TCP '
                  'client/server tasks (connect loop, back-off) are NOT exercised by this engine'],
 'assumptions': ['tokio timer / Notify semantics on a paused clock',
                 'the relay forwards at most one fragment per write (inside a fragment any re-chunking, including '
                 'stopping inside a link frame for arbitrarily long)',
                 'point types: binary input (g1v2 / g2v1) and analog input (g30v1 / g32v1), the vocabulary of the '
                 'session engines; these variations carry no time, so "reported time" is not observable here'],
 'level_text': 'proof (partial): Lean theorems over the models for all states / histories: the master delivers only '
               'what a received response carried; the wire of the pair model delivers only what the other side '
               'transmitted; responses carry only database values / buffered events (database theorems); a '
               'quiescent class-0 poll hands the handler exactly the current static values (partial).  Convergence, '
               'at-least-once event delivery and no-resurrection over whole histories with interruptions are '
               'runtime predicates: checked by trace monitors on the implementation\'s trace of the deterministic '
               'pair engine, with the correspondence of both real tasks vs the pair model',
 'level_note': 'trusted: Lean kernel, harness (relay, recording callbacks, reference database / ledger); Rust '
               'modelled not verified; real TCP, thread interleavings and reconnect back-off outside the engine '
               '(the real-TCP loopback search of DESIGN.md is not built)'}
