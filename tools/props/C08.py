"""check configuration for C08"""

CFG = {'module': 'Dnp3.Props.C08',
 'gen': [],
 'engines': ['transport'],
 'monitors': ['delivered_fragment_is_contiguous_run',
              'well_formed_fragment_delivered_intact',
              'oversize_fragment_not_delivered',
              'writer_segments_as_specified'],
 'exhaustive_thorough': True,
 'rule': 'engine transport: fragment lengths 1..=2048 (thorough: all x seq0 {0,1,62,63} x rx '
         '{249,250,497,498,2048}; quick: boundaries + stride 37) segmented by an independent reference '
         'segmenter and fed re-chunked to the real transport Reader; writer sequences; segment streams '
         'damaged by drop/duplicate/swap/re-address/flag-flip/broadcast-insert/interleave followed by a '
         'fresh fragment',
 'trusted_base': ['hand-written Lean model of transport/real/{assembler,reader,writer,header,sequence}.rs '
                  'tied by differential execution'],
 'assumptions': [],
 'level_text': 'Lean theorems about the assembler/segmenter model (header octet round trip, sequence wrap, '
               'frame-id law, segment/reassemble, delivered-is-run) for all fragment lengths, sequence '
               'numbers and segment histories; tie: differential correspondence of the real Reader/Writer '
               'against the compiled model',
 'level_note': 'trusted: Lean kernel, harness; Rust modelled not verified'}
