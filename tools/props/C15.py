"""check configuration for C15"""

CFG = {'assumptions': ['tokio timer, mpsc and oneshot semantics; xxh64 collision-free on compared unsolicited '
                 'fragments (model compares octets)',
                 'command objects compare as octet strings (the library compares decoded values: NaN and '
                 'signed zero excluded from generated values)',
                 'file transfer tasks and the generic empty-response task are outside the engine vocabulary'],
 'engines': ['master', 'convert'],
 'gen': [],
 'level_note': 'trusted: Lean kernel, harness, recording callbacks; Rust modelled not verified; runtime '
               'scheduling outside the model',
 'level_text': 'Lean theorems over the session model: acceptance predicates of non-READ and READ responses '
               'as iff, confirm_exactly_when at step level for every session mode (READ, non-READ and '
               'unsolicited fragments; D8 repaired), unsolicited decision as iff incl. unparsable objects '
               'ignored / confirmed contents delivered (D23 repaired), duplicate detection; tie: '
               'correspondence of the real task vs model + trace monitors; regression corpus '
               'harness/corpus/C15/master_D8.ops, master_D23.ops',
 'module': 'Dnp3.Props.C15',
 'monitors': ['success_needs_response',
              'stale_or_foreign_ignored',
              'request_seq_fresh',
              'foreign_ignored',
              'delivered_once_in_order',
              'confirm_exactly_when',
              'duplicate_unsolicited',
              'confirmed_contents_delivered',
              'tx_wellformed',
              'no_panic',
              'no_spin'],
 'rule': 'engine master: session histories (5-60 ops) of the REAL MasterTask (real link layer and transport '
         'over an in-memory pipe, paused clock) from a weighted grammar: 1-3 associations with random '
         'configurations (each automatic task on/off, class sets, time-sync procedure, retry strategies '
         'incl. min=max and min>max, keep-alive, response timeouts, queue limits 1/2/16, tx buffer '
         '249/300/2048); correct replies (`reply`, resolved by both sides from the last transmitted request) '
         'with IIN restart / need-time / events / overflow bits; replies wrong in exactly one field '
         '(sequence +1..15, source, destination, FIR, FIN, CON, UNS, function, IIN2 error bits, objects '
         'malformed / unknown / truncated); command echoes mutated in one status / value / index / count / '
         'order / header / width / variation / truncation; multi-fragment read series with one rule broken; '
         'unsolicited fragments (null, data, malformed, duplicates, wrong flags, unknown source) at every '
         'position; all user request kinds (read, read with handler, direct operate and '
         'select-before-operate of all five control types with 8/16-bit indices and 1-3 headers, three '
         'time-sync procedures, cold/warm restart, dead-band write, link status check); polls (add / demand '
         '/ remove), clock advances to t-1 / t / t+1 of every configured timeout, retry delay, period and '
         'keep-alive; link status frames; cut / down / up / disable / enable / remove and re-add association '
         '/ shutdown at any step.  Every history runs the real task and the Lean model (outputs diffed per '
         'op) and the trace monitors evaluate the property predicates on the implementation trace with an '
         'independent decoder.  engine convert (shared with C10): fragments written by the real outstation '
         'database writers (every point type and variation, several common-time headers per fragment, '
         'several fragments) go through ParsedFragment::parse and extract_measurements into a recording '
         'ReadHandler and are compared with the Lean measurement model and an independent reference: every '
         'object of an accepted fragment reaches the handler exactly once, in wire order, with the time its '
         '(latest) common-time header gives it (S137).',
 'trusted_base': ['hand-written Lean model of master/task.rs, association.rs, poll.rs, '
                  'tasks/{mod,auto,command,time,restart,read,deadbands}.rs, request.rs::compare and '
                  'app/retry.rs, tied by differential execution of the REAL MasterTask over an in-memory '
                  'pipe on a paused clock',
                  'response objects are parsed by the model for a fixed vocabulary (g1v2 g2v1 g2v2 g30v1 '
                  'g32v1 g12v1 g41v1-4 g50v1 g51v1/2 g52v1/2); the generators use only these and object '
                  'strings that the library rejects too',
                  'handler callbacks (ReadHandler, AssociationHandler clock, AssociationInformation) are '
                  'recording / scripted implementations in the harness',
                  'the probe drives the task like serial/task.rs does (wait_for_enabled, connect, run); '
                  'shutdown = all handles dropped'],
 'engine_monitors': {'convert': ['every_point_delivered_once_in_order', 'time_carried_exact']}}
