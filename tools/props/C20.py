"""check configuration for C20"""

CFG = {'module': 'Dnp3.Props.C20',
 'gen': ['FfiArms.lean'],
 'engines': ['ffi'],
 'monitors': ['ffi_struct_fields_lossless', 'ffi_variant_namesake', 'ffi_database_equivalent'],
 'exhaustive_quick': True,
 'exhaustive_thorough': True,
 'rule': 'engine ffi: (1) EXHAUSTIVE: every conversion arm of ffi/dnp3-ffi/src that is reachable through a '
         'public `From` (unit variants all of them; payload variants on boundary payloads) is executed '
         'through the REAL conversion by the generated probe and compared with the generated table (one case '
         'per conversion); (2) replay of the known findings D21, D22 on the real code; (3) 12 struct '
         'conversions checked field by field with pairwise distinct values (Flags: all 256 octets; '
         'Timestamp: 3 qualities x 5 boundary values, both directions; UpdateOptions: all 6); (4) database '
         'equivalence: 120 (quick) / 600 (thorough) random sequences of 1..200 operations (add / remove / '
         'update / update2 / update_flags / get of the 7 measurement types + octet strings, all 6 '
         'UpdateOptions, 3 time qualities, random flag octets, boundary values/indices, event buffers of '
         'size 0..10 so that overflow ids occur) applied through `dnp3_database_*` and natively on a twin. '
         'distinct = distinct canonical op lists',
 'trusted_base': ['tools/gen_ffi.py + tools/rsparse.py: Rust token-tree reader that extracts every '
                  'conversion `match` arm and struct-literal field assignment of ffi/dnp3-ffi/src '
                  '(macro_rules with one rule are expanded); its reading of the arms is cross-checked '
                  'against the real `From` impls by the generated probe (748 of 868 arms)',
                  'rustc: exhaustiveness of every `match` and completeness of every struct literal (a '
                  'wildcard arm or `..base` would appear in the table and fail the theorems)',
                  'the oo-bindgen generated `ffi` module (enum <-> c_int, XFields -> X) is exercised by the '
                  'probe and the database run but not modelled',
                  'the `c!"..."` notation of Props/C20.lean (text -> character codes) used to write the '
                  'reviewed lists'],
 'assumptions': ['conversions of the binding crate are written as `match` arms / struct literals / '
                 '`T::new(..)` calls (what the translator recognises); a conversion written in another style '
                 'is reported as a broken tie only if it sits in a recognised conversion position, otherwise '
                 'it is not seen'],
 'level_text': 'Lean theorems (kernel-evaluated, whole table) that every conversion arm of the binding crate '
               'maps a variant to its namesake or to a reviewed rename, that no rename hides an available '
               'namesake, that each conversion is injective up to the reviewed collapses, and that every '
               'struct conversion assigns each field from the like-named accessor; the table is regenerated '
               'from the source on every run and cross-checked against the real conversions by a generated '
               'probe; database operations through the binding functions are compared with native calls on a '
               'twin database',
 'level_note': 'trusted: Lean kernel, gen_ffi.py (reading validated by the probe for 86% of the arms), rustc '
               "exhaustiveness; the event buffer's transmitted bytes are not compared (only UpdateInfo ids, "
               'get results, returned flags); cfg-gated (serial/tls) and crate-private conversions are '
               'covered by the theorems but not executed',
 'table_diag': 'tools/diag_c20.lean'}
