"""check configuration for C20"""

CFG = {'module': 'Dnp3.Props.C20',
 'gen': ['FfiArms.lean', 'FfiHandler.lean'],
 'engines': ['ffi', 'ffimeas'],
 'monitors': ['ffi_struct_fields_lossless',
              'ffi_variant_namesake',
              'ffi_database_equivalent',
              'ffi_measurement_lossless',
              'ffi_header_info_namesake',
              'ffi_iterators_exhaust_exactly',
              'no_panic'],
 'exhaustive_quick': True,
 'exhaustive_thorough': True,
 'rule': 'engine ffi: (1) EXHAUSTIVE: every conversion arm of ffi/dnp3-ffi/src that is reachable through a public '
         '`From` (unit variants all of them; payload variants on boundary payloads) is executed through the REAL '
         'conversion by the generated probe and compared with the generated table (one case per conversion); (2) '
         'replay of the known findings D21, D22 on the real code; (3) 12 struct conversions checked field by field '
         'with pairwise distinct values (Flags: all 256 octets; Timestamp: 3 qualities x 5 boundary values, both '
         'directions; UpdateOptions: all 6); (4) database equivalence: 120 (quick) / 600 (thorough) random sequences '
         'of 1..200 operations (add / remove / update / update2 / update_flags / get of the 7 measurement types + '
         'octet strings, all 6 UpdateOptions, 3 time qualities, random flag octets, boundary values/indices, event '
         'buffers of size 0..10 so that overflow ids occur) applied through `dnp3_database_*` and natively on a '
         'twin. distinct = distinct canonical op lists.  engine ffimeas (MASTER-SIDE MEASUREMENT PATH, model = the '
         'identity up to reviewed payload collapses, Model/FfiMeas.lean): the REAL `impl dnp3::master::ReadHandler '
         'for dnp3_ffi::ffi::ReadHandler` is called with native values built by the harness; the interface struct '
         'holds `extern "C"` callbacks that drain the opaque iterators with the exported `dnp3_*_iterator_next` / '
         '`dnp3_byte_iterator_next` / `dnp3_attr_item_iter_next` until NULL (then twice more, and once with a null '
         'iterator) exactly as a C consumer does, and record C ints / bools / octets; what was observed is compared '
         'with what was put in through hand-written parallel tables (name <-> native variant, name <-> C int of the '
         'like-named binding variant, IIN bit positions, `Option<Time>` as (value, quality)).  (1) begin_fragment / '
         'end_fragment: 1024 (quick) / 4096 (thorough) calls: 4 read types x 2 functions x 16 control-bit patterns x '
         '16 sequence numbers, every IIN bit alone, none, all, random; (2) HeaderInfo: EVERY native variation '
         '(Variation::lookup over all 65536 group/variation octets; payload variants Group0 / Group110 / Group111 on '
         'payloads 0 1 2 127 128 253 255 + random) x qualifiers x is_event x has_flags (thorough: the full product '
         'of 32 per variation; quick: every one of the 8 qualifiers and every (is_event, has_flags) pair per '
         'variation), through each of the 12 iterator callbacks in turn; (3) the eleven point / event / '
         'unsigned-integer types: per type one header sweeping all 256 flag octets (or 64 items for the flag-less '
         'types) and 80 (quick) / 240 (thorough) headers of 0, 1, 2, 3..30, 30..120 (600) items: indices 0 1 255 256 '
         '32768 65534 65535, runs crossing 255/256 and 65535, the three time qualities x timestamps 0, 1, 2^32-1, '
         '2^47, 2^48-2, 2^48-1 (a native Timestamp holds 48 bits, larger values cannot be built), analogs 0, -0, NaN '
         '(two payloads), +-inf, max, min, subnormal, random bit patterns, counters 0 1 2^31 2^32-1, all four '
         'DoubleBit values, all 20 CommandStatus codes + Unknown(20|126|255), the four analog command value types on '
         'their extreme values; (4) octet strings: one header with 256 strings of EVERY length 0..255, headers of '
         'empty strings only, equal strings, 0 strings, 120 (quick) / 600 (thorough) random headers of 0..60 (300) '
         'strings (uniform length as in g110, and mixed), one in three (and the 256-length header) also with a '
         'consumer that reads only k = 0..3 or 7 octets of every string (monitor-only `@partial`); (5) '
         'handle_abs_time on boundary / random timestamps; (6) handle_device_attribute: EVERY attribute variation '
         '0..255 x sets 0, 7 (thorough also 1, 255) x nine value types (string, uint, int, f32, f64, octet string, '
         'bit string, time, variation list of 0..255 items) - every combination the native classification '
         '(AnyAttribute::try_from) accepts, i.e. all known attributes and the Unknown path of all eight binding '
         'enums; (7) an interface struct without any callback; (8) visible strings with an embedded NUL (outside the '
         'domain of the lossless statement: a C string cannot carry them): 16 calls, the binding may refuse the '
         'attribute but a truncated string presented as the value fails `ffi_measurement_lossless`',
 'trusted_base': ['tools/gen_ffi.py + tools/rsparse.py: Rust token-tree reader that extracts every conversion '
                  '`match` arm and struct-literal field assignment of ffi/dnp3-ffi/src (macro_rules with one rule '
                  'are expanded); its reading of the arms is cross-checked against the real `From` impls by the '
                  'generated probe (748 of 868 arms)',
                  'rustc: exhaustiveness of every `match` and completeness of every struct literal (a wildcard arm '
                  'or `..base` would appear in the table and fail the theorems)',
                  'the oo-bindgen generated `ffi` module (enum <-> c_int, XFields -> X) is exercised by the probe '
                  'and the database run but not modelled',
                  'the `c!"..."` notation of Props/C20.lean (text -> character codes) used to write the reviewed '
                  'lists',
                  'tools/gen_ffi_handler.py + tools/rsparse.py: reads `impl ReadHandler for ffi::ReadHandler`, '
                  '`implement_iterator!` (macro body and instantiations), the `ffi::X::new` parameter lists and '
                  '`OctetStringIterator` of ffi/dnp3-ffi/src/handler.rs into Gen/FfiHandler.lean (statement shapes '
                  'it does not recognise are emitted as kind 0 and fail `octet_iterator_fresh_byte_iterator`; a '
                  'missing construct is a broken tie)',
                  'engine ffimeas: hooks/ffimeas_probe.rs exposes three native constructors only (Sequence::new, '
                  'Variation::lookup, a VariationList through the public AttrValue::parse); the C-int -> name '
                  'reading of the binding enums Variation and *Attr uses the oo-bindgen generated `From<c_int>` + '
                  'derived Debug (what the C / C# / Java consumers are generated from)'],
 'assumptions': ['conversions of the binding crate are written as `match` arms / struct literals / `T::new(..)` '
                 'calls (what the translator recognises); a conversion written in another style is reported as a '
                 'broken tie only if it sits in a recognised conversion position, otherwise it is not seen',
                 'engine ffimeas drives the trait impl directly with harness-built iterators; that the master hands '
                 'the handler the values it parsed is C07/C15, not C20'],
 'level_text': 'Lean theorems (kernel-evaluated, whole table) that every conversion arm of the binding crate maps a '
               'variant to its namesake or to a reviewed rename, that no rename hides an available namesake, that '
               'each conversion is injective up to the reviewed collapses, and that every struct conversion assigns '
               'each field from the like-named accessor; the table is regenerated from the source on every run and '
               'cross-checked against the real conversions by a generated probe; database operations through the '
               'binding functions are compared with native calls on a twin database; for the master-side measurement '
               'path: Lean theorems over the regenerated table Gen/FfiHandler.lean that every method of `impl '
               'ReadHandler for ffi::ReadHandler` invokes exactly its namesake callback with its own adapter, that '
               'every `implement_iterator!` instantiation and the macro body feed `ffi::X::new(idx, value)` from the '
               'namesake components of the native pair, that every exported next function advances then yields, that '
               '`OctetStringIterator::next` creates a fresh ByteIterator for every item, and that every '
               '`handle_device_attribute` arm reaches its namesake callback with its own value; plus the real trait '
               'impl driven with native values and observed through `extern "C"` callbacks like a foreign consumer, '
               'compared with the identity model',
 'level_note': 'trusted: Lean kernel, gen_ffi.py (reading validated by the probe for 86% of the arms), rustc '
               "exhaustiveness; the event buffer's transmitted bytes are not compared (only UpdateInfo ids, get "
               'results, returned flags); cfg-gated (serial/tls) and crate-private conversions are covered by the '
               'theorems but not executed; ffimeas: `handle_analog_input_dead_band` has no counterpart in the '
               'binding interface (never delivered, by design of the schema); visible strings with an embedded NUL '
               'are dropped with a warning (not representable as C strings)',
 'table_diag': 'tools/diag_c20.lean',
 'engine_monitors': {'ffi': ['ffi_struct_fields_lossless', 'ffi_variant_namesake', 'ffi_database_equivalent'],
                     'ffimeas': ['ffi_measurement_lossless',
                                 'ffi_header_info_namesake',
                                 'ffi_iterators_exhaust_exactly',
                                 'no_panic']}}
