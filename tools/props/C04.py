"""check configuration for C04"""

CFG = {'module': 'Dnp3.Props.C04',
 'gen': [],
 'engines': ['outstation'],
 'monitors': ['operate_needs_select', 'select_then_operate_once'],
 'rule': 'engine outstation: session histories (3-40 ops) from a weighted grammar over every function code '
         'the outstation executes (+ unknown codes, response codes, bad control flags, truncated fragments), '
         'valid and malformed object headers, byte-identical repeats, solicited/unsolicited confirms with '
         'right and wrong sequence numbers, clock advances to t-1/t/t+1 of the configured timeouts, '
         'broadcasts of all three modes, foreign masters, self address, disconnects; configurations over tx '
         'sizes 249..2048, unsolicited on/off, retry limits none/0/1/3, any-master, broadcast, max-controls. '
         'Each history runs the real task and the model; monitors evaluate the property predicates on the '
         "implementation's trace with an independent decoder.",
 'trusted_base': ['hand-written Lean model of outstation/session.rs (+ control/select.rs, '
                  'control/collection.rs, deferred.rs, transport/reader.rs pop_request) tied by differential '
                  'execution of the REAL OutstationTask (real link layer, transport, parser, session, '
                  'database) over an in-memory pipe on a paused clock',
                  'application / control-handler callbacks are scripted identically on both sides',
                  'database component behind the `Db` interface (event buffer / static database)'],
 'assumptions': ['tokio timer and Notify semantics; xxh64 collision-free on compared fragments (model '
                 'compares octets)'],
 'level_text': 'Lean theorems over the session model (match_operate as an iff; OPERATE actuates only with a '
               'recorded matching select; where the select state comes from; frame-id law; trace theorem '
               'operate_needs_select: an actuation implies its own fresh successful SELECT with nothing but '
               'retransmissions of that SELECT in between, for runs shorter than 2^32 inputs) for all states '
               'and histories; tie: differential correspondence of the real OutstationTask vs the model on '
               "generated control histories + trace monitor stating the property on the implementation's "
               'trace',
 'level_note': 'trusted: Lean kernel, harness, scripted callbacks; Rust modelled not verified; runtime '
               'scheduling outside the model'}
