"""check configuration for C12"""

CFG = {'module': 'Dnp3.Props.C12',
 'gen': [],
 'engines': ['outstation', 'outstationdb'],
 'monitors': ['solicited_uns_clear',
              'control_request_refused_as_a_whole',
              'solicited_correlated',
              'series_consecutive',
              'unsolicited_shape',
              'unsolicited_numbering',
              'fits_and_parses',
              'silent_functions',
              'rejection_flagged',
              'no_panic',
              'no_stall',
              'resend_is_earlier_fragment'],
 'rule': 'engine outstation: session histories (3-40 ops) from a weighted grammar over every function code '
         'the outstation executes (+ unknown codes, response codes, bad control flags, truncated fragments), '
         'valid and malformed object headers, byte-identical repeats, solicited/unsolicited confirms with '
         'right and wrong sequence numbers, clock advances to t-1/t/t+1 of the configured timeouts, '
         'broadcasts of all three modes, foreign masters, self address, disconnects; configurations over tx '
         'sizes 249..2048, unsolicited on/off, retry limits none/0/1/3, any-master, broadcast, max-controls. '
         'Each history runs the real task and the model; monitors evaluate the property predicates on the '
         "implementation's trace with an independent decoder. engine outstationdb: the same session grammar "
         'over a populated database (binary and analog points in classes 0-3, event buffers of 1-20 per '
         'type, big databases forcing multi-fragment READ series), update transactions interleaved at every '
         'point, READs by class / type / range / variation / count, unsolicited series, confirms right / '
         'wrong / late / missing, timeouts, aborting requests, ENABLE/DISABLE_UNSOLICITED, disconnects; an '
         'event ledger (recorded / carried / released) and a mirrored reference database are kept by the '
         'monitors. ',
 'trusted_base': ['hand-written Lean model of outstation/session.rs (+ control/select.rs, '
                  'control/collection.rs, deferred.rs, transport/reader.rs pop_request) tied by differential '
                  'execution of the REAL OutstationTask (real link layer, transport, parser, session, '
                  'database) over an in-memory pipe on a paused clock',
                  'application / control-handler callbacks are scripted identically on both sides',
                  'hand-written Lean model of outstation/database/** (event buffer, static database, '
                  'response writers) tied by differential execution of the real Database (engine db) and of '
                  'the real OutstationTask (engine outstationdb)'],
 'assumptions': ['tokio timer and Notify semantics; xxh64 collision-free on compared fragments (model '
                 'compares octets)'],
 'level_text': 'Lean theorems over the session model (shape and correlation of every transmitted fragment, '
               'silent functions, rejection flagged, every rejected header of a WRITE included; the control '
               'functions always return: an OPERATE whose echo does not fit the solicited buffer is answered '
               'with the truncated echo, D1 repaired - the silent truncation of SELECT / OPERATE / '
               'DIRECT_OPERATE echoes is the remaining finding D13) for all states and '
               'requests; tie: correspondence of the real task vs model over the request space + trace '
               'monitors',
 'level_note': 'trusted: Lean kernel, harness, scripted callbacks; Rust modelled not verified; runtime '
               'scheduling outside the model; the session model has no panic left (C01 '
               'outstation_step_no_panic, unconditional over reachable states)'}
