"""check configuration for C12"""

CFG = {'module': 'Dnp3.Props.C12',
 'gen': [],
 'engines': ['outstation'],
 'monitors': ['solicited_uns_clear',
              'solicited_correlated',
              'series_consecutive',
              'unsolicited_shape',
              'unsolicited_numbering',
              'fits_and_parses',
              'silent_functions',
              'rejection_flagged',
              'no_panic',
              'no_stall'],
 'rule': 'engine outstation: session histories (3-40 ops) from a weighted grammar over every function code '
         'the outstation executes (+ unknown codes, response codes, bad control flags, truncated fragments), '
         'valid and malformed object headers, byte-identical repeats, solicited/unsolicited confirms with '
         'right and wrong sequence numbers, clock advances to t-1/t/t+1 of the configured timeouts, '
         'broadcasts of all three modes, foreign masters, self address, disconnects; configurations over tx '
         'sizes 249..2048, unsolicited on/off, retry limits none/0/1/3, any-master, broadcast, max-controls. '
         'Each history runs the real task and the model; monitors evaluate the property predicates on the '
         "implementation's trace with an independent decoder.",
 'trusted_base': ['hand-written Lean model of outstation/session.rs (+ control/select.rs, '
                  'control/collection.rs, deferred.rs, transport/reader.rs pop_request) tied by differential '
                  'execution of the REAL OutstationTask (real link layer, transport, parser, session, '
                  'database) over an in-memory pipe on a paused clock',
                  'application / control-handler callbacks are scripted identically on both sides',
                  'database component behind the `Db` interface (event buffer / static database)'],
 'assumptions': ['tokio timer and Notify semantics; xxh64 collision-free on compared fragments (model '
                 'compares octets)'],
 'level_text': 'Lean theorems over the session model (shape and correlation of every transmitted fragment, '
               'silent functions, rejection flagged with the exact WRITE exception) for all states and '
               'requests; tie: correspondence of the real task vs model over the request space + trace '
               'monitors',
 'level_note': 'trusted: Lean kernel, harness, scripted callbacks; Rust modelled not verified; runtime '
               'scheduling outside the model'}
