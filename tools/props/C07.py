"""check configuration for C07"""

CFG = {'module': 'Dnp3.Props.C07',
 'gen': ['Link.lean'],
 'engines': ['linkaddr', 'transport', 'outstation'],
 'monitors': ['acts_only_if_addressed',
              'delivered_data_is_from_accepted_frame',
              'broadcast_never_acked',
              'link_status_answered',
              'confirmed_once_per_toggle',
              'foreign_master_silent',
              'broadcast_never_answered',
              # the assembler must never attribute octets of one source to another (same-FrameInfo rule)
              'delivered_fragment_is_contiguous_run'],
 'exhaustive_quick': True,
 'exhaustive_thorough': True,
 'rule': 'engine linkaddr: exhaustive link addressing table = 256 control octets x 7 destination classes x 4 '
         'source classes x 3 secondary states x role x self-address feature (quick: full 256 octets for '
         'every combination with a valid source or own destination, stride 5 elsewhere; thorough: all), '
         'through the real transport Reader/link Layer over the pipe; plus random confirmed-data FCB '
         'histories with resets and broadcasts',
 'trusted_base': ['hand-written Lean transcription of Layer::process_header tied by the exhaustive table '
                  'through the real Layer',
                  'link masks/function codes/special addresses regenerated from source'],
 'assumptions': ['application-level part (foreign master / broadcast fragments in the outstation session) is '
                 'covered by the outstation engine when built'],
 'level_text': 'Lean theorems over processHeader for every control octet, address and secondary state (acts '
               'only if addressed, broadcasts never acknowledged, link status answered, confirmed data once '
               'per FCB toggle) and over the session model (a foreign master\'s fragment of ANY content has '
               'no effect beyond the frame counter; a broadcast fragment of ANY content is never answered: D6 '
               'repaired); tie: constants regenerated, exhaustive decision-table correspondence '
               'through the real link Layer, outstation engine for the application part',
 'level_note': 'trusted: Lean kernel, translate.py, harness; Rust modelled not verified'}
