"""check configuration for C06"""

CFG = {'module': 'Dnp3.Props.C06',
 'gen': ['Link.lean', 'CrcTable.lean'],
 'engines': ['link'],
 'monitors': None,
 'exhaustive_thorough': True,
 'rule': 'engine link: (1) format of all 256 control octets and all app lengths 0..251; (2) every payload '
         'length 0..=250 x single split points (all of them in thorough); (3) multi-frame streams under 6 '
         'chunking styles; (4) bit errors of weight 1,2,3 and heavier (thorough: every single-bit error of '
         'one frame per length); (5) discard-mode noise prefixes; (6) datagram sequences. distinct = '
         'distinct canonical op lists; every case runs the real Reader/Parser over the pipe',
 'trusted_base': ['hand-written Lean model of link/{parser,reader,format}.rs tied by differential execution '
                  '(engine link)',
                  'CRC table, CRC_OF_0564 and link constants regenerated from source (Gen/Link.lean)',
                  'physical layer read contract (returns 1..=len octets) assumed; real sockets not modelled'],
 'assumptions': ['PhysLayer::read returns between 1 and buffer.len() octets'],
 'level_text': 'Lean theorems about the link parser/reader/CRC model for all frames, payload lengths, '
               'chunkings and error patterns (parser soundness, CRC table = bit-serial CRC-16/DNP, round '
               'trip), model tied to the code by the regenerated CRC table/constants and by differential '
               'execution of the real Reader/Parser/format functions against the compiled model, with '
               'exhaustive split-point and single-bit-error engines',
 'level_note': 'trusted: Lean kernel (+ propext/Classical.choice/Quot.sound), translate.py, the '
               'correspondence harness; the Rust is modelled, not verified; physical read contract assumed'}
