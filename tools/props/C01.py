"""check configuration for C01"""

CFG = {'module': 'Dnp3.Props.C01',
 'gen': ['PanicSites.lean',
         'Link.lean',
         'CrcTable.lean',
         'Variations.lean',
         'Qualifiers.lean',
         'AppCodes.lean'],
 'engines': ['rawbytes', 'parse', 'file70', 'outstation', 'outstationdb', 'db', 'master', 'pairtcp'],
 'monitors': ['no_panic', 'no_stall', 'keeps_serving'],
 'rule': 'engine rawbytes (SEARCH ONLY, no Lean-model counterpart: nothing is diffed, the three monitors '
         'decide): the REAL OutstationTask (link layer, transport, parser, session, database) over an '
         'in-memory pipe on a paused clock, configured over rx/tx buffer sizes {249, 300/512, 2048}, both '
         'link error modes, all four decode levels on all four layers (a formatting tracing subscriber makes '
         'every Display path run), unsolicited on/off, with a database of 0-12 binary and 0-70 analog points '
         'and events; driven into idle / solicited confirm wait of an event-bearing response / mid '
         'multi-fragment series / unsolicited confirm wait / SELECT armed, then fed ONE hostile input, then '
         'a liveness probe (REQUEST_LINK_STATUS answered with LINK_STATUS; READ class 0 from the configured '
         'master answered to the end of its series; each repeated until answered, at most 40 times = one '
         'maximal frame of further well-formed traffic, because a frame header announcing a long body '
         'legitimately absorbs up to 282 following octets; after a session end in Close mode the harness '
         'reconnects and probes the next session). Hostile inputs: (1) every function code 0..255 x {no '
         'objects, valid header, boundary header} in every state (exhaustive over the code); (2) application '
         'fragments: object headers over every known group/variation + group 0 / 70 / 110-113 + random, 12 '
         'qualifier octets + random, counts 0/1/255/256/65535, ranges [0,0] [0,255] [255,255] [0,65535] '
         '[65535,65535] [65534,65535] stop<start, free-format lengths 0..65535, payload absent / short / '
         'implied / implied-1 / long; random objects up to 2047 octets; mutated / truncated / extended / '
         'header-duplicated valid requests; confirms and responses as requests; fragments of exactly rx-1, '
         'rx, rx+1, 2rx octets; OPERATE / DIRECT_OPERATE variants after a SELECT; 1..255 control objects; '
         '(3) link level: bad header / body CRCs, partial frames, foreign / broadcast / reserved / own '
         'addresses, every link control octet with and without payload, 292-octet frames, 3-20 back-to-back '
         'frames in one write, byte-at-a-time and 2/5/9/10/11/18/27/28/100-octet chunking, random octets up '
         'to 5000 with sprinkled start octets, bad length octets, bad start octets, transport segments with '
         'missing FIR / FIN, wrong sequence numbers, foreign sources, empty payloads, rx overflow; valid / '
         'garbage / valid splices; (4) long mixed sessions; (5) event buffers of 1-3 events (overflow while '
         'responses are outstanding). engine parse: the direct probes of ParsedFragment::parse, every lazy '
         'iterator and Display at all four decode levels under catch_unwind (monitor no_panic; see C09). '
         'engine outstation: the session-history grammar of C12 with monitors no_panic / no_stall. distinct '
         '= distinct canonical op lists; engine outstationdb: the same over a populated database '
         '(event-buffer overflow during confirm waits); engine master: the real MasterTask over the pipe fed '
         'response / unsolicited fragments (well-formed, stale, foreign, unparsable) in every task state, '
         'monitors no_panic / no_spin (see C15); engine pairtcp (SEARCH ONLY, see C02: both endpoints '
         'through the public TCP API - dnp3::tcp::Server and spawn_master_tcp_client - on a multi-threaded '
         'runtime in real time behind a byte-level proxy that cuts at any octet, refuses, half-opens, '
         're-chunks and flips bits): monitors no_panic (panic hook per case, JoinHandles of the outstation '
         'and server tasks, the master channel still answers), no_hang (every user request completes or '
         'fails, the user thread is never blocked, wall-clock watchdog) and reconnects_after_cut (the '
         'session that ends - cleanly in Close mode after a flipped bit, or by a cut - is followed by the '
         'next one: back-off law exact, reconnect within its delay + 6 s, start-up sequence answered on the '
         'last connection). engine db: operation sequences straight on the real Database (all eight point types, every event / static variation, per-type capacities, times going forwards and backwards): every operation runs under catch_unwind with overflow checks on, monitor no_panic (S103: relative-time encoding of an event older than its common time)',
 'trusted_base': ['tools/gen_panic_sites.py: token-level scanner (comments, strings, attributes, '
                  '#[cfg(test)] items stripped) listing unwrap/expect/panic-family macros/indexing/panicking '
                  'slice calls/arithmetic operators of the 21 anchor files + 25 peer-reachable helper '
                  'modules; what it does not list is stated in Gen.scannerLimits',
                  'the hand-written classification of every listed site in Props/C01.lean (one-line '
                  'justification each, made by reading the site); `all_sites_classified` only proves that no '
                  'listed site is unclassified',
                  'hand-written Lean models of link parser / reader / layer, transport reader / assembler, '
                  'object-header walk, lazy iterators and the outstation session, tied to the code by the '
                  'regenerated tables and by the differential engines link, transport, parse, outstation '
                  '(properties C06-C09, C12)',
                  'the database component behind the `Db` interface is treated as opaque by the '
                  'session-level C01 theorems; the one database fact they need (exact counters, hence no '
                  "underflow in unwritten_classes) is the database model's counters_exact (tied by engines "
                  'db / outstationdb, properties C03 / C13)',
                  'harness/src/eng_rawbytes.rs (reference framer, reference CRC, D1/D2/D3 cause predicates, '
                  'probe) and hooks/trace_sink.rs (formatting tracing subscriber; observation only)'],
 'assumptions': ['role master: search only (engine master, monitors no_panic / no_spin on the real '
                 'MasterTask); D26 (synchronous spin in Association::next_task for auto time sync with retry '
                 'delay 0 and no clock) is a configuration-triggered finding kept as findings/D26.ops and '
                 'not replayed in-process',
                 'allocation failure, stack depth, the tokio executor and timer, panics inside std / scursor '
                 '/ tokio callees are outside the model and outside the inventory',
                 'keeps serving is read as: service resumes within one maximal frame (292 octets) of further '
                 'well-formed traffic; a frame lost to resynchronisation right after garbage (cf. D10) is '
                 'not counted as a failure to serve',
                 'keep-alive period 0 is excluded in outstation_never_spins (configuration, not peer input)'],
 'level_text': 'Lean theorems for ALL inputs and states: the link discard loop, the link read loop, the '
               'transport read / drain loops never depend on their fuel (progress per iteration: no spin) '
               'and keep their buffer invariants (the slice indexing and expects of link/reader.rs and '
               'transport/real/assembler.rs cannot fail); every accepted object header consumes >= 3 octets; '
               'the lazy iterators cannot overflow (D2 repaired: fix 320622f); outstation_step_no_panic, '
               'unconditional over reachable states: for every configuration, every state of every trace '
               'from construction and every input the outstation session model neither panics nor leaves the '
               'task dead (D1 repaired: an OPERATE whose echo does not fit the solicited buffer is answered '
               'with the truncated echo like SELECT / DIRECT_OPERATE, no request handler returns a panic; D3 '
               'repaired: the event-counter subtraction of unwritten_classes cannot underflow on a database '
               'reachable from a fresh one, counters_exact / no_counter_underflow), and its idle loop never '
               'needs a 4th consecutive pass; plus the complete, regenerated panic-site inventory of the '
               'anchor files with every site classified and no known-finding site left (decide). Search: the '
               'rawbytes engine against the real task',
 'level_note': 'proof: the outstation no-panic theorem is unconditional over reachable states; D1, D2 and D3 '
               'are repaired (regression corpus, the cause= tags stay in the monitors); trusted: Lean '
               'kernel, translate.py + gen_panic_sites.py, the hand classification, the correspondence '
               'harness; the Rust is modelled, not verified; master role covered by search only (engine '
               'master: no_panic / no_spin), no master no-panic theorem',
 'engine_monitors': {'master': ['no_panic', 'no_spin'],
                     'db': ['no_panic'],
                     'file70': ['no_panic'],
                     'parse': ['no_panic'],
                     'outstation': ['no_panic', 'no_stall'],
                     'outstationdb': ['no_panic', 'no_stall', 'series_makes_progress'],
                     'pairtcp': ['no_panic', 'no_hang', 'reconnects_after_cut', 'harness_ok']}}
