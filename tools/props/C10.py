"""check configuration for C10"""

CFG = {'module': 'Dnp3.Props.C10',
 'gen': ['Conversions.lean'],
 'engines': ['convert', 'db', 'outstationdb'],
 'monitors': None,
 'exhaustive_quick': True,
 'exhaustive_thorough': True,
 'rule': 'engine convert: real Database (add/update) -> select -> write_response_headers (all fragments, '
         'each confirmed) -> ParsedFragment::parse -> extract_measurements -> recording ReadHandler. (A) '
         'type x configured static variation x requested variation (0 = none) EXHAUSTIVELY, 256 points per '
         'case = every flag octet; (B) type x configured event variation x requested event variation '
         'EXHAUSTIVELY; (C) the analog boundary pool (i16/i32/f32 bounds +-1 and +-1 ulp, halves, +-0, '
         'subnormals, NaN payloads, +-inf, f32 rounding ties) and every power of two 2^-1074..2^1023 (quick: '
         'all in [-160,140] and the extremes, stride 7 elsewhere) through all 14+12 analog variations, '
         'counters around 2^16 / 2^31 / 2^32 through all counter variations; (D) event lists sharing '
         'g2v3/g4v3 common-time headers with gaps <,=,> 65535 ms, decreasing times, quality switches, '
         'missing times, interleaved types, several fragments; (E) dense (quick 3001 points, thorough 65536) '
         'and sparse index sets up to 65535, packed formats with islands of non-ONLINE points; (F) mixed '
         'multi-type scenarios with class / count-limited reads and event-buffer overflow. distinct = '
         'distinct canonical op lists; every case drives the real outstation database writer and the real '
         'master parser/extractor Engines db and outstationdb (the real Database / the real OutstationTask '
         'over a populated database, see C11): every response and unsolicited fragment the database writers '
         'emit, at every capacity and resumption point, is decoded by an independent decoder and compared '
         'with the mirrored reference database.',
 'trusted_base': ['hand-written Lean model Dnp3/Model/Measurement.lean of app/measurement.rs '
                  '(meaning of the guards / casts of to_i16/to_i32/to_f32; their branch lists are '
                  'generated), app/extensions.rs (wire flags), range/traits.rs (promote), '
                  'event/write_fn.rs + event/writer.rs (common-time header switching), master/convert.rs + '
                  'master/extract.rs (common-time fold), tied by differential execution (engine convert: '
                  'handler output predicted line by line)',
                  'the 138 ToVariation/From impls of app/gen/conversion.rs are regenerated into '
                  'Gen/Conversions.lean on every run (tools/gen_conversions.py); model, driver and theorems '
                  'interpret that table; the same generator translates the default methods of trait '
                  'AnalogConversions (app/measurement.rs: early-return guards is_nan / < MIN / > MAX, flag '
                  'and value expressions, in source order; OVER_RANGE resolved through util/bit.rs; '
                  'accessor and with_bits_set shapes checked) into Gen.Conv.analogConvs, which '
                  'toI16/toI32/toF32 interpret',
                  'IEEE-754 f64->f32 rounding: the model computes it by integer round-to-nearest-even '
                  '(f64ToF32Bits) and cross-checks the value the harness supplies from its own integer '
                  'implementation, which is self-checked against the host FPU on every value; the theorems '
                  'hold for any rounding (r32 is a parameter); NaN payload propagation is the hardware '
                  'convention (quieted, top bits kept)',
                  'octet encoding of object fields and headers is not part of this model (C09); the engine '
                  'runs the real encoder and parser',
                  'harness reference (eng_convert.rs::Ref) = independent statement of the property used by '
                  'the monitors',
                  'hand-written Lean model of outstation/database/** (event buffer, static database, '
                  'response writers) tied by differential execution of the real Database (engine db) and of '
                  'the real OutstationTask (engine outstationdb)'],
 'assumptions': ['zero-length octet strings are not generated (the library documents that it does not parse '
                 'them by default)',
                 'absolute-time variations carry no time quality: the master reports them as synchronized; a '
                 'point without a time is sent as time 0',
                 'flag-less non-packed variations (g20v5/6, g21v9/10, g30v3/4) drop the flag octet as '
                 'configured: the library promotes only g1v1/g3v1/g10v1 (counted in partition '
                 'obs_flagless_variation_dropped_non_online_flags)'],
 'level_text': 'Lean theorems for ALL values about the conversion model: integer saturation = clamp(trunc) '
               'with OVER_RANGE iff not representable (NaN and +-inf included: NaN -> 0 + OVER_RANGE, former '
               'D11 repaired) and no wrap / sign flip; integers of the range arrive unchanged; 16-bit counters '
               '= value mod 65536; packed variations only for plainly ONLINE points and the flagged '
               'variation carries the whole octet; common-time reconstruction for every event list in any '
               'order with the exact header-switch rule; per-variation round trip = carry over every row of '
               'the regenerated conversions table against a hand-written object-library specification. Tie: '
               'conversion.rs and the AnalogConversions branch lists regenerated each run + object-level '
               'differential execution database -> '
               'handler, exhaustive over (type x configured x requested variation)',
 'level_note': 'trusted: Lean kernel (+ propext/Classical.choice/Quot.sound), '
               'translate.py/gen_conversions.py, the correspondence harness; the Rust is modelled, not '
               'verified; byte encoding is C09',
 'engine_monitors': {'db': ['series_is_exact_snapshot'],
                     'outstationdb': ['series_covers_exactly_once_snapshot']}}
