#!/bin/bash
# usage: mk_mut_worktree.sh <round> <Cxx>   -> /tmp/mut<round>_<Cxx> with PROPERTY.txt (property text only)
set -e
W=/tmp/mut$1_$2
git -C /repo worktree add --detach "$W" HEAD >/dev/null 2>&1
python3 - "$2" "$W" <<'P'
import json,sys
pid,w=sys.argv[1],sys.argv[2]
for l in open('/verif/properties.jsonl'):
    p=json.loads(l)
    if p['id']==pid:
        with open(w+'/PROPERTY.txt','w') as f:
            f.write(f"PROPERTY {p['id']}: {p['title']}\n\nSTATEMENT\n{p['statement']}\n\nQUANTIFIED OVER\n{json.dumps(p['quantifier'],indent=1)}\n\nWHY TESTS CANNOT SETTLE IT\n{p.get('why_tests_cant','')}\n\nANCHORS\n{json.dumps(p['anchors'],indent=1)}\n")
P
mkdir -p "$W/out"
echo "$W"
