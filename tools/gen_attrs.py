"""gen_attrs.py -- Gen/Attrs.lean: the tables of the device-attribute (group 0) code.

Regenerated from the Rust source on every run:

  dnp3/src/app/attr.rs
    * the attribute data-type codes: the `const X: u8`, `enum AttrDataType`, the arms of
      `impl From<AttrDataType> for u8` and of `AttrDataType::get`
    * `pub mod var` (named variations of the default set)
    * every per-kind enum `<K>Attr` (`StringAttr`, `UIntAttr`, ...): the arms of `variation()`, the
      `expect_*` call of `extract`, and what data type that `expect_*` demands
    * `AnyAttribute::try_from`: the arms `var::X => <K>Attr::<V>.extract(..)` -> (variation, demanded type),
      cross-checked against `<K>Attr::<V>.variation()`
    * `UInt::new` / `Int::new` width thresholds, `parse_attr_list` / `ExtAttrList` constants
  dnp3/src/outstation/database/details/attrs/map.rs
    * `Variation::create` (reserved variations), `Variation::can_be_written`
  dnp3/src/outstation/database/details/attrs/mod.rs
    * `Selected::all` (first / last variation of "all attributes"), `get_list_encoding` constants
  dnp3/src/outstation/database/details/database.rs
    * `AttrHandler::new(<max selected>)`

A construct that does not have the expected shape is a broken tie (`api.broken`), never skipped.
"""
import re

G = "Attrs.lean"
ATTR = "dnp3/src/app/attr.rs"
MAP = "dnp3/src/outstation/database/details/attrs/map.rs"
MOD = "dnp3/src/outstation/database/details/attrs/mod.rs"
DB = "dnp3/src/outstation/database/details/database.rs"


def block(text, start_re):
    """text of the brace group that follows the first match of start_re (which must end just before `{`)"""
    m = re.search(start_re, text)
    if not m:
        return None
    i = text.find("{", m.end() - 1)
    if i < 0:
        return None
    depth = 0
    j = i
    while j < len(text):
        if text[j] == "{":
            depth += 1
        elif text[j] == "}":
            depth -= 1
            if depth == 0:
                return text[i + 1 : j]
        j += 1
    return None


def lean_name(rust_variant):
    return rust_variant[0].lower() + rust_variant[1:]


def generate(api):
    bad = lambda what: api.broken("translator:%s:%s" % (G, what))
    a = api.strip_tests(api.strip_comments(api.src(ATTR)))

    # ---- pub mod var -------------------------------------------------------------------------
    varmod = block(a, r"pub\s+mod\s+var\s*\{")
    var = {}
    if varmod is None:
        bad("attr.rs:mod var")
    else:
        for m in re.finditer(r"pub\s+const\s+([A-Z0-9_]+)\s*:\s*u8\s*=\s*(\d+)\s*;", varmod):
            var[m.group(1)] = int(m.group(2))
        n_decl = len(re.findall(r"\bconst\b", varmod))
        if n_decl != len(var) or not var:
            bad("attr.rs:mod var:%d const items, %d parsed" % (n_decl, len(var)))
        if len(set(var.values())) != len(var):
            bad("attr.rs:mod var:two names share a value")

    # ---- data type codes ---------------------------------------------------------------------
    outside = a.replace(varmod, "") if varmod else a
    codes = {}
    for m in re.finditer(r"^const\s+([A-Z0-9_]+)\s*:\s*u8\s*=\s*(\d+)\s*;", outside, flags=re.M):
        codes[m.group(1)] = int(m.group(2))
    enum = block(a, r"enum\s+AttrDataType\s*\{")
    variants = re.findall(r"\b([A-Z][A-Za-z0-9]*)\s*,", enum or "")
    if not variants:
        bad("attr.rs:enum AttrDataType")
    to_u8 = {}
    body = block(a, r"impl\s+From<AttrDataType>\s+for\s+u8\s*\{")
    if body is None:
        bad("attr.rs:From<AttrDataType> for u8")
    else:
        arms = re.findall(r"AttrDataType::(\w+)\s*=>\s*([A-Z0-9_]+|\d+)\s*,", body)
        for v, c in arms:
            if c.isdigit():
                to_u8[v] = int(c)
            elif c in codes:
                to_u8[v] = codes[c]
            else:
                bad("attr.rs:From<AttrDataType> for u8:%s" % c)
        if body.count("=>") != len(arms):
            bad("attr.rs:From<AttrDataType> for u8:arm shape")
    for v in variants:
        if v not in to_u8:
            bad("attr.rs:From<AttrDataType> for u8:no arm for %s" % v)
    get_rows = []
    impl_dt = block(a, r"impl\s+AttrDataType\s*\{")
    getb = block(impl_dt or "", r"fn\s+get\s*\(\s*value\s*:\s*u8\s*\)\s*->\s*Option<AttrDataType>\s*\{")
    if getb is None:
        bad("attr.rs:AttrDataType::get")
    else:
        arms = re.findall(r"([A-Z0-9_]+|\d+)\s*=>\s*Some\(\s*(?:Self|AttrDataType)::(\w+)\s*\)\s*,", getb)
        for c, v in arms:
            if c.isdigit():
                get_rows.append((int(c), v))
            elif c in codes:
                get_rows.append((codes[c], v))
            else:
                bad("attr.rs:AttrDataType::get:%s" % c)
        if not re.search(r"_\s*=>\s*None\s*,", getb) or getb.count("=>") != len(arms) + 1:
            bad("attr.rs:AttrDataType::get:arm shape")
        if not re.search(r"match\s+value\s*\{", getb):
            bad("attr.rs:AttrDataType::get:scrutinee")

    # ---- expect_* -> demanded data type ------------------------------------------------------
    expect = {}
    for m in re.finditer(r"fn\s+(expect_\w+)\s*\(\s*&self\s*\)\s*->\s*Result<[^{]*\{", a):
        name = m.group(1)
        b = block(a[m.start():], r"fn\s+" + name + r"\s*\([^)]*\)\s*->\s*Result<[^{]*\{")
        if b is None:
            bad("attr.rs:%s" % name)
            continue
        d = re.fullmatch(r"\s*Ok\(\s*self\.(expect_\w+)\(\)\?\s*==\s*1\s*\)\s*", b)
        if d:
            expect[name] = ("delegate", d.group(1))
            continue
        mm = re.fullmatch(
            r"\s*match\s+self\s*\{\s*AttrValue::(\w+)\(\s*\w+\s*\)\s*=>\s*Ok\(\s*\*?\w+\s*\)\s*,\s*"
            r"_\s*=>\s*Err\(\s*TypeError::new\(\s*AttrDataType::(\w+)\s*,\s*self\.get_type\(\)\s*\)\s*\)\s*,\s*\}\s*", b)
        if not mm:
            bad("attr.rs:%s:shape" % name)
            continue
        expect[name] = ("type", mm.group(2), mm.group(1))
    def demanded(name, depth=0):
        e = expect.get(name)
        if e is None or depth > 3:
            return None
        if e[0] == "delegate":
            return demanded(e[1], depth + 1)
        return e[1]

    # `AttrValue::get_type`: the actual type reported in a TypeError
    gt = block(a, r"fn\s+get_type\s*\(\s*&self\s*\)\s*->\s*AttrDataType\s*\{")
    get_type = dict(re.findall(r"AttrValue::(\w+)\(\s*_\s*\)\s*=>\s*AttrDataType::(\w+)\s*,", gt or ""))
    if not get_type or (gt or "").count("=>") != len(get_type):
        bad("attr.rs:AttrValue::get_type")

    # ---- per-kind enums ----------------------------------------------------------------------
    kinds = {}       # kind -> (expect fn, {variant: value})
    for m in re.finditer(r"impl\s+(\w+Attr)\s*\{", a):
        k = m.group(1)
        b = block(a[m.start():], r"impl\s+" + k + r"\s*\{")
        if b is None or "fn extract" not in b:
            continue
        ex = block(b, r"fn\s+extract\s*\([^)]*\)\s*->\s*Result<[^{]*\{")
        em = re.findall(r"value\.(expect_\w+)\(\)\?", ex or "")
        if len(em) != 1:
            bad("attr.rs:%s::extract" % k)
            continue
        vb = block(b, r"fn\s+variation\s*\(\s*self\s*\)\s*->\s*u8\s*\{")
        rows = {}
        if vb is None:
            bad("attr.rs:%s::variation" % k)
            continue
        arms = re.findall(r"(\w+)::(\w+)\s*=>\s*\{?\s*(var::[A-Z0-9_]+|\d+)\s*\}?\s*,?", vb)
        for kk, v, val in arms:
            if kk != k:
                bad("attr.rs:%s::variation:arm %s::%s" % (k, kk, v))
            if val.isdigit():
                rows[v] = int(val)
            elif val[5:] in var:
                rows[v] = var[val[5:]]
            else:
                bad("attr.rs:%s::variation:%s" % (k, val))
        if vb.count("=>") != len(arms) or not arms:
            bad("attr.rs:%s::variation:arm shape" % k)
        kinds[k] = (em[0], rows)
    if not kinds:
        bad("attr.rs:no <K>Attr enum found")

    # ---- AnyAttribute::try_from --------------------------------------------------------------
    default_rows = []     # (variation, demanded type)
    tf = block(a, r"pub\s+fn\s+try_from\s*\(\s*attr\s*:\s*&Attribute<'a>\s*\)\s*->\s*Result<Self,\s*TypeError>\s*\{")
    if tf is None:
        bad("attr.rs:AnyAttribute::try_from")
    else:
        if not re.search(r"if\s+let\s+AttrSet::Private\(_\)\s*=\s*attr\.set\s*\{\s*return\s+Ok\(AnyAttribute::Other\(\*attr\)\);\s*\}", tf):
            bad("attr.rs:AnyAttribute::try_from:private-set early return")
        mb = block(tf, r"match\s+attr\.variation\s*\{")
        if mb is None:
            bad("attr.rs:AnyAttribute::try_from:match")
        else:
            arms = re.findall(r"var::([A-Z0-9_]+)\s*=>\s*\{?\s*(\w+)::(\w+)\.extract\(attr\.value\)\?\s*\}?\s*,?", mb)
            if mb.count("=>") != len(arms) + 1 or not re.search(r"_\s*=>\s*return\s+Ok\(AnyAttribute::Other\(\*attr\)\)\s*,", mb):
                bad("attr.rs:AnyAttribute::try_from:arm shape (%d arrows, %d arms)" % (mb.count("=>"), len(arms)))
            seen = set()
            for cname, k, v in arms:
                if cname not in var:
                    bad("attr.rs:AnyAttribute::try_from:var::%s" % cname)
                    continue
                if k not in kinds or v not in kinds[k][1]:
                    bad("attr.rs:AnyAttribute::try_from:%s::%s" % (k, v))
                    continue
                if kinds[k][1][v] != var[cname]:
                    bad("attr.rs:AnyAttribute::try_from:var::%s (%d) extracts %s::%s whose variation() is %d" % (cname, var[cname], k, v, kinds[k][1][v]))
                t = demanded(kinds[k][0])
                if t is None:
                    bad("attr.rs:AnyAttribute::try_from:%s" % kinds[k][0])
                    continue
                if var[cname] in seen:
                    bad("attr.rs:AnyAttribute::try_from:duplicate arm %d" % var[cname])
                seen.add(var[cname])
                default_rows.append((var[cname], t))

    # ---- integer widths ----------------------------------------------------------------------
    un = block(block(a, r"impl\s+UInt\s*\{") or "", r"fn\s+new\s*\(\s*value\s*:\s*u32\s*\)\s*->\s*Self\s*\{")
    um = re.fullmatch(
        r"\s*if\s+value\s*<=\s*u8::MAX\s+as\s+u32\s*\{\s*Self::U8\(value\s+as\s+u8\)\s*\}\s*else\s+if\s+value\s*<=\s*u16::MAX\s+as\s+u32\s*\{\s*"
        r"Self::U16\(value\s+as\s+u16\)\s*\}\s*else\s*\{\s*Self::U32\(value\)\s*\}\s*", un or "")
    if not um:
        bad("attr.rs:UInt::new")
    impl_int = block(a, r"impl\s+Int\s*\{") or ""
    r8 = re.search(r"const\s+I8_RANGE\s*:\s*core::ops::Range<i32>\s*=\s*i8::MIN\s+as\s+i32\s*\.\.\s*i8::MAX\s+as\s+i32\s*;", impl_int)
    r16 = re.search(r"const\s+I16_RANGE\s*:\s*core::ops::Range<i32>\s*=\s*i16::MIN\s+as\s+i32\s*\.\.\s*i16::MAX\s+as\s+i32\s*;", impl_int)
    inew = block(impl_int, r"fn\s+new\s*\(\s*value\s*:\s*i32\s*\)\s*->\s*Self\s*\{")
    im = re.fullmatch(
        r"\s*if\s+Self::I8_RANGE\.contains\(&value\)\s*\{\s*Self::I8\(value\s+as\s+u8\)\s*\}\s*else\s+if\s+Self::I16_RANGE\.contains\(&value\)\s*\{\s*"
        r"Self::I16\(value\s+as\s+i16\)\s*\}\s*else\s*\{\s*Self::I32\(value\)\s*\}\s*", inew or "")
    if not (r8 and r16 and im):
        bad("attr.rs:Int::new / I8_RANGE / I16_RANGE")

    # ---- list lengths (parser side) -----------------------------------------------------------
    pm = re.search(r"AttrDataType::ExtAttrList\s*=>\s*\{\s*let\s+len\s*=\s*len\s+as\s+u16\s*\+\s*(\d+)\s*;", a)
    if not pm:
        bad("attr.rs:AttrValue::parse:ExtAttrList length")
    pl = block(a, r"fn\s+parse_attr_list\s*\([^)]*\)\s*->\s*Result<[^{]*\{")
    plm = re.search(r"if\s+len\s*%\s*(\d+)\s*!=\s*0\s*\{\s*return\s+Err\(AttrParseError::BadAttrListLength\(len\)\);\s*\}", pl or "")
    if not plm:
        bad("attr.rs:parse_attr_list")
    it = block(a, r"impl\s+Iterator\s+for\s+VariationListIter<'_>\s*\{")
    itm = re.search(r"self\.data\.first\(\)\?.*self\.data\.get\(1\)\?.*self\.data\.get\((\d+)\.\.\)", it or "", flags=re.S)
    if not itm:
        bad("attr.rs:VariationListIter::next")
    rb = re.search(r"const\s+READ_BIT\s*:\s*u8\s*=\s*(0x[0-9a-fA-F]+|\d+)\s*;", a)
    if not rb:
        bad("attr.rs:AttrProp::READ_BIT")

    # ---- map.rs --------------------------------------------------------------------------------
    mp = api.strip_tests(api.strip_comments(api.src(MAP)))
    cr = block(mp, r"fn\s+create\s*\(\s*value\s*:\s*u8\s*\)\s*->\s*Result<Self,\s*Reserved>\s*\{")
    crm = re.fullmatch(r"\s*match\s+value\s*\{\s*([0-9|\s]+)=>\s*Err\(Reserved\(value\)\)\s*,\s*_\s*=>\s*Ok\(Self\s*\{\s*value\s*\}\)\s*,\s*\}\s*", cr or "")
    reserved = []
    if not crm:
        bad("map.rs:Variation::create")
    else:
        reserved = [int(x) for x in crm.group(1).split("|")]
    cw = block(mp, r"fn\s+can_be_written\s*\(\s*self\s*\)\s*->\s*bool\s*\{")
    cwm = re.search(r"std::matches!\(\s*self\.value\s*,\s*((?:var::[A-Z0-9_]+\s*\|?\s*)+)\)", cw or "")
    writable = []
    if not cwm:
        bad("map.rs:Variation::can_be_written")
    else:
        for n in re.findall(r"var::([A-Z0-9_]+)", cwm.group(1)):
            if n in var:
                writable.append(var[n])
            else:
                bad("map.rs:Variation::can_be_written:var::%s" % n)
    # `define`: the default-set writable rule and the order of the checks
    df = block(mp, r"pub\(crate\)\s+fn\s+define\s*\([^)]*\)\s*->\s*Result<\(\),\s*AttrDefError>\s*\{")
    order = [
        r"let\s+variation\s*=\s*Variation::create\(attr\.variation\)\?;",
        r"let\s+_\s*=\s*AnyAttribute::try_from\(&attr\.view\(\)\)\?;",
        r"if\s+attr\.set\s*==\s*AttrSet::Default\s*&&\s*prop\.is_writable\(\)\s*&&\s*!variation\.can_be_written\(\)\s*\{\s*return\s+Err\(AttrDefError::NotWritable\(attr\.set,\s*attr\.variation\)\);\s*\}",
        r"match\s+self\.sets\.entry\(attr\.set\)",
    ]
    pos = -1
    for pat in order:
        m = re.search(pat, df or "")
        if not m or m.start() < pos:
            bad("map.rs:SetMap::define:check order / shape:%s" % pat[:30])
            break
        pos = m.start()

    # ---- attrs/mod.rs --------------------------------------------------------------------------
    md = api.strip_tests(api.strip_comments(api.src(MOD)))
    al = block(md, r"fn\s+all\s*\(\s*set\s*:\s*AttrSet\s*\)\s*->\s*Self\s*\{")
    alm = re.search(r"current\s*:\s*(\d+)\s*,\s*end\s*:\s*(\d+)\s*,", al or "")
    if not alm:
        bad("attrs/mod.rs:Selected::all")
    gl = block(md, r"fn\s+get_list_encoding\s*\(\s*num_items\s*:\s*usize\s*\)\s*->\s*Option<\(u8,\s*AttrDataType\)>\s*\{")
    glm = re.fullmatch(
        r"\s*if\s+let\s+Some\(len\)\s*=\s*num_items\.checked_mul\((\d+)\)\s*\{\s*match\s+len\.try_into\(\)\s*\{\s*"
        r"Ok\(x\)\s*=>\s*return\s+Some\(\(x,\s*AttrDataType::AttrList\)\)\s*,\s*Err\(_\)\s*=>\s*\{\s*"
        r"if\s+let\s+Some\(len\)\s*=\s*len\.checked_sub\((\d+)\)\s*\{\s*if\s+let\s+Ok\(x\)\s*=\s*len\.try_into\(\)\s*\{\s*"
        r"return\s+Some\(\(x,\s*AttrDataType::ExtAttrList\)\);\s*\}\s*\}\s*\}\s*\}\s*\}\s*None\s*", gl or "")
    if not glm:
        bad("attrs/mod.rs:get_list_encoding")
    lv = re.search(r"if\s+var\s*==\s*crate::app::attr::var::([A-Z0-9_]+)\s*\{", md)
    if not lv or lv.group(1) not in var:
        bad("attrs/mod.rs:write_all:list variation")
    db = api.strip_tests(api.strip_comments(api.src(DB)))
    ms = re.search(r"attrs\s*:\s*super::attrs::AttrHandler::new\((\d+)\)", db)
    if not ms:
        bad("database.rs:AttrHandler::new")

    # ---- emit ----------------------------------------------------------------------------------
    o = "/-! device attributes (group 0): tables regenerated by tools/gen_attrs.py -/\nnamespace Dnp3.Gen.Attrs\n\n"
    o += "/-- `enum AttrDataType` (dnp3/src/app/attr.rs) -/\ninductive DataType\n"
    for v in variants:
        o += "  | %s\n" % lean_name(v)
    o += "deriving DecidableEq, Repr, Inhabited\n\n"
    o += "/-- `impl From<AttrDataType> for u8` -/\ndef DataType.code : DataType → Nat\n"
    for v in variants:
        o += "  | .%s => %d\n" % (lean_name(v), to_u8.get(v, 0))
    o += "\n/-- the arms of `AttrDataType::get`, in source order (the `_` arm is `None`) -/\ndef codeTable : List (Nat × DataType) := [\n"
    o += ",\n".join("  (%d, .%s)" % (c, lean_name(v)) for c, v in get_rows if v in variants) + "]\n\n"
    o += "/-- `AttrValue::get_type`: parsed value constructor -> reported type -/\ndef getType : List (String × DataType) := [\n"
    o += ",\n".join('  ("%s", .%s)' % (k, lean_name(v)) for k, v in get_type.items() if v in variants) + "]\n\n"
    o += "/-- `pub mod var` -/\ndef varConsts : List (String × Nat) := [\n"
    o += ",\n".join('  ("%s", %d)' % (k, v) for k, v in var.items()) + "]\n\n"
    o += "/-- `<K>Attr::variation()` for every per-kind enum: (enum, variant, variation) -/\ndef kindVariations : List (String × String × Nat) := [\n"
    rows = []
    for k, (_, r) in kinds.items():
        for v, n in r.items():
            rows.append('  ("%s", "%s", %d)' % (k, v, n))
    o += ",\n".join(rows) + "]\n\n"
    o += "/-- data type each per-kind enum demands (`extract` -> `expect_*` -> `TypeError::new(expected, ..)`) -/\ndef kindType : List (String × DataType) := [\n"
    o += ",\n".join('  ("%s", .%s)' % (k, lean_name(demanded(e) or variants[0])) for k, (e, _) in kinds.items() if demanded(e) in variants) + "]\n\n"
    o += "/-- `AnyAttribute::try_from` for the default set: (variation, demanded data type), arm order;\n    a variation without an arm is `AnyAttribute::Other` (any type) -/\ndef defaultSetTypes : List (Nat × DataType) := [\n"
    o += ",\n".join("  (%d, .%s)" % (n, lean_name(t)) for n, t in default_rows if t in variants) + "]\n\n"
    o += "/-- `Variation::create` (attrs/map.rs): variations that can be neither defined, written nor retrieved -/\n"
    o += "def reservedVars : List Nat := [%s]\n\n" % ", ".join(str(x) for x in reserved)
    o += "/-- `Variation::can_be_written`: default-set variations that may be defined writable -/\n"
    o += "def writableVars : List Nat := [%s]\n\n" % ", ".join(str(x) for x in writable)
    o += "/-- `Selected::all`: first / last variation visited for \"all attributes\" (g0v254) -/\n"
    o += "def selectAllFirst : Nat := %s\ndef selectAllLast : Nat := %s\n" % ((alm.group(1), alm.group(2)) if alm else ("0", "0"))
    o += "/-- `AttrHandler::new(..)` in `Database::new`: attribute headers accepted per READ -/\ndef maxSelected : Nat := %s\n" % (ms.group(1) if ms else "0")
    o += "/-- the variation whose READ is answered with the list of variations (`write_all`) -/\ndef listVariation : Nat := %d\n\n" % (var.get(lv.group(1), 0) if lv else 0)
    o += "/-- `get_list_encoding`: octets per list entry; what is subtracted for the extended list -/\n"
    o += "def listEntryOctets : Nat := %s\ndef extListBias : Nat := %s\n" % ((glm.group(1), glm.group(2)) if glm else ("0", "0"))
    o += "/-- `AttrValue::parse`: what is added to the length octet of an extended list; `parse_attr_list`: the length must be a multiple of this;\n    `VariationListIter::next`: octets per entry; `AttrProp::READ_BIT` -/\n"
    o += "def parseExtListBias : Nat := %s\ndef parseListModulus : Nat := %s\ndef iterEntryOctets : Nat := %s\ndef propWritableBit : Nat := %d\n\n" % (
        pm.group(1) if pm else "0", plm.group(1) if plm else "0", itm.group(1) if itm else "0", int(rb.group(1), 0) if rb else 0)
    o += "/-- `UInt::new` / `Int::new` have the audited shape: u8 / u16 / u32 by `<= MAX`; i8 / i16 / i32 by the HALF-OPEN ranges\n    `MIN..MAX` (so 127 and 32767 take the next wider form) -/\n"
    o += "def uintWidthsShapeOk : Bool := %s\ndef intWidthsShapeOk : Bool := %s\n\n" % ("true" if um else "false", "true" if (r8 and r16 and im) else "false")
    o += "end Dnp3.Gen.Attrs\n"
    api.emit(G, o)
