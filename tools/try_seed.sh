#!/bin/bash
# apply a seeded patch to /repo, run the given checks (quick), undo. usage: try_seed.sh <patch.diff> <Cxx> [Cyy ...]
# evidence files are saved and restored: evidence committed in /verif must come from runs on the unchanged tree
P=$(readlink -f $1); shift
cd /repo && git status --short | grep -v '^??' | head -1 | grep -q . && { echo "REPO DIRTY"; exit 2; }
git -C /repo apply $P || { echo "APPLY FAILED"; exit 2; }
B=$(mktemp -d /verif/work/evsave.XXXX); cp -a /verif/evidence/. $B/
for c in "$@"; do (cd /verif && ./check $c quick 2>&1 | grep -v "^KNOWN-FINDING" | tail -3); done
git -C /repo checkout -- .
cp -a $B/. /verif/evidence/; rm -rf $B
(cd /verif/harness && cargo build 2>&1 | tail -1)
python3 /verif/tools/translate.py > /dev/null 2>&1
