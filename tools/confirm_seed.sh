#!/bin/bash
# confirm a seeded change in its scratch worktree: usage confirm_seed.sh <worktree> <demo test filter>
# 1. patch only: full dnp3 suite passes; 2. patch + demo: demo fails; 3. demo only: demo passes
W=$1; F=$2; PKG=${3:-dnp3}
cd $W || exit 2
export CARGO_TARGET_DIR=$W/target CARGO_NET_OFFLINE=true
git checkout -q -- . ; git clean -fdq -e out -e PROPERTY.txt -e target
git apply out/patch.diff || { echo "PATCH-APPLY-FAILED"; exit 2; }
cargo test -p dnp3 --offline --lib 2>&1 | grep -E "^test result|FAILED|failed" | head -5 > out/confirm_suite.txt
git apply out/demo.diff || { echo "DEMO-APPLY-FAILED"; exit 2; }
cargo test -p $PKG --offline --lib $F 2>&1 | grep -E "^test result|FAILED|failed|panicked" | head -8 > out/confirm_demo_with_patch.txt
git apply -R out/patch.diff
cargo test -p $PKG --offline --lib $F 2>&1 | grep -E "^test result|FAILED|failed" | head -5 > out/confirm_demo_without_patch.txt
git checkout -q -- . ; git clean -fdq -e out -e PROPERTY.txt -e target
echo "== $W"; echo "suite with patch:"; cat out/confirm_suite.txt; echo "demo with patch:"; cat out/confirm_demo_with_patch.txt; echo "demo without patch:"; cat out/confirm_demo_without_patch.txt
