#!/bin/sh
# creates an isolated copy of /repo and /verif under /tmp/agent_<name> for a builder sub-agent
set -e
N=$1
D=/tmp/agent_$N
rm -rf $D && mkdir -p $D
rsync -a --exclude target --exclude .git /repo/ $D/repo/
rsync -a --exclude .lake --exclude target --exclude work --exclude replay --exclude .git /verif/ $D/verif/
sed -i "s#/verif/hooks/dnp3_hooks.rs#$D/verif/hooks/dnp3_hooks.rs#" $D/repo/dnp3/src/lib.rs
sed -i "s#\"/repo/#\"$D/repo/#g" $D/verif/harness/Cargo.toml
sed -i "s#/verif/harness/target#$D/verif/harness/target#" $D/verif/harness/.cargo/config.toml
sed -i "s#/verif/harness#$D/verif/harness#g" $D/verif/check 2>/dev/null || true
echo $D
