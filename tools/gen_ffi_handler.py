"""gen_ffi_handler -- C20: the master-side measurement path of the binding crate, ffi/dnp3-ffi/src/handler.rs.

Output  lean/Dnp3/Gen/FfiHandler.lean   (names are lists of character codes, as in Gen/FfiArms.lean)

  methods      every fn of `impl ReadHandler for ffi::ReadHandler`: which `ffi::ReadHandler::<callee>` it invokes (and how
               often), with which arguments, which iterator adapter it builds from which argument, how `info` is converted
  attrArms     every arm of the `match value` of `handle_device_attribute`: `FfiAttrValue::<variant>(binders)`, the callee,
               its arguments, the initialiser of the arm's `let e`, and the identifiers the value argument derives from
  iterators    every `implement_iterator!(Iterator, next_fn, LibType, ffi::Type)` instantiation
  macro*       the body of `macro_rules! implement_iterator`: the item type of the wrapped iterator, the closure that turns
               a native pair into the binding struct (pattern and constructor arguments), the steps of the exported next fn
  ctors        parameter lists of every `impl ffi::X { fn new(..) }` measurement constructor
  octet*       `OctetStringIterator`: field initialisers of `new`, the statements of both branches of `next` in a small IR
               (1 clear `p = None` | 2 fill-if-empty `let x = p.get_or_insert[_with](C::new(a))` | 3 insert
                `let x = p.insert(C::new(a))` | 4 set `p = Some(C::new(a..))` | 0 anything else), steps of the exported next fn

A construct without the expected shape is a broken tie (`api.broken`), never skipped.
"""
import os
import re
import sys

sys.path.insert(0, os.path.dirname(os.path.abspath(__file__)))
import rsparse as R  # noqa: E402
from rsparse import is_p, is_id, is_g, flat  # noqa: E402

SRC = "ffi/dnp3-ffi/src/handler.rs"
GEN = "FfiHandler.lean"


class Shape(Exception):
    pass


def codes(s):
    return "[" + ", ".join(str(ord(c)) for c in s) + "]"


def name(s):
    """a Name literal with the text as a comment-safe suffix"""
    return codes(s)


def names(xs):
    return "[" + ", ".join(codes(x) for x in xs) + "]"


def safe(s):
    return s.replace("-/", "- /").replace("/-", "/ -").replace("\n", " ")


def statements(items):
    """split the items of a `{}` group into statements at top-level `;` (a trailing expression is the last one).
    A brace group that ends a statement-like construct (`if .. {..} else {..}`, `match x {..}`) also ends it."""
    res = [[]]
    for i, t in enumerate(items):
        if is_p(t, ";"):
            res.append([])
            continue
        res[-1].append(t)
    return [s for s in res if s]


def find_fns(items):
    """[(name, params group, body group)] of the fns directly inside an impl body"""
    res = []
    i = 0
    while i < len(items):
        if is_id(items[i], "fn") and i + 1 < len(items) and items[i + 1].kind == "id":
            nm = items[i + 1].text
            j = i + 2
            params = None
            while j < len(items) and not is_g(items[j], "{"):
                if is_g(items[j], "(") and params is None:
                    params = items[j]
                j += 1
            if j >= len(items) or params is None:
                raise Shape("fn %s without body" % nm)
            res.append((nm, params, items[j]))
            i = j + 1
        else:
            i += 1
    return res


def find_impls(top):
    """[(header text, body group)] of the top-level impl blocks"""
    res = []
    i = 0
    while i < len(top):
        if is_id(top[i], "impl"):
            j = i + 1
            while j < len(top) and not is_g(top[j], "{"):
                j += 1
            if j >= len(top):
                raise Shape("impl without body at line %d" % top[i].line)
            res.append((flat(top[i + 1 : j]), top[j]))
            i = j + 1
        else:
            i += 1
    return res


def ffi_calls(items):
    """every `ffi::ReadHandler::<name>(args)` in a token tree (recursively): [(name, args group)]"""
    res = []
    for i, t in enumerate(items):
        if t.kind == "group":
            res.extend(ffi_calls(t.items))
        if (is_id(t, "ffi") and i + 5 < len(items) and is_p(items[i + 1], "::") and is_id(items[i + 2], "ReadHandler")
                and is_p(items[i + 3], "::") and items[i + 4].kind == "id" and is_g(items[i + 5], "(")):
            res.append((items[i + 4].text, items[i + 5]))
    return res


def arg_texts(group):
    out = []
    for a in R.split_commas(group.items):
        s = flat(a)
        s = re.sub(r"\s*as\s*\*mut\s*_$", "", s)
        s = re.sub(r"as\*mut _$", "", s)
        out.append(s)
    return out


def let_bindings(items, acc=None):
    """`let [mut] x [: T] = <init>` statements anywhere in a token tree: {x: init tokens}"""
    acc = {} if acc is None else acc
    for st in statements(items):
        if st and is_id(st[0], "let"):
            k = 1
            if k < len(st) and is_id(st[k], "mut"):
                k += 1
            if k < len(st) and st[k].kind == "id":
                nm = st[k].text
                eq = next((m for m in range(k + 1, len(st)) if is_p(st[m], "=")), None)
                if eq is not None:
                    acc[nm] = st[eq + 1 :]
    for t in items:
        if t.kind == "group" and t.text == "{":
            let_bindings(t.items, acc)
    return acc


def idents_of(toks):
    """identifiers used as values in an expression: not after `.` or `::`, not before `::`, `(` or `!`"""
    res = []

    def walk(ts):
        for i, t in enumerate(ts):
            if t.kind == "group":
                # the arguments of a macro invocation (`tracing::warn!(..)`) are diagnostics, not data flow
                if i >= 2 and is_p(ts[i - 1], "!") and ts[i - 2].kind == "id":
                    continue
                walk(t.items)
            elif t.kind == "id":
                prev = ts[i - 1] if i > 0 else None
                nxt = ts[i + 1] if i + 1 < len(ts) else None
                if prev is not None and (is_p(prev, ".") or is_p(prev, "::")):
                    continue
                if nxt is not None and (is_p(nxt, "::") or is_g(nxt, "(") or is_p(nxt, "!")):
                    continue
                if t.text in ("mut", "as", "_", "self", "crate", "match", "return", "Ok", "Err", "Some", "None"):
                    continue
                res.append(t.text)

    walk(toks)
    return res


OUTER = ("set", "var", "value", "info", "attr")


def roots(arg_toks, lets, binders):
    """the arm binders / outer values of `handle_device_attribute` an argument derives from, followed through the
    arm's `let`s (temporaries bound inside those initialisers can only derive from the same names and are dropped)"""
    seen = []
    todo = idents_of(arg_toks)
    guard = 0
    while todo and guard < 200:
        guard += 1
        x = todo.pop(0)
        if x in binders or x in OUTER:
            if x not in seen:
                seen.append(x)
        elif x in lets:
            todo.extend(idents_of(lets[x]))
    return seen


STMT_RES = [
    (1, re.compile(r"^(self\.\w+)=None$")),
    (2, re.compile(r"^let (\w+)=(self\.\w+)\.get_or_insert\(([\w:]+)\((.*)\)\)$")),
    (2, re.compile(r"^let (\w+)=(self\.\w+)\.get_or_insert_with\(\|\|([\w:]+)\((.*)\)\)$")),
    (3, re.compile(r"^let (\w+)=(self\.\w+)\.insert\(([\w:]+)\((.*)\)\)$")),
    (4, re.compile(r"^(self\.\w+)=Some\(([\w:]+)\((.*)\)\)$")),
]


def classify(st):
    """one statement of OctetStringIterator::next -> (kind, place, binder, ctor, [args], text)"""
    text = flat(st)
    for kind, rx in STMT_RES:
        m = rx.match(text)
        if not m:
            continue
        if kind == 1:
            return (1, m.group(1), "", "", [], text)
        if kind in (2, 3):
            return (kind, m.group(2), m.group(1), m.group(3), [a for a in m.group(4).split(",") if a], text)
        return (4, m.group(1), "", m.group(2), [a for a in m.group(3).split(",") if a], text)
    return (0, "", "", "", [], text)


def closure_steps(body_items, what):
    """the statements of the closure `|it| { .. }` handed to `.map(..)` / `.and_then(..)` in an exported next fn"""
    for i, t in enumerate(body_items):
        if is_g(t, "(") and i > 0 and is_id(body_items[i - 1]) and body_items[i - 1].text in ("map", "and_then"):
            inner = t.items
            if len(inner) >= 4 and is_p(inner[0], "|") and is_id(inner[1], "it") and is_p(inner[2], "|") and is_g(inner[3], "{"):
                return [flat(s) for s in statements(inner[3].items)], body_items[i - 1].text
    raise Shape(what + ": closure |it| {..} not found")


def generate(api):
    try:
        text = api.strip_tests(api.src(SRC))
        top = R.parse(text)
        out = build(top)
    except (Shape, R.ParseError, OSError) as e:
        api.broken("translator:%s:%s:%s" % (GEN, SRC, e))
        return
    api.emit(GEN, out)
    api.report.setdefault("ffi_handler", {})["rows"] = out.count("⟨")


def build(top):
    impls = find_impls(top)
    L = []
    L.append("/-! C20: the master-side measurement path of the binding crate (ffi/dnp3-ffi/src/handler.rs), re-extracted on every run")
    L.append("by tools/gen_ffi_handler.py.  Names are lists of character codes; every row carries its source text as a comment. -/")
    L.append("namespace Dnp3.Gen.FfiHandler")
    L.append("")
    L.append("abbrev Name := List Nat")
    L.append("")

    # ---- A. impl ReadHandler for ffi::ReadHandler ------------------------------------------------
    rh = [b for (h, b) in impls if h == "ReadHandler for ffi::ReadHandler"]
    if len(rh) != 1:
        raise Shape("impl ReadHandler for ffi::ReadHandler: found %d" % len(rh))
    L.append("/-- one method of `impl ReadHandler for ffi::ReadHandler`.  kind: 0 = builds an iterator adapter and hands it to a")
    L.append("    callback, 1 = fragment callback (no header info), 2 = a plain value callback, 3 = `handle_device_attribute` (see `attrArms`) -/")
    L.append("structure Method where")
    L.append("  name : Name\n  kind : Nat\n  iterTy : Name\n  iterSrc : Name\n  callee : Name\n  calls : Nat\n  args : List Name\n  infoInit : Name")
    L.append("")
    rows = []
    attr_rows = None
    for (fname, params, body) in find_fns(rh[0].items):
        calls = ffi_calls(body.items)
        lets = let_bindings(body.items)
        pnames = [flat(p).split(":")[0].replace("&mut ", "").replace("&", "").strip() for p in R.split_commas(params.items)]
        if fname == "handle_device_attribute":
            attr_rows = attr_arms(body, lets)
            rows.append((fname, 3, "", "", "", len(calls), [], flat(lets.get("info", [])), "match value { .. } see attrArms"))
            continue
        if len(calls) != 1:
            raise Shape("%s: %d calls of ffi::ReadHandler::*" % (fname, len(calls)))
        callee, args = calls[0]
        a = arg_texts(args)
        if "iter" in pnames:
            it = lets.get("iterator")
            if it is None:
                raise Shape("%s: no `let mut iterator = ..`" % fname)
            m = re.match(r"^(\w+)::new\((\w+)\)$", flat(it))
            if not m:
                raise Shape("%s: iterator initialiser `%s`" % (fname, flat(it)))
            rows.append((fname, 0, m.group(1), m.group(2), callee, 1, a, flat(lets.get("info", [])), flat(body.items)))
        elif "info" in pnames:
            rows.append((fname, 2, "", "", callee, 1, a, flat(lets.get("info", [])), flat(body.items)))
        else:
            rows.append((fname, 1, "", "", callee, 1, a, "", flat(body.items)))
    if attr_rows is None:
        raise Shape("handle_device_attribute not found")
    L.append("def methods : List Method := [")
    for k, r in enumerate(rows):
        L.append("  ⟨%s, %d, %s, %s, %s, %d, %s, %s⟩%s  -- %s: %s" % (
            name(r[0]), r[1], name(r[2]), name(r[3]), name(r[4]), r[5], names(r[6]), name(r[7]),
            "," if k + 1 < len(rows) else "", r[0], safe(r[8])[:200]))
    L.append("]")
    L.append("")
    L.append("/-- one arm of `match value` in `handle_device_attribute` -/")
    L.append("structure AttrArm where")
    L.append("  variant : Name\n  binders : List Name\n  callee : Name\n  calls : Nat\n  args : List Name\n  enumInit : Name\n  valueRoots : List Name")
    L.append("")
    L.append("def attrArms : List AttrArm := [")
    for k, r in enumerate(attr_rows):
        L.append("  ⟨%s, %s, %s, %d, %s, %s, %s⟩%s  -- FfiAttrValue::%s(%s) => ffi::ReadHandler::%s(%s)  [e = %s; value from %s]" % (
            name(r[0]), names(r[1]), name(r[2]), r[3], names(r[4]), name(r[5]), names(r[6]),
            "," if k + 1 < len(attr_rows) else "", r[0], ", ".join(r[1]), r[2], safe(", ".join(r[4])), safe(r[5]) or "-", ", ".join(r[6])))
    L.append("]")
    L.append("")

    # ---- B. implement_iterator! instantiations -------------------------------------------------
    insts = []
    macro = None
    for i, t in enumerate(top):
        if is_id(t, "implement_iterator") and i + 2 < len(top) and is_p(top[i + 1], "!") and is_g(top[i + 2], "("):
            a = [flat(x) for x in R.split_commas(top[i + 2].items)]
            if len(a) != 4:
                raise Shape("implement_iterator! with %d arguments at line %d" % (len(a), t.line))
            insts.append(a)
        if is_id(t, "macro_rules") and i + 3 < len(top) and is_p(top[i + 1], "!") and is_id(top[i + 2], "implement_iterator") and is_g(top[i + 3], "{"):
            macro = top[i + 3]
    if not insts or macro is None:
        raise Shape("implement_iterator: macro or instantiations not found")
    L.append("/-- `implement_iterator!(itName, func, libTy, ffiTy)` -/")
    L.append("structure IterInst where")
    L.append("  itName : Name\n  func : Name\n  libTy : Name\n  ffiTy : Name")
    L.append("")
    L.append("def iterators : List IterInst := [")
    for k, a in enumerate(insts):
        L.append("  ⟨%s, %s, %s, %s⟩%s  -- implement_iterator!(%s)" % (name(a[0]), name(a[1]), name(a[2]), name(a[3]), "," if k + 1 < len(insts) else "", ", ".join(a)))
    L.append("]")
    L.append("")

    # ---- C. the macro body -----------------------------------------------------------------------
    rules = [g for g in macro.items if is_g(g, "{")]
    heads = [g for g in macro.items if is_g(g, "(")]
    if len(rules) != 1 or len(heads) != 1:
        raise Shape("macro_rules! implement_iterator: %d rules" % len(rules))
    mparams = re.findall(r"\$(\w+):", flat(heads[0].items))
    if mparams != ["it_name", "ffi_func_name", "lib_type", "ffi_type"]:
        raise Shape("macro_rules! implement_iterator: parameters %s" % mparams)
    mb = rules[0].items
    mtext = flat(mb)
    m = re.search(r"inner:&'a mut dyn Iterator<Item=\(([^,()]+),([^,()]+)\)>,next:Option<(\$\w+)>", mtext)
    if not m:
        raise Shape("macro struct fields: " + mtext[:120])
    macro_item = [m.group(1).strip(), m.group(2).strip()]
    macro_slot_ty = m.group(3)
    mimpls = find_impls(mb)
    if len(mimpls) != 1:
        raise Shape("macro: %d impl blocks" % len(mimpls))
    mfns = {n: b for (n, p, b) in find_fns(mimpls[0][1].items)}
    if set(mfns) != {"new", "next"}:
        raise Shape("macro impl fns: %s" % sorted(mfns))
    nt = flat(mfns["next"].items)
    m = re.match(r"^(self\.\w+)=self\.inner\.next\(\)\.map\(\|\((\w+),(\w+)\)\|(<\$\w+>::new)\((\w+),(\w+)\)\)$", nt)
    if not m:
        raise Shape("macro fn next: " + nt)
    macro_target, p0, p1, macro_ctor, a0, a1 = m.groups()
    newt = flat(mfns["new"].items)
    m = re.match(r"^Self\{(.*)\}$", newt)
    if not m:
        raise Shape("macro fn new: " + newt)
    macro_new = [x.strip() for x in m.group(1).split(",") if x.strip()]
    # `fn $ffi_func_name`: the name is a macro parameter (`$` + identifier)
    steps = None
    for i, t in enumerate(mb):
        if is_id(t, "fn") and i + 2 < len(mb) and is_p(mb[i + 1], "$") and is_id(mb[i + 2], "ffi_func_name"):
            j = i + 3
            while j < len(mb) and not is_g(mb[j], "{"):
                j += 1
            steps, comb = closure_steps(mb[j].items, "macro exported fn")
            tail = flat(mb[j].items)
            if not tail.startswith("let it=it.as_mut();it.map("):
                raise Shape("macro exported fn: " + tail)
    if steps is None:
        raise Shape("macro exported fn $ffi_func_name not found")
    L.append("/-! `macro_rules! implement_iterator` -/")
    L.append("/-- `inner: &'a mut dyn Iterator<Item = (.., ..)>`: the components of the wrapped iterator's item -/")
    L.append("def macroItem : List Name := %s  -- (%s)" % (names(macro_item), ", ".join(macro_item)))
    L.append("/-- type of the slot `next: Option<..>` -/")
    L.append("def macroSlotTy : Name := %s  -- %s" % (name(macro_slot_ty), macro_slot_ty))
    L.append("/-- field initialisers of `fn new` -/")
    L.append("def macroNewInit : List Name := %s  -- Self { %s }" % (names(macro_new), ", ".join(macro_new)))
    L.append("/-- `fn next`: `<target> = self.inner.next().map(|(<p0>, <p1>)| <ctor>(<a0>, <a1>))` -/")
    L.append("def macroNextTarget : Name := %s  -- %s" % (name(macro_target), macro_target))
    L.append("def macroNextPattern : List Name := %s  -- |(%s, %s)|" % (names([p0, p1]), p0, p1))
    L.append("def macroNextCtor : Name := %s  -- %s" % (name(macro_ctor), macro_ctor))
    L.append("def macroNextArgs : List Name := %s  -- (%s, %s)" % (names([a0, a1]), a0, a1))
    L.append("/-- the exported `fn $ffi_func_name`: statements of the closure applied to the non-null iterator -/")
    L.append("def macroFnSteps : List Name := %s  -- %s" % (names(steps), "; ".join(steps)))
    L.append("")

    # ---- constructors `impl ffi::X { fn new(..) }` ------------------------------------------------
    ctors = []
    for (h, b) in impls:
        m = re.match(r"^(<'a>)?(ffi::\w+)(<'a>)?$", h)
        if not m:
            continue
        for (n, p, body) in find_fns(b.items):
            if n != "new":
                continue
            ps = []
            for x in R.split_commas(p.items):
                s = flat(x)
                if ":" not in s:
                    raise Shape("%s::new parameter `%s`" % (h, s))
                ps.append((s.split(":", 1)[0].strip(), s.split(":", 1)[1].strip()))
            ctors.append((m.group(2), ps))
    if not ctors:
        raise Shape("no measurement constructors")
    L.append("/-- `impl ffi::X { fn new(<params>) }`: parameter names and types, flattened [n0, t0, n1, t1, ..] -/")
    L.append("structure Ctor where")
    L.append("  ty : Name\n  params : List Name")
    L.append("")
    L.append("def ctors : List Ctor := [")
    for k, (ty, ps) in enumerate(ctors):
        fl = [x for p in ps for x in p]
        L.append("  ⟨%s, %s⟩%s  -- %s::new(%s)" % (name(ty), names(fl), "," if k + 1 < len(ctors) else "", ty, ", ".join("%s: %s" % p for p in ps)))
    L.append("]")
    L.append("")

    # ---- D. OctetStringIterator ---------------------------------------------------------------------
    osi = [b for (h, b) in impls if h == "<'a>OctetStringIterator<'a>"]
    if len(osi) != 1:
        raise Shape("impl OctetStringIterator: found %d (%s)" % (len(osi), [h for h, _ in impls if "Octet" in h]))
    ofns = {n: b for (n, p, b) in find_fns(osi[0].items)}
    if set(ofns) != {"new", "next"}:
        raise Shape("OctetStringIterator fns: %s" % sorted(ofns))
    m = re.match(r"^Self\{(.*)\}$", flat(ofns["new"].items))
    if not m:
        raise Shape("OctetStringIterator::new: " + flat(ofns["new"].items))
    onew = [x.strip() for x in m.group(1).split(",") if x.strip()]
    nb = ofns["next"].items
    # if let Some((a, b)) = self.inner.next() {A} else {B}
    ok = (len(nb) >= 8 and is_id(nb[0], "if") and is_id(nb[1], "let") and is_id(nb[2], "Some") and is_g(nb[3], "(") and is_p(nb[4], "=")
          and is_g(nb[-3], "{") and is_id(nb[-2], "else") and is_g(nb[-1], "{"))
    if not ok or flat(nb[5:-3]) != "self.inner.next()":
        raise Shape("OctetStringIterator::next: " + flat(nb)[:160])
    pat = nb[3].items
    if not (len(pat) == 1 and is_g(pat[0], "(")):
        raise Shape("OctetStringIterator::next pattern: " + flat(nb[3].items))
    pvars = [flat(x) for x in R.split_commas(pat[0].items)]
    some_st = [classify(s) for s in statements(nb[-3].items)]
    else_st = [classify(s) for s in statements(nb[-1].items)]
    ostruct = None
    for i, t in enumerate(top):
        if is_id(t, "struct") and i + 1 < len(top) and is_id(top[i + 1], "OctetStringIterator"):
            j = i + 2
            while j < len(top) and not is_g(top[j], "{"):
                j += 1
            ostruct = flat(top[j].items)
    m = re.search(r"inner:&'a mut dyn Iterator<Item=\(([^,()]+),([^,()]+)\)>", ostruct or "")
    if not m:
        raise Shape("struct OctetStringIterator: " + (ostruct or "?")[:120])
    oitem = [m.group(1).strip(), m.group(2).strip()]
    osteps = None
    for i, t in enumerate(top):
        if is_id(t, "fn") and i + 1 < len(top) and is_id(top[i + 1], "octet_string_iterator_next"):
            j = i + 2
            while j < len(top) and not is_g(top[j], "{"):
                j += 1
            osteps, comb = closure_steps(top[j].items, "octet_string_iterator_next")
            tail = flat(top[j].items)
            if not tail.startswith("let it=it.as_mut();it.and_then(") and not tail.startswith("let it=it.as_mut();it.map("):
                raise Shape("octet_string_iterator_next: " + tail)
    if osteps is None:
        raise Shape("fn octet_string_iterator_next not found")
    L.append("/-! `OctetStringIterator` -/")
    L.append("/-- a statement of `OctetStringIterator::next`.  kind: 1 `place = None` | 2 `let binder = place.get_or_insert[_with](ctor(args))`")
    L.append("    (fills the slot only if it is empty) | 3 `let binder = place.insert(ctor(args))` | 4 `place = Some(ctor(args))` | 0 anything else -/")
    L.append("structure Stmt where")
    L.append("  kind : Nat\n  place : Name\n  binder : Name\n  ctor : Name\n  args : List Name")
    L.append("")
    L.append("def octetItem : List Name := %s  -- (%s)" % (names(oitem), ", ".join(oitem)))
    L.append("def octetNewInit : List Name := %s  -- Self { %s }" % (names(onew), ", ".join(onew)))
    L.append("/-- `if let Some((<p0>, <p1>)) = self.inner.next()` -/")
    L.append("def octetNextPattern : List Name := %s  -- (%s)" % (names(pvars), ", ".join(pvars)))

    def emit_stmts(nm, sts):
        L.append("def %s : List Stmt := [" % nm)
        for k, s in enumerate(sts):
            L.append("  ⟨%d, %s, %s, %s, %s⟩%s  -- %s" % (s[0], name(s[1]), name(s[2]), name(s[3]), names(s[4]), "," if k + 1 < len(sts) else "", safe(s[5])))
        L.append("]")

    emit_stmts("octetNextSome", some_st)
    emit_stmts("octetNextElse", else_st)
    L.append("def octetFnSteps : List Name := %s  -- %s" % (names(osteps), "; ".join(osteps)))
    L.append("")
    L.append("end Dnp3.Gen.FfiHandler")
    return "\n".join(L) + "\n"


def attr_arms(body, lets):
    """arms of the (only) `match value {..}` of handle_device_attribute"""
    items = body.items
    mg = None
    for i, t in enumerate(items):
        if is_id(t, "match") and i + 2 < len(items) and is_id(items[i + 1], "value") and is_g(items[i + 2], "{"):
            mg = items[i + 2]
    if mg is None:
        raise Shape("handle_device_attribute: `match value {..}` not found")
    # the tuple destructuring that binds `value`
    tup = None
    for st in statements(items):
        s = flat(st)
        m = re.match(r"^let ?\((\w+),(\w+),(\w+)\)=FfiAttrValue::extract\((\w+)\)$", s)
        if m:
            tup = m.groups()
    if tup is None or tup[2] != "value":
        raise Shape("handle_device_attribute: `let (set, var, value) = FfiAttrValue::extract(attr)` not found")
    rows = []
    arms = split_arms(mg.items)
    for pat, bodytoks in arms:
        ptxt = flat(pat)
        m = re.match(r"^FfiAttrValue::(\w+)\((.*)\)$", ptxt)
        if not m:
            raise Shape("handle_device_attribute arm pattern `%s`" % ptxt)
        variant = m.group(1)
        binders = [b.strip() for b in m.group(2).split(",") if b.strip()]
        calls = ffi_calls(bodytoks)
        if len(calls) != 1:
            raise Shape("handle_device_attribute arm %s: %d calls" % (variant, len(calls)))
        callee, args = calls[0]
        a = arg_texts(args)
        alets = let_bindings(bodytoks)
        arg_toks = R.split_commas(args.items)
        vroots = roots(arg_toks[-1], alets, binders) if arg_toks else []
        rows.append((variant, binders, callee, 1, a, flat(alets.get("e", [])), vroots))
    return rows


def split_arms(items):
    """[(pattern tokens, body tokens)] of a match group whose arm bodies are brace groups"""
    res = []
    i = 0
    while i < len(items):
        pat = []
        while i < len(items) and not is_p(items[i], "=>"):
            pat.append(items[i])
            i += 1
        if i >= len(items):
            if pat:
                raise Shape("match arm without =>")
            break
        i += 1
        if i < len(items) and is_g(items[i], "{"):
            body = items[i].items
            i += 1
        else:
            body = []
            while i < len(items) and not is_p(items[i], ","):
                body.append(items[i])
                i += 1
        if i < len(items) and is_p(items[i], ","):
            i += 1
        res.append((pat, body))
    return res
