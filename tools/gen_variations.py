"""gen_variations.py -- translator module for C09 (auto-discovered by translate.py).

Regenerates from the Rust source on every run

  Gen/Variations.lean  `Variation::lookup` as a table, and for every fixed-size variation
                       (`impl FixedSize for GroupXVarY` in app/variations.rs) its SIZE and the field
                       list (name, wire type) in `read` order and in `write` order
  Gen/Qualifiers.lean  the qualifier tables: app/gen/all.rs (AllObjectsVariation::get), count.rs
                       (CountVariation::parse), ranged.rs (parse_non_read / parse_read), prefixed.rs
                       (PrefixedVariation::parse) and app/parse/free_format.rs: which variation
                       patterns are accepted, in match order, and what payload each carries
  Gen/AppCodes.lean    function codes, qualifier codes, control-octet masks, sequence mask, IIN bit
                       names, attribute data-type codes, group-70 fixed offsets

A construct of an unknown shape is reported with api.broken(...), never skipped.
"""
import re

SRC = "dnp3/src/app/"

WIDTH = {"u8": 1, "u16": 2, "u32": 4, "u48": 6, "i16": 2, "i32": 4, "f32": 4, "f64": 8}


def _body_after(text, start):
    """brace-matched body starting at the first `{` at or after `start` -> (body, end)"""
    j = text.find("{", start)
    if j < 0:
        return None, start
    depth = 1
    k = j + 1
    while depth and k < len(text):
        if text[k] == "{":
            depth += 1
        elif text[k] == "}":
            depth -= 1
        k += 1
    return text[j + 1 : k - 1], k


def _split_arms(body):
    """split a match body into top-level arms `pat => expr` (expr may be a brace block)"""
    arms = []
    i = 0
    n = len(body)
    while i < n:
        while i < n and body[i] in " \t\r\n,":
            i += 1
        if i >= n:
            break
        j = body.find("=>", i)
        if j < 0:
            arms.append((body[i:].strip(), None))
            break
        pat = body[i:j].strip()
        k = j + 2
        while k < n and body[k] in " \t\r\n":
            k += 1
        depth = 0
        start = k
        while k < n:
            c = body[k]
            if c in "({[":
                depth += 1
            elif c in ")}]":
                depth -= 1
                if depth == 0 and c == "}" and body[start] == "{":
                    k += 1
                    break
            elif c == "," and depth == 0:
                break
            k += 1
        arms.append((pat, body[start:k].strip()))
        i = k
    return arms


def _pat(api, gen_file, where, pat):
    """`Variation::Group1Var2` | `Variation::Group0(var)` | `Variation::Group110(0)` -> Lean Pat"""
    m = re.fullmatch(r"Variation::Group(\d+)Var(\d+)", pat)
    if m:
        return "⟨%s, some %s, false⟩" % (m.group(1), m.group(2))
    m = re.fullmatch(r"Variation::Group(\d+)\(([a-z_]+)\)", pat)
    if m:
        return "⟨%s, none, true⟩" % m.group(1)
    m = re.fullmatch(r"Variation::Group(\d+)\((\d+)\)", pat)
    if m:
        return "⟨%s, some %s, true⟩" % (m.group(1), m.group(2))
    api.broken("translator:%s:%s:pattern:%s" % (gen_file, where, pat[:60]))
    return None


def _fn_match_body(api, gen_file, text, fn_name):
    m = re.search(r"fn\s+" + re.escape(fn_name) + r"\b", text)
    if not m:
        api.broken("translator:%s:fn %s not found" % (gen_file, fn_name))
        return None
    fbody, _ = _body_after(text, m.end())
    mm = re.search(r"match\s+v\s*", fbody or "")
    if not mm:
        api.broken("translator:%s:fn %s: no `match v`" % (gen_file, fn_name))
        return None
    mbody, _ = _body_after(fbody, mm.end())
    return mbody


def _enum_types(text, enum_name):
    """variant -> payload type text, from `enum Name<..> { Variant(Type), ... }`"""
    m = re.search(r"enum\s+" + enum_name + r"\b[^{]*", text)
    if not m:
        return None
    body, _ = _body_after(text, m.end() - 1)
    res = {}
    for vm in re.finditer(r"\b(Group\w+)\s*(\(([^()]*(\([^()]*\))?[^()]*)\))?\s*,", body):
        res[vm.group(1)] = (vm.group(3) or "").strip()
    return res


# ------------------------------------------------------------------------------------------
def gen_variations(api):
    G = "Variations.lean"
    text = api.strip_tests(api.strip_comments(api.src(SRC + "variations.rs")))
    out = "namespace Dnp3.Gen\n\n"
    out += "/-- wire type of one field of a fixed-size variation (the scursor read_*/write_* call) -/\n"
    out += "inductive FieldTy | u8 | u16 | u32 | u48 | i16 | i32 | f32 | f64\n  deriving DecidableEq, Repr\n\n"
    out += "def FieldTy.width : FieldTy → Nat\n"
    for k, w in WIDTH.items():
        out += "  | .%s => %d\n" % (k, w)
    out += "\nstructure Field where\n  name : String\n  ty : FieldTy\n  deriving DecidableEq, Repr\n\n"
    out += "/-- one `impl FixedSize for GroupXVarY`: SIZE, fields in `read` order, fields in `write` order -/\n"
    out += "structure FixedVar where\n  group : Nat\n  var : Nat\n  size : Nat\n  readFields : List Field\n  writeFields : List Field\n  deriving Repr\n\n"

    # ---- lookup ----
    mbody = None
    m = re.search(r"fn\s+lookup\s*\(\s*group\s*:\s*u8\s*,\s*var\s*:\s*u8\s*\)\s*->\s*Option<Variation>", text)
    if m:
        fbody, _ = _body_after(text, m.end())
        mm = re.search(r"match\s+group\s*", fbody or "")
        if mm:
            mbody, _ = _body_after(fbody, mm.end())
    if mbody is None:
        api.broken("translator:%s:Variation::lookup shape" % G)
        return
    rows = []  # (group, [(var|None, result)])  result: ("fixed", g, v) | ("wild", g) | None
    default_none = False

    def res_of(expr, where):
        expr = expr.strip()
        if expr == "None":
            return "none"
        mm = re.fullmatch(r"Some\(Variation::Group(\d+)Var(\d+)\)", expr)
        if mm:
            return ("fixed", int(mm.group(1)), int(mm.group(2)))
        mm = re.fullmatch(r"Some\(Variation::Group(\d+)\(var\)\)", expr)
        if mm:
            return ("wild", int(mm.group(1)))
        api.broken("translator:%s:lookup:%s:%s" % (G, where, expr[:60]))
        return "none"

    for pat, expr in _split_arms(mbody):
        if pat == "_":
            if expr.strip() != "None":
                api.broken("translator:%s:lookup default arm:%s" % (G, expr[:40]))
            default_none = True
            continue
        if not re.fullmatch(r"\d+", pat):
            api.broken("translator:%s:lookup group pattern:%s" % (G, pat[:40]))
            continue
        g = int(pat)
        mm = re.match(r"match\s+var\s*\{", expr)
        if mm:
            inner = expr[mm.end() : expr.rfind("}")]
            arms = []
            for p2, e2 in _split_arms(inner):
                if p2 == "_":
                    arms.append((None, res_of(e2, "g%d" % g)))
                elif re.fullmatch(r"\d+", p2):
                    arms.append((int(p2), res_of(e2, "g%d" % g)))
                else:
                    api.broken("translator:%s:lookup var pattern g%d:%s" % (G, g, p2[:40]))
            rows.append((g, arms))
        else:
            rows.append((g, [(None, res_of(expr, "g%d" % g))]))
    if not default_none:
        api.broken("translator:%s:lookup has no `_ => None` arm" % G)

    def lean_res(r, g):
        if r == "none":
            return "none"
        if r[0] == "fixed":
            return "some (.fixed %d %d)" % (r[1], r[2])
        return "some (.wild %d)" % r[1]

    out += "/-- result of one arm of `Variation::lookup`: `GroupGVarV` (`fixed g v`) or `GroupG(var)` (`wild g`, the\n"
    out += "    variation octet is carried) -/\n"
    out += "inductive LookupRes | fixed (g v : Nat) | wild (g : Nat)\n  deriving DecidableEq, Repr\n\n"
    out += "/-- `Variation::lookup`: per group the arms `var => result` in source order; `none` as the var pattern\n"
    out += "    is the `_` arm.  A group that is not listed is `None`. -/\n"
    out += "def lookupTable : List (Nat × List (Option Nat × Option LookupRes)) := [\n"
    lines = []
    for g, arms in rows:
        a = ", ".join("(%s, %s)" % ("none" if v is None else "some %d" % v, lean_res(r, g)) for v, r in arms)
        lines.append("  (%d, [%s])" % (g, a))
    out += ",\n".join(lines) + "\n]\n\n"

    # ---- to_group_and_var must agree with the names ----
    m = re.search(r"fn\s+to_group_and_var\s*\(self\)\s*->\s*\(u8,\s*u8\)", text)
    ok_names = True
    if not m:
        api.broken("translator:%s:to_group_and_var missing" % G)
        ok_names = False
    else:
        fbody, _ = _body_after(text, m.end())
        mm = re.search(r"match\s+self\s*", fbody)
        mbody2, _ = _body_after(fbody, mm.end())
        n_arms = 0
        for pat, expr in _split_arms(mbody2):
            n_arms += 1
            a = re.fullmatch(r"Variation::Group(\d+)Var(\d+)", pat)
            b = re.fullmatch(r"Variation::Group(\d+)\(x\)", pat)
            e = re.fullmatch(r"\((\d+|x),\s*(\d+|x)\)", expr.strip())
            if a and e and e.group(1) == a.group(1) and e.group(2) == a.group(2):
                continue
            if b and e and e.group(1) == b.group(1) and e.group(2) == "x":
                continue
            ok_names = False
            api.broken("translator:%s:to_group_and_var arm:%s => %s" % (G, pat[:40], expr[:20]))
    out += "/-- every arm of `Variation::to_group_and_var` maps `GroupGVarV` to `(G, V)` and `GroupG(x)` to `(G, x)` -/\n"
    out += "def toGroupAndVarMatchesNames : Bool := %s\n\n" % ("true" if ok_names else "false")

    # ---- struct declarations: field -> rust type ----
    structs = {}
    for sm in re.finditer(r"pub(?:\(crate\))?\s+struct\s+(Group\d+Var\d+)\s*\{([^}]*)\}", text):
        fields = {}
        for fm in re.finditer(r"pub(?:\(crate\))?\s+(\w+)\s*:\s*([A-Za-z0-9_]+)\s*,", sm.group(2)):
            fields[fm.group(1)] = fm.group(2)
        structs[sm.group(1)] = fields

    # helper write() of wrapper types: Timestamp -> u48, CommandStatus -> u8 (shape-checked)
    wrapper_ty = {}
    types_rs = api.strip_tests(api.strip_comments(api.src(SRC + "types.rs")))
    if re.search(r"impl\s+Timestamp\s*\{", types_rs) and re.search(
        r"fn\s+write\s*\(self,\s*cursor:\s*&mut\s+WriteCursor\)\s*->\s*Result<\(\),\s*WriteError>\s*\{\s*cursor\.write_u48_le\(self\.value\)\s*\}", types_rs
    ):
        wrapper_ty["Timestamp"] = "u48"
    else:
        api.broken("translator:%s:Timestamp::write shape" % G)
    ce = api.strip_tests(api.strip_comments(api.src(SRC + "control_enums.rs")))
    mcs = re.search(r"impl\s+CommandStatus\s*\{", ce)
    if mcs:
        b, _ = _body_after(ce, mcs.end() - 1)
        if re.search(r"fn\s+write\s*\(self,\s*cursor:\s*&mut\s+WriteCursor\)\s*->\s*Result<\(\),\s*WriteError>\s*\{\s*cursor\.write_u8\(self\.as_u8\(\)\)\s*\}", b):
            wrapper_ty["CommandStatus"] = "u8"
    if "CommandStatus" not in wrapper_ty:
        api.broken("translator:%s:CommandStatus::write shape" % G)

    # ---- impl FixedSize ----
    fixed = []
    for im in re.finditer(r"impl\s+FixedSize\s+for\s+(Group(\d+)Var(\d+))\s*", text):
        name, g, v = im.group(1), int(im.group(2)), int(im.group(3))
        body, _ = _body_after(text, im.end() - 1)
        sm = re.search(r"const\s+SIZE\s*:\s*u8\s*=\s*(\d+)\s*;", body)
        if not sm:
            api.broken("translator:%s:%s:SIZE" % (G, name))
            continue
        size = int(sm.group(1))
        # read
        rm = re.search(r"fn\s+read\s*\(cursor:\s*&mut\s+ReadCursor\)\s*->\s*Result<Self,\s*ReadError>", body)
        wm = re.search(r"fn\s+write\s*\(&self,\s*cursor:\s*&mut\s+WriteCursor\)\s*->\s*Result<\(\),\s*WriteError>", body)
        if not rm or not wm:
            api.broken("translator:%s:%s:read/write signature" % (G, name))
            continue
        rbody, _ = _body_after(body, rm.end())
        wbody, _ = _body_after(body, wm.end())
        m2 = re.fullmatch(r"\s*Ok\(\s*" + name + r"\s*\{(.*)\}\s*\)\s*", rbody, flags=re.S)
        if not m2:
            api.broken("translator:%s:%s:read body shape" % (G, name))
            continue
        rfields = []
        bad = False
        for item in [x.strip() for x in m2.group(1).split(",") if x.strip()]:
            fm = re.fullmatch(r"(\w+)\s*:\s*(?:[A-Za-z]+::(?:new|from)\()?cursor\.read_(u8|u16|u32|u48|i16|i32|f32|f64)(?:_le)?\(\)\?\)?", item)
            if not fm:
                api.broken("translator:%s:%s:read field:%s" % (G, name, item[:50]))
                bad = True
                continue
            rfields.append((fm.group(1), fm.group(2)))
        wfields = []
        stmts = [s.strip() for s in wbody.split(";") if s.strip()]
        if not stmts or stmts[-1] != "Ok(())":
            api.broken("translator:%s:%s:write body does not end with Ok(())" % (G, name))
            bad = True
        for st in stmts[:-1]:
            fm = re.fullmatch(r"cursor\.write_(u8|u16|u32|u48|i16|i32|f32|f64)(?:_le)?\(self\.(\w+)(?:\.as_u8\(\))?\)\?", st)
            if fm:
                wfields.append((fm.group(2), fm.group(1)))
                continue
            fm = re.fullmatch(r"self\.(\w+)\.write\(cursor\)\?", st)
            if fm:
                fty = structs.get(name, {}).get(fm.group(1))
                if fty in wrapper_ty:
                    wfields.append((fm.group(1), wrapper_ty[fty]))
                    continue
            api.broken("translator:%s:%s:write statement:%s" % (G, name, st[:50]))
            bad = True
        # every declared field must be read
        decl = structs.get(name)
        if decl is None or sorted(decl) != sorted(f for f, _ in rfields):
            api.broken("translator:%s:%s:struct fields differ from fields read" % (G, name))
            bad = True
        if not bad:
            fixed.append((g, v, size, rfields, wfields))
    fixed.sort()

    def fl(fs):
        return "[" + ", ".join('⟨"%s", .%s⟩' % (n, t) for n, t in fs) + "]"

    out += "/-- every `impl FixedSize for GroupXVarY` of app/variations.rs -/\n"
    out += "def fixedVars : List FixedVar := [\n"
    out += ",\n".join("  ⟨%d, %d, %d, %s, %s⟩" % (g, v, s, fl(r), fl(w)) for g, v, s, r, w in fixed)
    out += "\n]\n\nend Dnp3.Gen\n"
    if len(fixed) < 90:
        api.broken("translator:%s:only %d fixed-size variations recognised" % (G, len(fixed)))
    api.emit(G, out)
    api.report.setdefault("counts", {})["fixedVars"] = len(fixed)
    return {(g, v): s for g, v, s, _, _ in fixed}


# ------------------------------------------------------------------------------------------
def gen_qualifiers(api, sizes):
    G = "Qualifiers.lean"
    out = "import Dnp3.Gen.Variations\nnamespace Dnp3.Gen\n\n"
    out += "/-- a `Variation::...` match pattern: `GroupGVarV` = ⟨G, some V, false⟩, `GroupG(x)` = ⟨G, none, true⟩,\n"
    out += "    `GroupG(0)` = ⟨G, some 0, true⟩ -/\n"
    out += "structure Pat where\n  group : Nat\n  var : Option Nat\n  wild : Bool\n  deriving DecidableEq, Repr\n\n"
    out += "/-- what the arm of a qualifier table reads from the cursor -/\n"
    out += "inductive Payload\n"
    out += "  | none                     -- header only\n"
    out += "  | emptySeq                 -- READ: an `::empty()` sequence (no octets, no objects)\n"
    out += "  | bits | dbits             -- BitSequence / DoubleBitSequence over the range\n"
    out += "  | fixed (g v : Nat)        -- RangedSequence / CountSequence of GroupgVarv\n"
    out += "  | octets                   -- RangedBytesSequence sized by the variation octet\n"
    out += "  | attr                     -- Attribute::parse_from_range\n"
    out += "  | attrNone                 -- READ of a group 0 attribute: `Group0(var, None)`\n"
    out += "  | prefFixed (g v : Nat)    -- CountSequence of Prefix<I, GroupgVarv>\n"
    out += "  | prefOctets               -- PrefixedBytesSequence\n"
    out += "  | prefAttr                 -- Attribute::parse_prefixed\n"
    out += "  | file (v : Nat)           -- file::Group70Varv::read on the free-format sub-cursor\n"
    out += "  deriving DecidableEq, Repr\n\n"

    def table(name, doc, rows):
        s = "/-- %s -/\ndef %s : List (Pat × Payload) := [\n" % (doc, name)
        s += ",\n".join("  (%s, %s)" % (p, k) for p, k in rows)
        s += "\n]\n\n"
        return s

    def check_default(arms, where, expect):
        if not arms or arms[-1][0] != "_":
            api.broken("translator:%s:%s:no default arm" % (G, where))
            return arms
        if not re.fullmatch(expect, arms[-1][1].strip()):
            api.broken("translator:%s:%s:default arm:%s" % (G, where, arms[-1][1][:60]))
        return arms[:-1]

    def need_size(g, v, where):
        if (g, v) not in sizes:
            api.broken("translator:%s:%s:no FixedSize impl for Group%dVar%d" % (G, where, g, v))

    # ---- all.rs ----
    t = api.strip_tests(api.strip_comments(api.src(SRC + "gen/all.rs")))
    rows = []
    mb = _fn_match_body(api, G, t, "get")
    if mb is not None:
        arms = check_default(_split_arms(mb), "all.rs", r"None")
        for pat, expr in arms:
            p = _pat(api, G, "all.rs", pat)
            if p is None:
                continue
            if not re.fullmatch(r"Some\(AllObjectsVariation::Group\w+(\(var\))?\)", expr.strip()):
                api.broken("translator:%s:all.rs:arm:%s" % (G, expr[:60]))
                continue
            rows.append((p, ".none"))
    out += table("allObjects", "`AllObjectsVariation::get` (app/gen/all.rs)", rows)
    n_all = len(rows)

    # ---- count.rs ----
    t = api.strip_tests(api.strip_comments(api.src(SRC + "gen/count.rs")))
    et = _enum_types(t, "CountVariation") or {}
    rows = []
    mb = _fn_match_body(api, G, t, "parse")
    if mb is not None:
        arms = check_default(_split_arms(mb), "count.rs", r"Err\(ObjectParseError::InvalidQualifierForVariation\(v,\s*qualifier\)\)")
        for pat, expr in arms:
            p = _pat(api, G, "count.rs", pat)
            if p is None:
                continue
            e = expr.strip()
            m1 = re.fullmatch(r"Ok\(CountVariation::(Group\w+)\)", e)
            m2 = re.fullmatch(r"Ok\(CountVariation::(Group\w+)\(CountSequence::parse\(count,\s*cursor\)\?\)\)", e)
            m3 = re.fullmatch(r"Ok\(CountVariation::(Group\w+)\(x\)\)", e)
            if m1 or m3:
                rows.append((p, ".none"))
            elif m2:
                ty = et.get(m2.group(1), "")
                mt = re.fullmatch(r"CountSequence<'a,\s*Group(\d+)Var(\d+)>", ty)
                if not mt:
                    api.broken("translator:%s:count.rs:type of %s:%s" % (G, m2.group(1), ty[:50]))
                    continue
                need_size(int(mt.group(1)), int(mt.group(2)), "count.rs")
                rows.append((p, ".fixed %s %s" % (mt.group(1), mt.group(2))))
            else:
                api.broken("translator:%s:count.rs:arm:%s" % (G, e[:70]))
    out += table("countTable", "`CountVariation::parse` (app/gen/count.rs); the count does not select the arm", rows)
    n_count = len(rows)

    # ---- ranged.rs ----
    t = api.strip_tests(api.strip_comments(api.src(SRC + "gen/ranged.rs")))
    et = _enum_types(t, "RangedVariation") or {}
    rows = []
    mb = _fn_match_body(api, G, t, "parse_non_read")
    if mb is not None:
        arms = check_default(_split_arms(mb), "ranged.rs:parse_non_read", r"Err\(ObjectParseError::InvalidQualifierForVariation\(v,\s*qualifier\)\)")
        for pat, expr in arms:
            p = _pat(api, G, "ranged.rs", pat)
            if p is None:
                continue
            e = re.sub(r"\s+", " ", expr.strip())
            if e.startswith("{") and e.endswith("}"):
                e = e[1:-1].strip()
            m1 = re.fullmatch(r"Ok\(RangedVariation::(Group\w+)\)", e)
            m2 = re.fullmatch(r"Ok\(RangedVariation::(Group\w+)\((Bit|DoubleBit|Ranged)Sequence::parse\(range, cursor\)\?\)\)", e)
            m3 = re.fullmatch(r"Ok\(RangedVariation::Group0\(var, Some\(crate::app::attr::Attribute::parse_from_range\(var, range, cursor\)\?\)\)\)", e)
            m4 = re.fullmatch(r"Ok\(RangedVariation::(Group\w+)\(x, RangedBytesSequence::parse\(options, x, range\.get_start\(\), range\.get_count\(\), cursor\)\?\)\)", e)
            if m1:
                rows.append((p, ".none"))
            elif m2 and m2.group(2) == "Bit":
                rows.append((p, ".bits"))
            elif m2 and m2.group(2) == "DoubleBit":
                rows.append((p, ".dbits"))
            elif m2:
                ty = et.get(m2.group(1), "")
                mt = re.fullmatch(r"RangedSequence<'a,\s*Group(\d+)Var(\d+)>", ty)
                if not mt:
                    api.broken("translator:%s:ranged.rs:type of %s:%s" % (G, m2.group(1), ty[:50]))
                    continue
                need_size(int(mt.group(1)), int(mt.group(2)), "ranged.rs")
                rows.append((p, ".fixed %s %s" % (mt.group(1), mt.group(2))))
            elif m3:
                rows.append((p, ".attr"))
            elif m4:
                rows.append((p, ".octets"))
            else:
                api.broken("translator:%s:ranged.rs:parse_non_read arm:%s" % (G, e[:80]))
    out += table("rangedNonRead", "`RangedVariation::parse_non_read` (app/gen/ranged.rs)", rows)
    n_rnr = len(rows)
    rows = []
    mb = _fn_match_body(api, G, t, "parse_read")
    if mb is not None:
        arms = check_default(_split_arms(mb), "ranged.rs:parse_read", r"Err\(ObjectParseError::InvalidQualifierForVariation\(v,\s*qualifier\)\)")
        for pat, expr in arms:
            p = _pat(api, G, "ranged.rs", pat)
            if p is None:
                continue
            e = re.sub(r"\s+", " ", expr.strip())
            if re.fullmatch(r"Ok\(RangedVariation::Group\w+\)", e):
                rows.append((p, ".none"))
            elif re.fullmatch(r"Ok\(RangedVariation::Group\w+\((Bit|DoubleBit|Ranged)Sequence::empty\(\)\)\)", e):
                rows.append((p, ".emptySeq"))
            elif re.fullmatch(r"Ok\(RangedVariation::Group0\(var, None\)\)", e):
                rows.append((p, ".attrNone"))
            else:
                api.broken("translator:%s:ranged.rs:parse_read arm:%s" % (G, e[:80]))
    out += table("rangedRead", "`RangedVariation::parse_read` (app/gen/ranged.rs): no arm touches the cursor", rows)
    n_rr = len(rows)

    # the dispatcher in parser.rs: READ -> parse_read, everything else -> parse_non_read
    pr = api.strip_tests(api.strip_comments(api.src(SRC + "parse/parser.rs")))
    disp_ok = bool(re.search(
        r"match\s+function\s*\{\s*FunctionCode::Read\s*=>\s*Self::parse_read\(v,\s*qualifier\),\s*_\s*=>\s*Self::parse_non_read\(v,\s*qualifier,\s*range,\s*options,\s*cursor\),?\s*\}", pr))
    if not disp_ok:
        api.broken("translator:%s:parser.rs:RangedVariation::parse dispatch shape" % G)
    out += "/-- `RangedVariation::parse` dispatches READ to `parse_read` and every other function to `parse_non_read` -/\n"
    out += "def rangedDispatchOnReadOnly : Bool := %s\n\n" % ("true" if disp_ok else "false")

    # ---- prefixed.rs ----
    t = api.strip_tests(api.strip_comments(api.src(SRC + "gen/prefixed.rs")))
    et = _enum_types(t, "PrefixedVariation") or {}
    rows = []
    mb = _fn_match_body(api, G, t, "parse")
    if mb is not None:
        arms = check_default(_split_arms(mb), "prefixed.rs", r"Err\(ObjectParseError::InvalidQualifierForVariation\(v,\s*I::COUNT_AND_PREFIX_QUALIFIER\)\)")
        for pat, expr in arms:
            p = _pat(api, G, "prefixed.rs", pat)
            if p is None:
                continue
            e = re.sub(r"\s+", " ", expr.strip())
            m2 = re.fullmatch(r"Ok\(PrefixedVariation::(Group\w+)\(CountSequence::parse\(count, cursor\)\?\)\)", e)
            m3 = re.fullmatch(r"Ok\(PrefixedVariation::Group0\(crate::app::attr::Attribute::parse_prefixed::<I>\(var, count, cursor\)\?\)\)", e)
            m4 = re.fullmatch(r"Ok\(PrefixedVariation::(Group\w+)\(x, PrefixedBytesSequence::parse\(options, x, count, cursor\)\?\)\)", e)
            if m2:
                ty = et.get(m2.group(1), "")
                mt = re.fullmatch(r"CountSequence<'a,\s*Prefix<I,\s*Group(\d+)Var(\d+)>>", ty)
                if not mt:
                    api.broken("translator:%s:prefixed.rs:type of %s:%s" % (G, m2.group(1), ty[:50]))
                    continue
                need_size(int(mt.group(1)), int(mt.group(2)), "prefixed.rs")
                rows.append((p, ".prefFixed %s %s" % (mt.group(1), mt.group(2))))
            elif m3:
                rows.append((p, ".prefAttr"))
            elif m4:
                rows.append((p, ".prefOctets"))
            else:
                api.broken("translator:%s:prefixed.rs:arm:%s" % (G, e[:80]))
    out += table("prefixedTable", "`PrefixedVariation::parse` (app/gen/prefixed.rs), the same table for u8 and u16 prefixes", rows)
    n_pref = len(rows)

    # ---- free_format.rs ----
    t = api.strip_tests(api.strip_comments(api.src(SRC + "parse/free_format.rs")))
    rows = []
    mb = _fn_match_body(api, G, t, "parse")
    if mb is not None:
        arms = _split_arms(mb)
        if not arms or arms[-1][0] != "_" or "InvalidQualifierForVariation" not in arms[-1][1] or "FreeFormat16" not in arms[-1][1]:
            api.broken("translator:%s:free_format.rs:default arm" % G)
        else:
            arms = arms[:-1]
        for pat, expr in arms:
            p = _pat(api, G, "free_format.rs", pat)
            if p is None:
                continue
            e = re.sub(r"\s+", " ", expr.strip())
            if e.startswith("{") and e.endswith("}"):
                e = e[1:-1].strip()
            m1 = re.fullmatch(r"FreeFormatVariation::Group70Var(\d+)\(file::Group70Var(\d+)::read\(cursor\)\?\)", e)
            if not m1 or m1.group(1) != m1.group(2):
                api.broken("translator:%s:free_format.rs:arm:%s" % (G, e[:80]))
                continue
            rows.append((p, ".file %s" % m1.group(1)))
    out += table("freeFormat", "`FreeFormatVariation::parse` (app/parse/free_format.rs)", rows)

    # zero-length octet string guards
    by = api.strip_tests(api.strip_comments(api.src(SRC + "parse/bytes.rs")))
    n_guard = len(re.findall(r"if\s+variation\s*==\s*0\s*&&\s*!options\.parse_zero_length_strings\s*\{\s*return\s+Err\(ObjectParseError::ZeroLengthOctetData\);\s*\}", by))
    if n_guard != 2:
        api.broken("translator:%s:bytes.rs:zero-length guards (%d)" % (G, n_guard))
    out += "/-- both `RangedBytesSequence::parse` and `PrefixedBytesSequence::parse` reject variation 0 unless the option is set -/\n"
    out += "def zeroLengthGuards : Nat := %d\n\n" % n_guard
    out += "end Dnp3.Gen\n"
    api.emit(G, out)
    api.report.setdefault("counts", {}).update(
        {"allObjects": n_all, "countTable": n_count, "rangedNonRead": n_rnr, "rangedRead": n_rr, "prefixedTable": n_pref})
    for name, n, lo in [("allObjects", n_all, 100), ("countTable", n_count, 60), ("rangedNonRead", n_rnr, 40), ("rangedRead", n_rr, 40), ("prefixedTable", n_pref, 50)]:
        if n < lo:
            api.broken("translator:%s:%s has only %d rows" % (G, name, n))


# ------------------------------------------------------------------------------------------
def gen_appcodes(api):
    G = "AppCodes.lean"
    out = "namespace Dnp3.Gen.App\n\n"
    t = api.strip_tests(api.strip_comments(api.src(SRC + "app_enums.rs")))

    def enum_codes(enum):
        m = re.search(r"impl\s+" + enum + r"\s*\{", t)
        if not m:
            api.broken("translator:%s:impl %s" % (G, enum))
            return []
        body, _ = _body_after(t, m.end() - 1)
        mf = re.search(r"fn\s+from\s*\(x:\s*u8\)\s*->\s*Option<Self>", body)
        ma = re.search(r"fn\s+as_u8\s*\(self\)\s*->\s*u8", body)
        if not mf or not ma:
            api.broken("translator:%s:%s::from/as_u8" % (G, enum))
            return []
        fb, _ = _body_after(body, mf.end())
        ab, _ = _body_after(body, ma.end())
        frm = {}
        for mm in re.finditer(r"(0x[0-9A-Fa-f]+|\d+)\s*=>\s*Some\(" + enum + r"::(\w+)\)", fb):
            frm[mm.group(2)] = int(mm.group(1), 0)
        if not re.search(r"_\s*=>\s*None", fb):
            api.broken("translator:%s:%s::from default" % (G, enum))
        back = {}
        for mm in re.finditer(enum + r"::(\w+)\s*=>\s*(0x[0-9A-Fa-f]+|\d+)", ab):
            back[mm.group(1)] = int(mm.group(2), 0)
        if frm != back:
            api.broken("translator:%s:%s::from and as_u8 disagree" % (G, enum))
        return sorted(frm.items(), key=lambda kv: kv[1])

    fcs = enum_codes("FunctionCode")
    qcs = enum_codes("QualifierCode")
    out += "/-- `FunctionCode::from` / `as_u8` (checked to be mutually inverse on the listed codes) -/\n"
    out += "def functionCodes : List (String × Nat) := [\n" + ",\n".join('  ("%s", %d)' % kv for kv in fcs) + "\n]\n\n"
    out += "/-- `QualifierCode::from` / `as_u8` -/\n"
    out += "def qualifierCodes : List (String × Nat) := [\n" + ",\n".join('  ("%s", %d)' % kv for kv in qcs) + "\n]\n\n"
    need_f = ["Confirm", "Read", "Response", "UnsolicitedResponse"]
    for k in need_f:
        if k not in dict(fcs):
            api.broken("translator:%s:FunctionCode::%s" % (G, k))
    for k, v in fcs:
        if k in need_f:
            out += "def fn%s : Nat := %d\n" % (k, v)
    need_q = ["Range8", "Range16", "AllObjects", "Count8", "Count16", "CountAndPrefix8", "CountAndPrefix16", "FreeFormat16"]
    for k in need_q:
        if k not in dict(qcs):
            api.broken("translator:%s:QualifierCode::%s" % (G, k))
    for k, v in qcs:
        out += "def q%s : Nat := %d\n" % (k, v)
    out += "\n"

    h = api.strip_tests(api.strip_comments(api.src(SRC + "header.rs")))
    env, _ = api.resolve(api.consts(h))
    for k in ["FIR_MASK", "FIN_MASK", "CON_MASK", "UNS_MASK"]:
        m = re.search(r"const\s+" + k + r"\s*:\s*u8\s*=\s*(0b[01_]+|0x[0-9A-Fa-f_]+|\d+)\s*;", h)
        if not m:
            api.broken("translator:%s:ControlField::%s" % (G, k))
            continue
        out += "def %s : Nat := %d\n" % (api.camel(k), int(m.group(1).replace("_", ""), 0))
    s = api.strip_tests(api.strip_comments(api.src(SRC + "sequence.rs")))
    m = re.search(r"const\s+MAX_VALUE\s*:\s*u8\s*=\s*(0b[01_]+|0x[0-9A-Fa-f_]+|\d+)\s*;", s)
    if m and re.search(r"value:\s*x\s*&\s*Self::MAX_VALUE", s):
        out += "def seqMask : Nat := %d\n\n" % int(m.group(1).replace("_", ""), 0)
    else:
        api.broken("translator:%s:Sequence::MAX_VALUE / Sequence::new shape" % G)
    # shape of ControlField::from / to_u8, Iin::parse / write
    shape = all(re.search(p, h) for p in [
        r"fir:\s*x\s*&\s*Self::FIR_MASK\s*!=\s*0", r"fin:\s*x\s*&\s*Self::FIN_MASK\s*!=\s*0",
        r"con:\s*x\s*&\s*Self::CON_MASK\s*!=\s*0", r"uns:\s*x\s*&\s*Self::UNS_MASK\s*!=\s*0",
        r"seq:\s*Sequence::new\(x\)", r"x\s*\|=\s*self\.seq\.value\(\)",
        r"iin1:\s*Iin1::new\(cursor\.read_u8\(\)\?\),\s*iin2:\s*Iin2::new\(cursor\.read_u8\(\)\?\)",
        r"cursor\.write_u8\(self\.iin1\.value\)\?;\s*cursor\.write_u8\(self\.iin2\.value\)\?;",
    ])
    if not shape:
        api.broken("translator:%s:ControlField::from/to_u8 or Iin::parse/write shape" % G)
    out += "def controlFieldShapeOk : Bool := %s\n\n" % ("true" if shape else "false")
    # IIN bit names
    bits = api.strip_comments(api.src("dnp3/src/util/bit.rs"))
    bitval = {}
    for mm in re.finditer(r"const\s+(BIT_\d)\s*:\s*BitMask\s*=\s*BitMask\s*\{\s*value:\s*(0b[01_]+)\s*\}", bits):
        bitval[mm.group(1)] = int(mm.group(2).replace("_", ""), 0)
    for which in ["Iin1", "Iin2"]:
        rows = []
        for mm in re.finditer(r"pub const (\w+):\s*" + which + r"\s*=\s*" + which + r"::new\((BIT_\d)\.value\)", h):
            if mm.group(2) not in bitval:
                api.broken("translator:%s:%s::%s" % (G, which, mm.group(1)))
                continue
            rows.append((mm.group(1), bitval[mm.group(2)]))
        if not rows:
            api.broken("translator:%s:%s bits" % (G, which))
        out += "def %sBits : List (String × Nat) := [%s]\n" % (which.lower(), ", ".join('("%s", %d)' % r for r in rows))
    out += "\n"
    # attribute data types
    a = api.strip_tests(api.strip_comments(api.src(SRC + "attr.rs")))
    names = ["VISIBLE_STRING", "UNSIGNED_INT", "SIGNED_INT", "FLOATING_POINT", "OCTET_STRING", "BIT_STRING", "DNP3_TIME", "ATTR_LIST", "EXT_ATTR_LIST"]
    for k in names:
        m = re.search(r"const\s+" + k + r"\s*:\s*u8\s*=\s*(\d+)\s*;", a)
        if not m:
            api.broken("translator:%s:attr.rs:%s" % (G, k))
            continue
        out += "def attr%s : Nat := %s\n" % ("".join(p.capitalize() for p in k.lower().split("_")), m.group(1))
    m = re.search(r"impl\s+AttrDataType\s*\{", a)
    okget = False
    if m:
        b, _ = _body_after(a, m.end() - 1)
        okget = all(re.search(k + r"\s*=>\s*Some\(Self::", b) for k in names) and bool(re.search(r"_\s*=>\s*None", b))
    if not okget:
        api.broken("translator:%s:attr.rs:AttrDataType::get" % G)
    out += "\n"
    # group 70 fixed offsets
    for f, k, nm in [("g70v2", "USER_NAME_OFFSET", "g70v2UserNameOffset"), ("g70v3", "FILE_NAME_OFFSET", "g70v3FileNameOffset"), ("g70v7", "FILE_NAME_OFFSET", "g70v7FileNameOffset")]:
        ft = api.strip_comments(api.src(SRC + "file/" + f + ".rs"))
        m = re.search(r"const\s+" + k + r"\s*:\s*u16\s*=\s*(\d+)\s*;", ft)
        if not m:
            api.broken("translator:%s:file/%s.rs:%s" % (G, f, k))
            continue
        out += "def %s : Nat := %s\n" % (nm, m.group(1))
    out += "\nend Dnp3.Gen.App\n"
    api.emit(G, out)
    # change-directed effort hashes of the hand-modelled functions
    for fn in ["parse_no_logging", "to_request", "to_response", "parse_one", "parse_one_inner", "parse_all_objects", "parse_count_u8",
               "parse_count_u16", "parse_start_stop_u8", "parse_start_stop_u16", "parse_count_and_prefix_u8",
               "parse_count_and_prefix_u16", "parse_free_format_u16"]:
        api.report["hashes"]["app/parse/parser.rs::" + fn] = api.fn_hash(SRC + "parse/parser.rs", fn)
    for f, fns in [("parse/range.rs", ["from", "parse", "next"]), ("parse/count.rs", ["parse", "next"]),
                   ("parse/bytes.rs", ["parse", "next"]), ("parse/bit.rs", ["num_bytes_for_bits", "num_bytes_for_double_bits", "next"]),
                   ("attr.rs", ["parse_from_range", "parse_prefixed", "from_range", "parse_attr_list"])]:
        for fn in fns:
            api.report["hashes"]["app/%s::%s" % (f, fn)] = api.fn_hash(SRC + f, fn)


def generate(api):
    sizes = gen_variations(api)
    gen_qualifiers(api, sizes or {})
    gen_appcodes(api)
