#!/usr/bin/env python3
"""mkwrappers.py -- restate selected theorems of a Proofs file in a Props file.

  mkwrappers.py <proofs.lean> <proofs namespace> <name,name,...>

prints, for each theorem, its docstring (if any), its exact signature and the body
`@<namespace>.<name> <binder names…>` so that the property file carries the full statement and the
kernel re-checks that it is the one proved.
"""
import re
import sys


def find_sig(src, name):
    m = re.search(r"^theorem\s+" + re.escape(name) + r"\b", src, flags=re.M)
    if not m:
        raise SystemExit("theorem not found: " + name)
    i = m.end()
    depth = 0
    j = i
    lets = 0
    while j < len(src):
        c = src[j]
        if src.startswith("--", j):
            j = src.find("\n", j)
            continue
        if c in "([{⟨":
            depth += 1
        elif c in ")]}⟩":
            depth -= 1
        elif depth == 0 and re.match(r"\blet\b", src[j:j + 4]) and (j == 0 or not src[j - 1].isalnum()):
            lets += 1
        elif depth == 0 and src.startswith(":=", j):
            if lets:
                lets -= 1
            else:
                break
        j += 1
    sig = re.sub(r"--[^\n]*", "", src[i:j]).rstrip()
    # docstring directly above
    doc = ""
    k = src.rfind("/--", 0, m.start())
    if k >= 0:
        e = src.find("-/", k)
        between = src[e + 2:m.start()]
        if e >= 0 and re.fullmatch(r"(\s|set_option[^\n]*\bin\b|@\[[^\]]*\])*", between or ""):
            doc = src[k:e + 2]
    return doc, sig


def split_binders(sig):
    """returns (binder text, type text, [binder names])"""
    depth = 0
    k = None
    for idx, c in enumerate(sig):
        if c in "([{⟨":
            depth += 1
        elif c in ")]}⟩":
            depth -= 1
        elif c == ":" and depth == 0 and not sig.startswith(":=", idx):
            k = idx
            break
    binders, ty = sig[:k], sig[k + 1:]
    names = []
    for m in re.finditer(r"[\(\{]([^\(\)\{\}]*?):", binders):
        for n in m.group(1).split():
            names.append(n)
    # nested parentheses inside binder types confuse the simple regex: recompute by scanning
    names = []
    i = 0
    while i < len(binders):
        c = binders[i]
        if c in "({[":
            close = {"(": ")", "{": "}", "[": "]"}[c]
            d = 1
            j = i + 1
            while j < len(binders) and d:
                if binders[j] == c:
                    d += 1
                elif binders[j] == close:
                    d -= 1
                j += 1
            inner = binders[i + 1:j - 1]
            # names up to the first top-level ':'
            dd = 0
            for q, ch in enumerate(inner):
                if ch in "([{⟨":
                    dd += 1
                elif ch in ")]}⟩":
                    dd -= 1
                elif ch == ":" and dd == 0:
                    for n in inner[:q].split():
                        names.append(("inst" if c == "[" else "named", n))
                    break
            else:
                if c == "[":
                    names.append(("inst", None))
            i = j
        else:
            i += 1
    return binders, ty, names


def main():
    src = open(sys.argv[1]).read()
    ns = sys.argv[2]
    for name in sys.argv[3].split(","):
        doc, sig = find_sig(src, name)
        binders, ty, names = split_binders(sig)
        args = " ".join(n if kind == "named" else "_" for kind, n in names)
        if doc:
            print(doc)
        print("theorem %s%s :%s :=\n  @%s.%s %s\n" % (name, binders.rstrip() and " " + binders.strip(), ty.rstrip(), ns, name, args))


if __name__ == "__main__":
    main()
