"""per-property configuration of ./check: one file per property under tools/props/"""
import importlib
import os
import sys

_d = os.path.join(os.path.dirname(os.path.abspath(__file__)), "props")
sys.path.insert(0, _d)
PROPS = {}
for _f in sorted(os.listdir(_d)):
    if _f.startswith("C") and _f.endswith(".py"):
        PROPS[_f[:-3]] = importlib.import_module(_f[:-3]).CFG

# generator engine name -> model driver engine name (when they differ)
ENGINE_MODEL = {"linkaddr": "transport", "outstationdb": "outstation"}
for _c in PROPS.values():
    ENGINE_MODEL.update(_c.get("engine_model", {}))

# properties not (yet) claimed, with the reason
NOT_APPLICABLE = {
    "C%02d" % i: "machinery for this property is not built yet in this revision (see DESIGN.md build order); no claim is made" for i in range(1, 21)
}
