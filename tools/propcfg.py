"""per-property configuration of ./check"""

PROPS = {
    "C06": {
        "module": "Dnp3.Props.C06",
        "gen": ["Link.lean", "CrcTable.lean"],
        "engines": ["link"],
        "monitors": None,  # all monitors of the engine
        "exhaustive_thorough": True,
        "rule": "engine link: (1) format of all 256 control octets and all app lengths 0..251; (2) every payload length 0..=250 x single split points (all of them in thorough); (3) multi-frame streams under 6 chunking styles; (4) bit errors of weight 1,2,3 and heavier (thorough: every single-bit error of one frame per length); (5) discard-mode noise prefixes; (6) datagram sequences. distinct = distinct canonical op lists; every case runs the real Reader/Parser over the pipe",
        "trusted_base": [
            "hand-written Lean model of link/{parser,reader,format}.rs tied by differential execution (engine link)",
            "CRC table, CRC_OF_0564 and link constants regenerated from source (Gen/Link.lean)",
            "physical layer read contract (returns 1..=len octets) assumed; real sockets not modelled",
        ],
        "assumptions": ["PhysLayer::read returns between 1 and buffer.len() octets"],
        "level_text": "Lean theorems about the link parser/reader/CRC model for all frames, payload lengths, chunkings and error patterns (parser soundness, CRC table = bit-serial CRC-16/DNP, round trip), model tied to the code by the regenerated CRC table/constants and by differential execution of the real Reader/Parser/format functions against the compiled model, with exhaustive split-point and single-bit-error engines",
        "level_note": "trusted: Lean kernel (+ propext/Classical.choice/Quot.sound), translate.py, the correspondence harness; the Rust is modelled, not verified; physical read contract assumed",
    },
}

PROPS["C07"] = {
    "module": "Dnp3.Props.C07",
    "gen": ["Link.lean"],
    "engines": ["linkaddr"],
    "monitors": ["acts_only_if_addressed", "broadcast_never_acked", "link_status_answered", "confirmed_once_per_toggle"],
    "exhaustive_quick": True, "exhaustive_thorough": True,
    "rule": "engine linkaddr: exhaustive link addressing table = 256 control octets x 7 destination classes x 4 source classes x 3 secondary states x role x self-address feature (quick: full 256 octets for every combination with a valid source or own destination, stride 5 elsewhere; thorough: all), through the real transport Reader/link Layer over the pipe; plus random confirmed-data FCB histories with resets and broadcasts",
    "trusted_base": ["hand-written Lean transcription of Layer::process_header tied by the exhaustive table through the real Layer", "link masks/function codes/special addresses regenerated from source"],
    "assumptions": ["application-level part (foreign master / broadcast fragments in the outstation session) is covered by the outstation engine when built"],
    "level_text": "Lean theorems over processHeader for every control octet, address and secondary state (acts only if addressed, broadcasts never acknowledged, link status answered, confirmed data once per FCB toggle); tie: constants regenerated, exhaustive decision-table correspondence through the real link Layer",
    "level_note": "trusted: Lean kernel, translate.py, harness; Rust modelled not verified",
}
PROPS["C08"] = {
    "module": "Dnp3.Props.C08",
    "gen": [],
    "engines": ["transport"],
    "monitors": ["delivered_fragment_is_contiguous_run", "well_formed_fragment_delivered_intact", "oversize_fragment_not_delivered", "writer_segments_as_specified"],
    "exhaustive_thorough": True,
    "rule": "engine transport: fragment lengths 1..=2048 (thorough: all x seq0 {0,1,62,63} x rx {249,250,497,498,2048}; quick: boundaries + stride 37) segmented by an independent reference segmenter and fed re-chunked to the real transport Reader; writer sequences; segment streams damaged by drop/duplicate/swap/re-address/flag-flip/broadcast-insert/interleave followed by a fresh fragment",
    "trusted_base": ["hand-written Lean model of transport/real/{assembler,reader,writer,header,sequence}.rs tied by differential execution"],
    "assumptions": [],
    "level_text": "Lean theorems about the assembler/segmenter model (header octet round trip, sequence wrap, frame-id law, segment/reassemble, delivered-is-run) for all fragment lengths, sequence numbers and segment histories; tie: differential correspondence of the real Reader/Writer against the compiled model",
    "level_note": "trusted: Lean kernel, harness; Rust modelled not verified",
}

ENGINE_MODEL = {"linkaddr": "transport"}

# properties not (yet) claimed, with the reason
NOT_APPLICABLE = {
    "C%02d" % i: "machinery for this property is not built yet in this revision (see DESIGN.md build order); no claim is made" for i in range(1, 21)
}
