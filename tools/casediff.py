#!/usr/bin/env python3
"""show the first differing case(s) of an engine run: tools/casediff.py <ops> <impl> <model> [n] [width]"""
import sys
def split(path):
    cases=[]; cur=None
    for line in open(path):
        line=line.rstrip("\n")
        if line.startswith("# case"):
            cur=[line,[]]; cases.append(cur)
        elif cur is not None: cur[1].append(line)
    return cases
ops,impl,model=split(sys.argv[1]),split(sys.argv[2]),split(sys.argv[3])
n=int(sys.argv[4]) if len(sys.argv)>4 else 1
W=int(sys.argv[5]) if len(sys.argv)>5 else 100
md={c[0]:c[1] for c in model}; od={c[0]:c[1] for c in ops}
bad=[c for c in impl if md.get(c[0])!=c[1]]
print("differing cases:",len(bad),"of",len(impl))
for c in bad[:n]:
    print(c[0])
    o=[l for l in od[c[0]] if not l.startswith("@")]
    # align outputs per op using 'ok' markers
    def chunks(lines):
        res=[]; cur=[]
        for l in lines:
            if l=="ok": res.append(cur); cur=[]
            else: cur.append(l)
        if cur: res.append(cur)
        return res
    ic,mc=chunks(c[1]),chunks(md.get(c[0],[]))
    oi=0
    ops_with_out=[l for l in o if l.split()]
    for k in range(max(len(ic),len(mc))):
        a=ic[k] if k<len(ic) else ["<none>"]; b=mc[k] if k<len(mc) else ["<none>"]
        op=ops_with_out[k] if k<len(ops_with_out) else "?"
        mark="   " if a==b else "!! "
        print(mark+"OP "+op[:W])
        if a!=b:
            for x in a: print("     impl  "+x[:W])
            for x in b: print("     model "+x[:W])
        else:
            for x in a: print("       "+x[:W])
        if a!=b: break
