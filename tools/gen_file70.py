"""gen_file70.py -- Gen/File70.lean: the tabular part of the group-70 (file transfer) object code.

Regenerated from the Rust source on every run:

  dnp3/src/app/file/g70v2.rs .. g70v8.rs
    * the `*_OFFSET` constants
    * `fn write`: the sequence of cursor writes, each as (what, width): a constant offset, the size of a
      string (`byte_length(self.f)`), the checked sum of offset and size (g70v2 password offset), a struct
      field (its width from the `write_*` call, `Timestamp` = 6 octets, `Permissions` = 2), the octets of a
      string / data field
    * `fn read`: the sequence of cursor reads (widths; `read_bytes(<len>)` / `read_all()`), which size
      variable each `read_bytes` uses, and the offset comparisons
  dnp3/src/app/file/mod.rs
    * `byte_length` (must be the octet length `s.len()`), `FileStatus::new` / `to_u8`, `FileType::new` / `to_u16`
  dnp3/src/master/file.rs
    * `FileMode::new` / `to_u16`, `BlockNumber::TOP_BIT`
  dnp3/src/app/file/permissions.rs
    * `PermissionSet::value` bits, `Permissions::value` shifts, the nine read masks and which field reads which
  dnp3/src/master/tasks/file/{mod,authenticate,open,close,get_info,write_block,read}.rs
    * `REQUEST_ID`, and every `Group70VarN { field: expr, .. }` literal of the request builders with the
      function code the task announces
  dnp3/src/app/format/free_format.rs, dnp3/src/app/format/write.rs
    * which variations implement `FreeFormat` in a non-test build, and the steps of `write_free_format`

A construct that does not have the expected shape is a broken tie (`api.broken`), never skipped.
"""
import re

G = "File70.lean"
DIR = "dnp3/src/app/file/"


def block_at(text, i):
    """text inside the brace group opening at or after index i"""
    i = text.find("{", i)
    if i < 0:
        return None
    depth = 0
    j = i
    while j < len(text):
        if text[j] == "{":
            depth += 1
        elif text[j] == "}":
            depth -= 1
            if depth == 0:
                return text[i + 1 : j]
        j += 1
    return None


def block(text, start_re):
    m = re.search(start_re, text)
    if not m:
        return None
    return block_at(text, m.end() - 1)


def split_statements(body):
    """top-level `;`-separated statements of a function body (braces / parens respected)"""
    res, depth, cur = [], 0, ""
    for c in body:
        if c in "{([":
            depth += 1
        elif c in "})]":
            depth -= 1
        if c == ";" and depth == 0:
            if cur.strip():
                res.append(" ".join(cur.split()))
            cur = ""
        else:
            cur += c
    if cur.strip():
        res.append(" ".join(cur.split()))
    return res


def lean_str(s):
    return '"' + s.replace("\\", "\\\\").replace('"', '\\"') + '"'


def lean_rows(rows):
    return "[" + ", ".join("(%s, %s)" % (lean_str(a), lean_str(b)) for a, b in rows) + "]"


WIDTH = {"write_u8": "u8", "write_u16_le": "u16", "write_u32_le": "u32",
         "read_u8": "u8", "read_u16_le": "u16", "read_u32_le": "u32"}


def int_lit(s):
    s = s.strip().replace("_", "")
    try:
        return int(s, 0)
    except ValueError:
        return None


def parse_variation(api, n, bad):
    """-> (consts, write rows, read rows, read checks)"""
    path = DIR + "g70v%d.rs" % n
    t = api.strip_tests(api.strip_comments(api.src(path)))
    tag = "g70v%d.rs" % n
    consts = {}
    for m in re.finditer(r"const\s+([A-Z_]+)\s*:\s*u16\s*=\s*(\d+)\s*;", t):
        consts[m.group(1)] = int(m.group(2))
    # struct fields and their types
    sb = block(t, r"pub\(crate\)\s+struct\s+Group70Var%d(<'a>)?\s*\{" % n)
    ftypes = {}
    if sb is None:
        bad(tag + ":struct")
    else:
        for m in re.finditer(r"pub\(crate\)\s+(\w+)\s*:\s*([^,]+),", sb):
            ftypes[m.group(1)] = " ".join(m.group(2).split())
        if len(ftypes) != sb.count(":"):
            bad(tag + ":struct fields")

    def field_kind(f, how):
        ty = ftypes.get(f)
        if ty is None:
            bad(tag + ":unknown field " + f)
            return "?"
        if how == "write()":
            return {"Timestamp": "u48", "Permissions": "perm"}.get(ty) or bad(tag + ":write() of " + ty) or "?"
        return how

    # ---- write ------------------------------------------------------------------------------
    wrows = []
    wm = re.search(r"fn\s+write\s*\(\s*&self\s*,\s*cursor\s*:\s*&mut\s+(scursor::)?WriteCursor\s*,?\s*\)\s*->\s*Result<\(\),\s*[\w:]+>\s*\{", t)
    if not wm:
        bad(tag + ":fn write")
    else:
        body = block_at(t, wm.end() - 1)
        env = {}
        stmts = split_statements(body)
        for s in stmts:
            m = re.fullmatch(r"let (\w+) = byte_length\(self\.(\w+)\)\?", s)
            if m:
                env[m.group(1)] = "size:" + m.group(2)
                continue
            m = re.fullmatch(r"let (\w+) = match Self::(\w+)\.checked_add\((\w+)\) \{ None => return Err\(WriteError::Overflow\), Some\(x\) => x, \}", s)
            if m and m.group(3) in env:
                env[m.group(1)] = "sum:%s+%s" % (m.group(2), env[m.group(3)])
                continue
            m = re.fullmatch(r"cursor\.(write_u16_le)\(Self::(\w+)\)\?", s)
            if m:
                wrows.append(("const:" + m.group(2), "u16"))
                continue
            m = re.fullmatch(r"cursor\.(write_u16_le)\(byte_length\(self\.(\w+)\)\?\)\?", s)
            if m:
                wrows.append(("size:" + m.group(2), "u16"))
                continue
            m = re.fullmatch(r"cursor\.(write_u16_le)\((\w+)\)\?", s)
            if m and m.group(2) in env:
                wrows.append((env[m.group(2)], "u16"))
                continue
            m = re.fullmatch(r"cursor\.(write_u8|write_u16_le|write_u32_le)\(self\.(\w+)(\.to_u8\(\)|\.to_u16\(\))?\)\?", s)
            if m:
                k = WIDTH[m.group(1)]
                conv = m.group(3)
                if conv and ((conv == ".to_u8()") != (k == "u8")):
                    bad(tag + ":write:" + s)
                wrows.append(("field:" + m.group(2), field_kind(m.group(2), k)))
                continue
            m = re.fullmatch(r"self\.(\w+)\.write\(cursor\)\?", s)
            if m:
                wrows.append(("field:" + m.group(1), field_kind(m.group(1), "write()")))
                continue
            m = re.fullmatch(r"cursor\.write_bytes\(self\.(\w+)(\.as_bytes\(\))?\)\??", s)
            if m:
                ty = ftypes.get(m.group(1), "")
                if (m.group(2) is not None) != (ty == "&'a str") or (m.group(2) is None and ty != "&'a [u8]"):
                    bad(tag + ":write_bytes of " + ty)
                wrows.append(("bytes:" + m.group(1), "bytes"))
                continue
            if s == "Ok(())":
                continue
            bad(tag + ":write statement:" + s[:60])
        if "cursor." in re.sub(r"cursor\.write_\w+\(", "", body).replace(".write(cursor)", ""):
            bad(tag + ":write:other cursor use")

    # ---- read -------------------------------------------------------------------------------
    rrows, checks = [], []
    rm = re.search(r"fn\s+read\s*\(\s*cursor\s*:\s*&mut\s+(scursor::)?ReadCursor<'a>\s*\)\s*->\s*Result<Self,\s*ReadError>\s*\{", t)
    if not rm:
        bad(tag + ":fn read")
    else:
        body = block_at(t, rm.end() - 1)
        pat = (r"cursor\.(read_u8|read_u16_le|read_u32_le)\(\)\?|(Timestamp)::read\(cursor\)\?|(Permissions)::read\(cursor\)\?"
               r"|cursor\.read_bytes\((\w+) as usize\)\?|cursor\.(read_all)\(\)")
        for m in re.finditer(pat, body):
            if m.group(1):
                rrows.append(("-", WIDTH[m.group(1)]))
            elif m.group(2):
                rrows.append(("-", "u48"))
            elif m.group(3):
                rrows.append(("-", "perm"))
            elif m.group(4):
                rrows.append((m.group(4), "bytes"))
            else:
                rrows.append(("*", "bytes"))
        if len(re.findall(r"\bcursor\b", body)) != len(rrows):
            bad(tag + ":read:%d cursor uses, %d parsed" % (len(re.findall(r"\bcursor\b", body)), len(rrows)))
        # the variable each u16 read is bound to, in order
        binds = re.findall(r"let (\w+)(?:\s*:\s*u16)? = cursor\.read_u16_le\(\)\?", " ".join(body.split()))
        flat = " ".join(body.split())
        for m in re.finditer(r"if (\w+) != (Self::)?(\w+) \{ return Err\(ReadError::BadOffset", flat):
            checks.append("%s!=%s" % (m.group(1), m.group(3)))
        for m in re.finditer(r"let (\w+) = match Self::(\w+)\.checked_add\((\w+)\) \{ None => return Err\(ReadError::Overflow\), Some\(x\) => x, \}", flat):
            checks.append("%s=%s+%s" % (m.group(1), m.group(2), m.group(3)))
        if flat.count("return Err") != len(checks):
            bad(tag + ":read:%d early returns, %d understood" % (flat.count("return Err"), len(checks)))
        nstr = len(re.findall(r"std::str::from_utf8\(", flat))
        checks.append("utf8*%d" % nstr)
        checks.append("u16binds:" + ",".join(binds))
    return consts, wrows, rrows, checks, ftypes


def enum_codes(api, text, tag, name, ty, other, bad):
    """`fn new(value: ty) -> Self { match value { N => Self::V, .. _ => Self::Other(value) } }` and the inverse"""
    imp = block(text, r"impl\s+%s\s*\{" % name)
    if imp is None:
        bad(tag + ":impl " + name)
        return []
    nb = block(imp, r"fn\s+new\s*\(\s*value\s*:\s*%s\s*\)\s*->\s*Self\s*\{" % ty)
    tb = block(imp, r"fn\s+to_%s\s*\(\s*self\s*\)\s*->\s*%s\s*\{" % (ty, ty))
    if nb is None or tb is None:
        bad(tag + ":%s::new / to_%s" % (name, ty))
        return []
    new = [(int(c), v) for c, v in re.findall(r"(\d+)\s*=>\s*Self::(\w+)\s*,", nb)]
    if nb.count("=>") != len(new) + 1 or not re.search(r"_\s*=>\s*Self::%s\(value\)\s*,?" % other, nb) or not re.search(r"match\s+value\s*\{", nb):
        bad(tag + ":%s::new:arm shape" % name)
    to = [(v, int(c)) for v, c in re.findall(r"(?:Self|%s)::(\w+)\s*=>\s*(\d+)\s*," % name, tb)]
    if tb.count("=>") != len(to) + 1 or not re.search(r"(?:Self|%s)::%s\(x\)\s*=>\s*x\s*,?" % (name, other), tb):
        bad(tag + ":%s::to_%s:arm shape" % (name, ty))
    if sorted(new) != sorted((c, v) for v, c in to):
        bad(tag + ":%s:new and to_%s are not inverse" % (name, ty))
    return new


def generate(api):
    bad = lambda what: api.broken("translator:%s:%s" % (G, what))
    o = "namespace Dnp3.Gen.File70\n\n"

    # ---- object layouts --------------------------------------------------------------------
    o += "/-- `Group70VarN::write`: (what, width) of every cursor write, in order.  what = `const:<NAME>` |\n"
    o += "    `size:<string field>` | `sum:<NAME>+size:<field>` (checked) | `field:<name>` | `bytes:<name>`;\n"
    o += "    width = u8 | u16 | u32 | u48 (`Timestamp`) | perm (`Permissions`, 2 octets) | bytes -/\n"
    wl, rl, cl, cs = [], [], [], []
    for n in range(2, 9):
        try:
            consts, wrows, rrows, checks, _ = parse_variation(api, n, bad)
        except OSError:
            bad("g70v%d.rs:missing" % n)
            continue
        wl.append("  (%d, %s)" % (n, lean_rows(wrows)))
        rl.append("  (%d, %s)" % (n, lean_rows(rrows)))
        cl.append("  (%d, [%s])" % (n, ", ".join(lean_str(c) for c in checks)))
        for k, v in sorted(consts.items()):
            cs.append("  (%d, %s, %d)" % (n, lean_str(k), v))
    o += "def writeLayout : List (Nat × List (String × String)) := [\n" + ",\n".join(wl) + "\n]\n\n"
    o += "/-- `Group70VarN::read`: every cursor read, in order: (length variable of a `read_bytes` | `*` = `read_all` | `-`, width) -/\n"
    o += "def readLayout : List (Nat × List (String × String)) := [\n" + ",\n".join(rl) + "\n]\n\n"
    o += "/-- `Group70VarN::read`: the early returns (offset comparisons, checked sum), the number of `from_utf8` calls,\n"
    o += "    the variables the u16 reads are bound to, in order -/\n"
    o += "def readChecks : List (Nat × List String) := [\n" + ",\n".join(cl) + "\n]\n\n"
    o += "def offsetConsts : List (Nat × String × Nat) := [\n" + ",\n".join(cs) + "\n]\n\n"

    # ---- mod.rs ------------------------------------------------------------------------------
    mod = api.strip_tests(api.strip_comments(api.src(DIR + "mod.rs")))
    bl = block(mod, r"fn\s+byte_length\s*\(\s*s\s*:\s*&str\s*\)\s*->\s*Result<u16,\s*crate::app::format::Overflow>\s*\{")
    expr = "?"
    if bl is None:
        bad("mod.rs:byte_length")
    else:
        m = re.fullmatch(r"\s*crate::app::format::to_u16\((.*)\)\s*", bl, flags=re.S)
        if not m:
            bad("mod.rs:byte_length:body")
        else:
            expr = "".join(m.group(1).split())
    o += "/-- the argument of `to_u16` in `byte_length(s: &str)`: `s.len()` is the length in octets -/\n"
    o += "def byteLengthExpr : String := %s\n\n" % lean_str(expr)
    fmt = api.strip_tests(api.strip_comments(api.src("dnp3/src/app/format/mod.rs")))
    if not re.search(r"fn\s+to_u16<X:\s*TryInto<u16>>\(x:\s*X\)\s*->\s*Result<u16,\s*Overflow>\s*\{\s*x\.try_into\(\)\.map_err\(\|_\|\s*Overflow\)\s*\}", fmt):
        bad("format/mod.rs:to_u16")
    status = enum_codes(api, mod, "mod.rs", "FileStatus", "u8", "Other", bad)
    ftype = enum_codes(api, mod, "mod.rs", "FileType", "u16", "Other", bad)
    mf = api.strip_tests(api.strip_comments(api.src("dnp3/src/master/file.rs")))
    fmode = enum_codes(api, mf, "master/file.rs", "FileMode", "u16", "Reserved", bad)
    for nm, rows in (("fileStatusCodes", status), ("fileTypeCodes", ftype), ("fileModeCodes", fmode)):
        o += "def %s : List (Nat × String) := [%s]\n" % (nm, ", ".join("(%d, %s)" % (c, lean_str(v)) for c, v in rows))
    m = re.search(r"const\s+TOP_BIT\s*:\s*u32\s*=\s*(0x[0-9A-Fa-f_]+)\s*;", mf)
    top = int_lit(m.group(1)) if m else None
    if top is None or not re.search(r"pub\(crate\)\s+fn\s+wire_value\(self\)\s*->\s*u32\s*\{\s*self\.0\s*\}", mf):
        bad("master/file.rs:BlockNumber::TOP_BIT / wire_value")
        top = 0
    o += "def blockTopBit : Nat := %d\n\n" % top

    # ---- permissions.rs ------------------------------------------------------------------------
    pm = api.strip_tests(api.strip_comments(api.src(DIR + "permissions.rs")))
    setbits = []
    vb = block(block(pm, r"impl\s+PermissionSet\s*\{") or "", r"fn\s+value\s*\(\s*self\s*\)\s*->\s*u16\s*\{")
    if vb is None:
        bad("permissions.rs:PermissionSet::value")
    else:
        setbits = [(f, int(b, 2)) for f, b in re.findall(r"if\s+self\.(\w+)\s*\{\s*x\s*\|=\s*0b([01]+)\s*;\s*\}", vb)]
        if len(setbits) != 3 or vb.count("self.") != 3:
            bad("permissions.rs:PermissionSet::value:shape")
    impls = [block_at(pm, m.end() - 1) for m in re.finditer(r"impl\s+Permissions\s*\{", pm)]
    allp = "\n".join(x for x in impls if x)
    shifts = []
    pv = block(allp, r"fn\s+value\s*\(\s*self\s*\)\s*->\s*u16\s*\{")
    m = re.fullmatch(r"\s*self\.(\w+)\.value\(\)\s*\|\s*\(self\.(\w+)\.value\(\)\s*<<\s*(\d+)\)\s*\|\s*\(self\.(\w+)\.value\(\)\s*<<\s*(\d+)\)\s*", pv or "")
    if not m:
        bad("permissions.rs:Permissions::value")
    else:
        shifts = [(m.group(1), 0), (m.group(2), int(m.group(3))), (m.group(4), int(m.group(5)))]
    masks = {k: int(v) for k, v in re.findall(r"const\s+([A-Z]{2})\s*:\s*Mask\s*=\s*Mask::bit\((\d+)\)\s*;", allp)}
    if len(masks) != 9 or not re.search(r"const\s+fn\s+bit\(bit:\s*u8\)\s*->\s*Self\s*\{\s*Self\(1\s*<<\s*bit\)\s*\}", pm) \
            or not re.search(r"fn\s+is_set\(self,\s*value:\s*u16\)\s*->\s*bool\s*\{\s*self\.0\s*&\s*value\s*!=\s*0\s*\}", pm):
        bad("permissions.rs:Mask")
    reads = []
    rb = block(allp, r"fn\s+read\s*\(\s*cursor\s*:\s*&mut\s+ReadCursor\s*\)\s*->\s*Result<Self,\s*scursor::ReadError>\s*\{")
    if rb is None or not re.search(r"let\s+bits\s*=\s*cursor\.read_u16_le\(\)\?\s*;", rb):
        bad("permissions.rs:Permissions::read")
    else:
        for who, inner in re.findall(r"(\w+)\s*:\s*PermissionSet\s*\{([^}]*)\}", rb):
            for what, mk in re.findall(r"(\w+)\s*:\s*Self::([A-Z]{2})\.is_set\(bits\)", inner):
                if mk not in masks:
                    bad("permissions.rs:read:mask " + mk)
                else:
                    reads.append((who, what, masks[mk]))
        if len(reads) != 9:
            bad("permissions.rs:Permissions::read:%d fields" % len(reads))
    if not re.search(r"fn\s+write\(&self,\s*cursor:\s*&mut\s+WriteCursor\)\s*->\s*Result<\(\),\s*scursor::WriteError>\s*\{\s*cursor\.write_u16_le\(self\.value\(\)\)\s*\}", allp):
        bad("permissions.rs:Permissions::write")
    o += "/-- `PermissionSet::value`: (field, bit value) -/\n"
    o += "def permSetBits : List (String × Nat) := [%s]\n" % ", ".join("(%s, %d)" % (lean_str(f), b) for f, b in setbits)
    o += "/-- `Permissions::value`: (field, shift) -/\n"
    o += "def permShifts : List (String × Nat) := [%s]\n" % ", ".join("(%s, %d)" % (lean_str(f), s) for f, s in shifts)
    o += "/-- `Permissions::read`: (who, what, bit number tested) -/\n"
    o += "def permReadBits : List (String × String × Nat) := [%s]\n\n" % ", ".join("(%s, %s, %d)" % (lean_str(a), lean_str(b), c) for a, b, c in reads)

    # ---- the master's request builders -----------------------------------------------------------
    T = "dnp3/src/master/tasks/file/"
    tm = api.strip_tests(api.strip_comments(api.src(T + "mod.rs")))
    m = re.search(r"pub\(crate\)\s+const\s+REQUEST_ID\s*:\s*u16\s*=\s*u16::from_le_bytes\(\[b'(.)',\s*b'(.)'\]\)\s*;", tm)
    rid = ord(m.group(1)) + 256 * ord(m.group(2)) if m else 0
    if not m:
        bad("tasks/file/mod.rs:REQUEST_ID")
    o += "def requestId : Nat := %d\n\n" % rid
    builders = []

    def literals(path, text):
        for m in re.finditer(r"let\s+obj\s*=\s*Group70Var(\d)\s*\{", text):
            lit = block_at(text, m.end() - 1)
            # the enclosing fn
            fns = [f for f in re.finditer(r"fn\s+(\w+)\s*\(", text) if f.start() < m.start()]
            fn = fns[-1].group(1) if fns else "?"
            fields = [("".join(a.split()), "".join(b.split())) for a, b in re.findall(r"(\w+)\s*:\s*([^,]+),", lit + ",") if b.strip()]
            after = text[m.end() + len(lit):]
            if not re.match(r"\}\s*;\s*writer\.write_free_format\(&obj\)", after):
                bad(path + ":" + fn + ":not followed by write_free_format")
            builders.append((path.split("/")[-1][:-3] + "::" + fn, int(m.group(1)), fields))

    fcodes = []
    for f in ("mod", "authenticate", "open", "close", "get_info", "write_block", "read"):
        try:
            text = api.strip_tests(api.strip_comments(api.src(T + f + ".rs")))
        except OSError:
            bad("tasks/file/%s.rs:missing" % f)
            continue
        literals(T + f + ".rs", text)
        fb = block(text, r"pub\(crate\)\s+fn\s+function\s*\(\s*&self\s*\)\s*->\s*FunctionCode\s*\{")
        if fb is not None:
            fcodes.append((f, sorted(set(re.findall(r"FunctionCode::(\w+)", fb)))))
    n_lit = 0
    for f in ("mod", "authenticate", "open", "close", "get_info", "write_block", "read"):
        try:
            n_lit += len(re.findall(r"Group70Var\d\s*\{", api.strip_tests(api.strip_comments(api.src(T + f + ".rs")))))
        except OSError:
            pass
    if n_lit != len(builders):
        bad("tasks/file:%d Group70VarN literals, %d builder literals parsed" % (n_lit, len(builders)))
    o += "/-- every `let obj = Group70VarN { .. }; writer.write_free_format(&obj)` of the master's file tasks:\n"
    o += "    (file::fn, N, [(field, expression)]) -/\n"
    o += "def builders : List (String × Nat × List (String × String)) := [\n"
    o += ",\n".join("  (%s, %d, %s)" % (lean_str(a), n, lean_rows(fl)) for a, n, fl in builders) + "\n]\n\n"
    o += "/-- the `FunctionCode`s named in each task's `function()` -/\n"
    o += "def taskFunctions : List (String × List String) := [%s]\n\n" % ", ".join(
        "(%s, [%s])" % (lean_str(f), ", ".join(lean_str(x) for x in xs)) for f, xs in fcodes)

    # ---- FreeFormat impls and write_free_format ---------------------------------------------------
    ff = api.strip_tests(api.strip_comments(api.src("dnp3/src/app/format/free_format.rs")))
    impls = re.findall(r"impl\s+FreeFormat\s+for\s+Group70Var(\d)<'_>\s*\{\s*const\s+VARIATION\s*:\s*Variation\s*=\s*Variation::Group70Var(\d)\s*;\s*"
                       r"fn\s+write\(&self,\s*cursor:\s*&mut\s+WriteCursor\)\s*->\s*Result<\(\),\s*WriteError>\s*\{\s*self\.write\(cursor\)\s*\}\s*\}", ff)
    if len(impls) != len(re.findall(r"impl\s+FreeFormat\s+for", ff)) or any(a != b for a, b in impls):
        bad("format/free_format.rs:impl shape")
    o += "/-- the variations with a `FreeFormat` impl in a non-test build (what `write_free_format` can be given) -/\n"
    o += "def freeFormatWriters : List Nat := [%s]\n\n" % ", ".join(a for a, _ in impls)
    wr = api.strip_tests(api.strip_comments(api.src("dnp3/src/app/format/write.rs")))
    wb = block(wr, r"pub\(crate\)\s+fn\s+write_free_format<T:\s*FreeFormat>\s*\(")
    # `block` stopped at the first brace group, which is the body
    steps = []
    if wb is None:
        bad("format/write.rs:write_free_format")
    else:
        expect = [
            (r"T::VARIATION\.write\(self\.cursor\)\?", "variation"),
            (r"QualifierCode::FreeFormat16\.write\(self\.cursor\)\?", "qualifier:FreeFormat16"),
            (r"self\.cursor\.write_u8\((\d+)\)\?", "count:%s"),
            (r"let length_pos = self\.cursor\.position\(\)", None),
            (r"self\.cursor\.skip\((\d+)\)\?", "skip:%s"),
            (r"let object_start = self\.cursor\.position\(\)", None),
            (r"value\.write\(self\.cursor\)\?", "object"),
            (r"let length = crate::app::format::to_u16\(self\.cursor\.position\(\) - object_start\)\?", "length:u16:checked"),
            (r"self\.cursor \.at_pos\(length_pos, \|cur\| cur\.write_u16_le\(length\)\)\?", "patch:length"),
            (r"Ok\(\(\)\)", None),
        ]
        stmts = split_statements(wb)
        if len(stmts) != len(expect):
            bad("format/write.rs:write_free_format:%d statements" % len(stmts))
        else:
            for s, (pat, name) in zip(stmts, expect):
                m = re.fullmatch(pat, s)
                if not m:
                    bad("format/write.rs:write_free_format:" + s[:50])
                elif name:
                    steps.append(name % m.groups() if "%s" in name else name)
    o += "def writeFreeFormatSteps : List String := [%s]\n\n" % ", ".join(lean_str(s) for s in steps)
    o += "end Dnp3.Gen.File70\n"
    api.emit(G, o)
