"""gen_conversions.py -- Gen/Conversions.lean from dnp3/src/app/gen/conversion.rs (+ field types
from app/variations.rs).

Every `impl ToVariation<GroupXVarY> for T` / `impl From<GroupXVarY> for T` becomes one table row
saying which measurement field or conversion feeds which variation field.  Each field initialiser
must be one of the recognised expression shapes; anything else is a broken tie (never a guess).

The three analog conversions themselves (`AnalogConversions::{to_i16,to_i32,to_f32}`, default methods
of the trait in dnp3/src/app/measurement.rs) are translated too: each body must be a sequence of
`if <guard> { return (<flags>, <value>); }` followed by a final `(<flags>, <value>)`, with guards,
flag expressions and value expressions taken from small closed sets (`analogConvs`; the model
interprets the rows).  `Self::OVER_RANGE` is resolved through util/bit.rs.  Anything else is a
broken tie.
Other hand-modelled functions of C10 get a token hash recorded (change-directed effort, not an alarm).
"""
import re

SRC = "dnp3/src/app/gen/conversion.rs"
VARS = "dnp3/src/app/variations.rs"
GEN = "Conversions.lean"
MEAS = "dnp3/src/app/measurement.rs"
EXT = "dnp3/src/app/extensions.rs"
BIT = "dnp3/src/util/bit.rs"
# conversion fn -> (Lean constructor, target type)
ACONV = {"to_i16": ("toI16", "i16"), "to_i32": ("toI32", "i32"), "to_f32": ("toF32", "f32")}
A_FLAGS = {"self.get_flags().with_bits_set(Self::OVER_RANGE)": "true", "self.get_flags()": "false"}

MTY = {
    "BinaryInput": "bi", "BinaryOutputStatus": "bo", "DoubleBitBinaryInput": "db", "Counter": "ct",
    "FrozenCounter": "fc", "AnalogInput": "ai", "FrozenAnalogInput": "fa", "AnalogOutputStatus": "ao",
}

TO_FLAGS = {"self.get_wire_flags()": "getWireFlags", "self.flags.value": "selfFlags", "_wire_flags.value": "wireFlags"}
TO_VALUE = {"self.value": "selfValue", "self.value as u16": "selfValueAsU16", "_wire_value": "wireValue"}
TO_TIME = {"self.time.into()": "selfTimeInto"}
CONV = {"to_i16": "toI16", "to_i32": "toI32", "to_f32": "toF32"}

FROM_VALUE = {
    "flags.state()": "flagsState", "flags.double_bit_state()": "flagsDoubleBit", "v.value": "vValue",
    "v.value as u32": "vValueAsU32", "v.value as f64": "vValueAsF64",
}
FROM_FLAGS = {"flags": "letFlags", "Flags::new(v.flags)": "newVFlags", "Flags::ONLINE": "online"}
FROM_TIME = {"None": "none", "Some(Time::Synchronized(v.time))": "someSynchronized"}
WTY = {"u8": "u8", "u16": "u16", "u32": "u32", "i16": "i16", "i32": "i32", "f32": "f32", "f64": "f64", "Timestamp": "ts48"}


def norm(e):
    return re.sub(r"\s+", " ", e.strip())


def blocks(text):
    """yield (kind, group, var, ty, body) for every impl block (brace matched)"""
    for m in re.finditer(r"impl\s+(From|ToVariation)<Group(\d+)Var(\d+)>\s+for\s+(\w+)\s*\{", text):
        j = m.end()
        depth = 1
        while depth and j < len(text):
            if text[j] == "{":
                depth += 1
            elif text[j] == "}":
                depth -= 1
            j += 1
        yield m.group(1), int(m.group(2)), int(m.group(3)), m.group(4), text[m.end(): j - 1]


def struct_fields(vtext, g, v):
    m = re.search(r"struct\s+Group%dVar%d\s*\{(.*?)\}" % (g, v), vtext, flags=re.S)
    if not m:
        return None
    res = {}
    for f in re.finditer(r"pub\(crate\)\s+(\w+)\s*:\s*([\w:]+)\s*,", m.group(1)):
        res[f.group(1)] = f.group(2)
    return res


def brace_body(text, start):
    """text[start] is just after an opening brace: -> (body, index after the closing brace)"""
    depth, j = 1, start
    while depth and j < len(text):
        if text[j] == "{":
            depth += 1
        elif text[j] == "}":
            depth -= 1
        j += 1
    return text[start: j - 1], j


def analog_conversions(api):
    """-> (rows, over_range_mask, bad): the default methods of `trait AnalogConversions`"""
    bad = []
    rows = []
    mask = None
    text = api.strip_tests(api.strip_comments(api.src(MEAS)))
    tm = re.search(r"trait\s+AnalogConversions\s*\{", text)
    if not tm:
        return rows, mask, ["trait AnalogConversions"]
    body, _ = brace_body(text, tm.end())
    # const OVER_RANGE: BitMask = bits::BIT_n;  resolved in util/bit.rs
    cm = re.search(r"const\s+OVER_RANGE\s*:\s*BitMask\s*=\s*bits::(BIT_\d)\s*;", body)
    if not cm:
        bad.append("AnalogConversions::OVER_RANGE")
    else:
        bits = api.strip_comments(api.src(BIT))
        bm = re.search(r"const\s+%s\s*:\s*BitMask\s*=\s*BitMask\s*\{\s*value\s*:\s*(0b[01_]+|0x[0-9A-Fa-f_]+|\d+)\s*\}\s*;" % cm.group(1), bits)
        if not bm:
            bad.append("bits::" + cm.group(1))
        else:
            mask = int(bm.group(1).replace("_", ""), 0)
    # `Flags::with_bits_set` must be the plain OR
    wm = re.search(r"fn\s+with_bits_set\s*\(\s*&self\s*,\s*mask\s*:\s*BitMask\s*\)\s*->\s*Flags\s*\{", text)
    if not wm or norm(brace_body(text, wm.end())[0]) != "Flags::new(self.value | mask.value)":
        bad.append("Flags::with_bits_set")
    # the accessors of every impl are the plain fields
    ext = api.strip_tests(api.strip_comments(api.src(EXT)))
    n_impl = 0
    for im in re.finditer(r"impl\s+AnalogConversions\s+for\s+(\w+)\s*\{", ext):
        n_impl += 1
        ibody, _ = brace_body(ext, im.end())
        fns = {}
        for fm in re.finditer(r"fn\s+(\w+)\s*\(\s*&self\s*\)\s*->\s*(\w+)\s*\{", ibody):
            fns[fm.group(1)] = (fm.group(2), norm(brace_body(ibody, fm.end())[0]))
        if fns != {"get_value": ("f64", "self.value"), "get_flags": ("Flags", "self.flags")}:
            bad.append("impl AnalogConversions for %s" % im.group(1))
    if n_impl == 0:
        bad.append("impl AnalogConversions:none")
    # methods of the trait: the two accessors are declared, everything with a body is a conversion
    seen = []
    pos = 0
    while True:
        fm = re.compile(r"fn\s+(\w+)\s*\(([^)]*)\)\s*->\s*([^{;]+?)\s*([{;])").search(body, pos)
        if not fm:
            break
        name, args, ret, term = fm.group(1), norm(fm.group(2)), norm(fm.group(3)), fm.group(4)
        if term == ";":
            pos = fm.end()
            if (name, args, ret) not in (("get_value", "&self", "f64"), ("get_flags", "&self", "Flags")):
                bad.append("AnalogConversions::%s:declaration" % name)
            continue
        fbody, pos = brace_body(body, fm.end())
        seen.append(name)
        if name not in ACONV:
            bad.append("AnalogConversions::%s:unknown-conversion" % name)
            continue
        lean, ty = ACONV[name]
        if args != "&self" or ret != "(Flags, %s)" % ty:
            bad.append("AnalogConversions::%s:signature" % name)
            continue
        guards = {
            "self.get_value().is_nan()": "isNan",
            "self.get_value() < %s::MIN.into()" % ty: "ltMin",
            "self.get_value() > %s::MAX.into()" % ty: "gtMax",
        }
        values = {"%s::MIN" % ty: "min", "%s::MAX" % ty: "max", "self.get_value() as %s" % ty: "cast"}
        values["0.0" if ty == "f32" else "0"] = "zero"

        def pair(tup, what):
            parts = [norm(x) for x in split_top(tup)]
            if len(parts) != 2 or parts[0] not in A_FLAGS or parts[1] not in values:
                bad.append("AnalogConversions::%s:%s:(%s)" % (name, what, norm(tup)))
                return None
            return A_FLAGS[parts[0]], values[parts[1]]

        rest = fbody.strip()
        branches = []
        ok = True
        while True:
            bm = re.match(r"if\s+([^{}]+?)\s*\{\s*return\s*\(([^;{}]*)\)\s*;\s*\}\s*", rest, flags=re.S)
            if not bm:
                break
            g = norm(bm.group(1))
            if g not in guards:
                bad.append("AnalogConversions::%s:guard:%s" % (name, g))
                ok = False
                break
            pr = pair(bm.group(2), "branch")
            if pr is None:
                ok = False
                break
            branches.append((guards[g], pr[0], pr[1]))
            rest = rest[bm.end():]
        if not ok:
            continue
        lm = re.fullmatch(r"\((.*)\)", rest.strip(), flags=re.S)
        if not lm:
            bad.append("AnalogConversions::%s:tail:%s" % (name, norm(rest)[:80]))
            continue
        last = pair(lm.group(1), "tail")
        if last is None:
            continue
        rows.append((lean, ty, branches, last[0], last[1]))
    if sorted(seen) != sorted(ACONV):
        bad.append("AnalogConversions:methods:" + ",".join(seen))
    return rows, mask, bad


def generate(api):
    text = api.strip_tests(api.strip_comments(api.src(SRC)))
    vtext = api.strip_comments(api.src(VARS))
    n_impl = len(re.findall(r"^\s*impl\b", text, flags=re.M))
    to_rows, from_rows = [], []
    bad = []
    seen = 0
    for kind, g, v, ty, body in blocks(text):
        seen += 1
        where = "%s<Group%dVar%d>for %s" % (kind, g, v, ty)
        if ty not in MTY:
            bad.append(where + ":type")
            continue
        fields = struct_fields(vtext, g, v)
        if fields is None:
            bad.append(where + ":struct")
            continue
        vty = WTY.get(fields.get("value", ""), "none") if "value" in fields else "none"
        tty = WTY.get(fields.get("time", ""), "none") if "time" in fields else "none"
        if set(fields) - {"flags", "value", "time"} or fields.get("flags", "u8") != "u8" or ("value" in fields and vty == "none") or ("time" in fields and tty == "none"):
            bad.append(where + ":struct-fields")
            continue
        fm = re.search(r"fn\s+(\w+)\s*\(([^)]*)\)\s*->\s*([\w<>]+)\s*\{(.*)\}\s*$", body, flags=re.S)
        if not fm:
            bad.append(where + ":fn")
            continue
        fname, _args, _ret, fbody = fm.groups()
        # statements before the struct literal
        lit = re.search(r"(\w+)\s*\{(.*)\}\s*$", fbody, flags=re.S)
        if not lit:
            bad.append(where + ":literal")
            continue
        pre = norm(fbody[: lit.start()])
        inits = {}
        ok = True
        for item in [x for x in (norm(i) for i in split_top(lit.group(2))) if x]:
            mm = re.match(r"^(\w+)\s*:\s*(.+)$", item)
            if mm:
                inits[mm.group(1)] = norm(mm.group(2))
            elif re.match(r"^\w+$", item):
                inits[item] = item  # field shorthand
            else:
                ok = False
        if not ok:
            bad.append(where + ":initialiser-syntax")
            continue
        if kind == "ToVariation":
            if fname != "to_variation" or lit.group(1) != "Group%dVar%d" % (g, v):
                bad.append(where + ":shape")
                continue
            conv = "none"
            if pre:
                pm = re.fullmatch(r"let \(_wire_flags, _wire_value\) = self\.(\w+)\(\);", pre)
                if not pm or pm.group(1) not in CONV:
                    bad.append(where + ":prelude:" + pre)
                    continue
                conv = "some ." + CONV[pm.group(1)]
            if set(inits) != set(fields):
                bad.append(where + ":fields")
                continue
            try:
                fl = TO_FLAGS[inits["flags"]] if "flags" in inits else "absent"
                va = TO_VALUE[inits["value"]] if "value" in inits else "absent"
                ti = TO_TIME[inits["time"]] if "time" in inits else "absent"
            except KeyError as e:
                bad.append(where + ":unknown-shape:" + str(e))
                continue
            if (fl == "wireFlags" or va == "wireValue") and conv == "none":
                bad.append(where + ":wire-without-conversion")
                continue
            to_rows.append((MTY[ty], g, v, conv, fl, va, ti, vty, tty))
        else:
            if fname != "from" or lit.group(1) != ty:
                bad.append(where + ":shape")
                continue
            has_let = False
            if pre:
                if pre != "let flags = Flags::new(v.flags);":
                    bad.append(where + ":prelude:" + pre)
                    continue
                has_let = True
            if set(inits) != {"value", "flags", "time"}:
                bad.append(where + ":fields")
                continue
            try:
                va = FROM_VALUE[inits["value"]]
                fl = FROM_FLAGS[inits["flags"]]
                ti = FROM_TIME[inits["time"]]
            except KeyError as e:
                bad.append(where + ":unknown-shape:" + str(e))
                continue
            if (fl == "letFlags" or va in ("flagsState", "flagsDoubleBit")) and not has_let:
                bad.append(where + ":flags-without-let")
                continue
            from_rows.append((MTY[ty], g, v, va, fl, ti, vty, tty))
    if seen != n_impl:
        bad.append("impl-count:%d-of-%d" % (seen, n_impl))
    for b in bad:
        api.broken("translator:%s:%s:%s" % (GEN, SRC, b))
    arows, or_mask, abad = analog_conversions(api)
    for b in abad:
        api.broken("translator:%s:%s:%s" % (GEN, MEAS, b))

    out = "namespace Dnp3.Gen.Conv\n\n"
    out += "/-- measurement types of app/measurement.rs that have generated conversions -/\n"
    out += "inductive MTy | bi | bo | db | ct | fc | ai | fa | ao\n  deriving DecidableEq, Repr\n\n"
    out += "/-- declared type of a variation struct field (app/variations.rs) -/\n"
    out += "inductive WTy | none | u8 | u16 | u32 | i16 | i32 | f32 | f64 | ts48\n  deriving DecidableEq, Repr\n\n"
    out += "/-- `let (_wire_flags, _wire_value) = self.<conv>();` -/\n"
    out += "inductive Conv | toI16 | toI32 | toF32\n  deriving DecidableEq, Repr\n\n"
    out += "/-- initialiser shapes of `ToVariation::to_variation` -/\n"
    out += "inductive ToFlags | absent | selfFlags | getWireFlags | wireFlags\n  deriving DecidableEq, Repr\n"
    out += "inductive ToVal | absent | selfValue | selfValueAsU16 | wireValue\n  deriving DecidableEq, Repr\n"
    out += "inductive ToTime | absent | selfTimeInto\n  deriving DecidableEq, Repr\n\n"
    out += "/-- initialiser shapes of `From<GroupXVarY>::from` -/\n"
    out += "inductive FromVal | flagsState | flagsDoubleBit | vValue | vValueAsU32 | vValueAsF64\n  deriving DecidableEq, Repr\n"
    out += "inductive FromFlags | letFlags | newVFlags | online\n  deriving DecidableEq, Repr\n"
    out += "inductive FromTime | none | someSynchronized\n  deriving DecidableEq, Repr\n\n"
    out += "structure ToVar where\n  ty : MTy\n  group : Nat\n  var : Nat\n  conv : Option Conv\n  flags : ToFlags\n  value : ToVal\n  time : ToTime\n  vty : WTy\n  tty : WTy\n  deriving DecidableEq, Repr\n\n"
    out += "structure FromVar where\n  ty : MTy\n  group : Nat\n  var : Nat\n  value : FromVal\n  flags : FromFlags\n  time : FromTime\n  vty : WTy\n  tty : WTy\n  deriving DecidableEq, Repr\n\n"
    out += "/-- the %d `ToVariation` impls of %s, in source order -/\ndef toTable : List ToVar := [\n" % (len(to_rows), SRC)
    out += ",\n".join("  ⟨.%s, %d, %d, %s, .%s, .%s, .%s, .%s, .%s⟩" % r for r in to_rows)
    out += "\n]\n\n"
    out += "/-- the %d `From` impls of %s, in source order -/\ndef fromTable : List FromVar := [\n" % (len(from_rows), SRC)
    out += ",\n".join("  ⟨.%s, %d, %d, .%s, .%s, .%s, .%s, .%s⟩" % r for r in from_rows)
    out += "\n]\n\n"
    out += "/-- number of `impl` blocks in the source file -/\ndef implCount : Nat := %d\n\n" % n_impl
    out += "/-! ## `AnalogConversions::{to_i16,to_i32,to_f32}` (%s) -/\n\n" % MEAS
    out += "/-- guard of an early return: `self.get_value().is_nan()`, `self.get_value() < T::MIN.into()`,\n`self.get_value() > T::MAX.into()` (T = the target type) -/\n"
    out += "inductive AGuard | isNan | ltMin | gtMax\n  deriving DecidableEq, Repr\n\n"
    out += "/-- value component of a returned pair: the literal zero, `T::MIN`, `T::MAX`, `self.get_value() as T` -/\n"
    out += "inductive ARet | zero | min | max | cast\n  deriving DecidableEq, Repr\n\n"
    out += "/-- `if <guard> { return (<flags>, <ret>); }`; `overRange`: the flags component is\n`self.get_flags().with_bits_set(Self::OVER_RANGE)` (true) or `self.get_flags()` (false) -/\n"
    out += "structure ABranch where\n  guard : AGuard\n  overRange : Bool\n  ret : ARet\n  deriving DecidableEq, Repr\n\n"
    out += "/-- one conversion: `fn <conv>(&self) -> (Flags, <target>)`, its early returns in source order and\nthe final pair expression -/\n"
    out += "structure AConv where\n  conv : Conv\n  target : WTy\n  branches : List ABranch\n  lastOverRange : Bool\n  last : ARet\n  deriving DecidableEq, Repr\n\n"
    out += "/-- the default methods of `trait AnalogConversions`, in source order -/\ndef analogConvs : List AConv := [\n"
    out += ",\n".join(
        "  ⟨.%s, .%s, [%s], %s, .%s⟩" % (lean, ty, ", ".join("⟨.%s, %s, .%s⟩" % b for b in br), lo, lv)
        for lean, ty, br, lo, lv in arows)
    out += "\n]\n\n"
    out += "/-- `AnalogConversions::OVER_RANGE` (a `bits::BIT_n` of util/bit.rs) as the octet mask that\n`Flags::with_bits_set` ORs in -/\n"
    out += "def overRangeMask : Nat := %d\n\n" % (or_mask if or_mask is not None else 0)
    out += "end Dnp3.Gen.Conv\n"
    api.emit(GEN, out)

    # hand-modelled functions (tied by correspondence): token hashes for change-directed effort
    for path, fns in [
        ("dnp3/src/app/measurement.rs", ["to_i16", "to_i32", "to_f32", "checked_add"]),
        ("dnp3/src/app/extensions.rs", ["get_wire_flags"]),
        ("dnp3/src/app/types.rs", ["checked_add", "to_bit_pair"]),
        ("dnp3/src/outstation/database/details/range/traits.rs", ["promote"]),
        ("dnp3/src/outstation/database/details/event/write_fn.rs", ["write_cto", "to_cto_variation"]),
        ("dnp3/src/outstation/database/details/event/writer.rs", ["try_write", "start_new_header"]),
        ("dnp3/src/master/convert.rs", ["to_measurement"]),
        ("dnp3/src/master/extract.rs", ["extract_measurements_inner"]),
    ]:
        for fn in fns:
            api.report["hashes"]["%s::%s" % (path.replace("dnp3/src/", ""), fn)] = api.fn_hash(path, fn)


def split_top(s):
    """split on commas that are not inside parentheses"""
    parts, depth, cur = [], 0, ""
    for ch in s:
        if ch in "([{":
            depth += 1
        elif ch in ")]}":
            depth -= 1
        if ch == "," and depth == 0:
            parts.append(cur)
            cur = ""
        else:
            cur += ch
    parts.append(cur)
    return parts
