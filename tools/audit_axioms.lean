import Lean
import Dnp3.Props.All
/-!
Prints one JSON line per theorem declared in the modules `Dnp3.Props.*` (restricted to the
namespace prefix in `$AUDIT_PREFIX` when set) with the axioms it depends on.
Run as:  lake env lean ../tools/audit_axioms.lean   (cwd = /verif/lean)
-/
open Lean Elab Command

run_cmd do
  let env ← getEnv
  let pfx := ((← IO.getEnv "AUDIT_PREFIX").getD "Dnp3.Props").toName
  let mut lines : Array String := #[]
  let mods := env.header.moduleNames
  for h : i in [0:mods.size] do
    let m := mods[i]
    if !(`Dnp3.Props).isPrefixOf m then continue
    let some md := env.header.moduleData[i]? | continue
    for name in md.constNames do
      if !pfx.isPrefixOf name then continue
      if name.isInternal then continue
      let some ci := env.find? name | continue
      match ci with
      | .thmInfo _ =>
        let axs ← Lean.collectAxioms name
        let axsS := ", ".intercalate (axs.toList.map fun a => "\"" ++ a.toString ++ "\"")
        lines := lines.push s!"\{\"theorem\": \"{name}\", \"axioms\": [{axsS}]}"
      | _ => pure ()
  for l in lines.qsort (· < ·) do
    IO.println l
