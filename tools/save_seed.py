#!/usr/bin/env python3
"""save_seed.py <worktree> <Sxx_Cyy_name> <Cyy> "<needs_to_manifest>"  -> /verif/seeded/<name>/ from <worktree>/out"""
import sys, os, json, shutil, subprocess
w, name, prop, needs = sys.argv[1:5]
d = f"/verif/seeded/{name}"
os.makedirs(d, exist_ok=True)
for f in ["patch.diff", "demo.diff", "NOTES.md", "FILTER.txt"]:
    shutil.copy(f"{w}/out/{f}", f"{d}/{f}")
for f in os.listdir(f"{w}/out"):
    if f.endswith(".rs"):
        shutil.copy(f"{w}/out/{f}", f"{d}/{f}")
rd = lambda f: open(f"{w}/out/{f}").read().strip().split("\n")
head = subprocess.check_output(["git", "-C", "/repo", "log", "--oneline", "-1"]).decode().split()[0]
meta = {
    "id": name, "breaks_property": prop, "needs_to_manifest": needs,
    "confirmed": {
        "existing_suite_with_patch": rd("confirm_suite.txt")[0],
        "demo_with_patch": [l for l in rd("confirm_demo_with_patch.txt") if l.startswith("test result")][:1] or rd("confirm_demo_with_patch.txt")[:2],
        "demo_without_patch": rd("confirm_demo_without_patch.txt")[0],
        "how": "tools/confirm_seed.sh in the author's scratch worktree (patch only: cargo test -p dnp3 --lib; patch+demo; demo only)",
    },
    "checks_run": "",
    "author": "fresh sub-agent given only the property text and its own worktree",
    "base": f"/repo at {head}",
}
json.dump(meta, open(f"{d}/meta.json", "w"), indent=1)
print(d)
