"""gen_dbtypes.py -- Gen/DbTypes.lean: the per-point-type tables of the outstation database.

Everything in `dnp3/src/outstation/database/**` that is one row per point type / per variation is
re-read on every run and emitted as Lean tables; the hand model (`Dnp3.Model.Database`) consumes
them and `Dnp3.Proofs.DbTables` proves their well-formedness (every type's slots are its own,
every list mentions every type once, every READ arm keeps its range / count and its own type).

  details/event/buffer.rs   enum Event (= the point types, in source order), struct TypeCounter,
                            TypeCounter::modify, Counters::decrement, impl Insertable for measurement::X
                            (get_max / get_type_count / is_type / decrement_type / increment_type /
                            create_event / select_variation), EventBuffer::is_any_full,
                            EventBuffer::select_by_header, Event::select_default_variation, Event::write
  mod.rs                    EventBufferConfig (fields, max_events), ClassZeroConfig (fields, Default)
  read.rs                   ReadHeader::from_all_objects / from_count / from_range, get_impl
  details/range/static_db.rs  struct StaticDatabase (PointMap<M> fields), impl Updatable for M (get_map /
                            get_mut_map / wrap / enabled_class_zero / Detector), StaticDatabase::select,
                            write_range, select_class_zero, the EventDetector impls
  details/range/traits.rs   impl StaticVariation<M> for V (promote, get_write_info)
  details/event/traits.rs   impl EventVariation<M> for V (write, wrap, get_group_var, uses_cto)
  config.rs                 the Static* / Event* variation enums, Default of the point configs

Slots are identified by position: the i-th field of `TypeCounter`, of `EventBufferConfig` and of
`ClassZeroConfig` belongs to the i-th variant of `enum Event`.  A measurement type `M` is tied to its
Event variant by `impl Insertable for measurement::M :: create_event`, a `PointMap<M>` field of
`StaticDatabase` by its declared type.
A construct that does not have the recognised shape is a broken tie (`api.broken`), never skipped.
"""
import re

GEN = "DbTypes.lean"
BUF = "dnp3/src/outstation/database/details/event/buffer.rs"
MOD = "dnp3/src/outstation/database/mod.rs"
READ = "dnp3/src/outstation/database/read.rs"
SDB = "dnp3/src/outstation/database/details/range/static_db.rs"
RTR = "dnp3/src/outstation/database/details/range/traits.rs"
ETR = "dnp3/src/outstation/database/details/event/traits.rs"
CFG = "dnp3/src/outstation/database/config.rs"


class Broken(Exception):
    pass


def norm(s):
    return re.sub(r"\s+", " ", s.strip())


def nows(s):
    """whitespace removed, trailing commas before a closing bracket dropped"""
    s = re.sub(r"\s+", "", s)
    return re.sub(r",([)\]}])", r"\1", s)


def lower_camel(name):
    return name[0].lower() + name[1:]


def block_at(text, i):
    """text[i] == '{' -> (body, index after the closing brace)"""
    assert text[i] == "{"
    depth = 0
    j = i
    while j < len(text):
        c = text[j]
        if c == "{":
            depth += 1
        elif c == "}":
            depth -= 1
            if depth == 0:
                return text[i + 1 : j], j + 1
        j += 1
    raise Broken("unbalanced braces")


def find_block(text, header_re, what):
    m = re.search(header_re, text, flags=re.S)
    if not m:
        raise Broken("not found: " + what)
    j = text.find("{", m.end() - 1)
    if j < 0:
        raise Broken("no body: " + what)
    body, _ = block_at(text, j)
    return body


def find_fn(text, name, what=None):
    return find_block(text, r"\bfn\s+" + re.escape(name) + r"\b[^{;]*\{", what or ("fn " + name))


def match_body(fn_body, what):
    """the arms text of the (single) top-level `match … { … }` of a function body"""
    m = re.search(r"\bmatch\b[^{]*\{", fn_body)
    if not m:
        raise Broken("no match in " + what)
    body, _ = block_at(fn_body, m.end() - 1)
    return body


def split_arms(body, what):
    """`pat => expr,` / `pat => { … }` arms of a match body -> [(pattern, expr)] (whitespace-normalised)"""
    arms = []
    i = 0
    n = len(body)
    while True:
        while i < n and body[i] in " \t\r\n,":
            i += 1
        if i >= n:
            break
        # pattern: up to `=>` at depth 0
        depth = 0
        j = i
        while j < n:
            c = body[j]
            if c in "([{":
                depth += 1
            elif c in ")]}":
                depth -= 1
            elif depth == 0 and body.startswith("=>", j):
                break
            j += 1
        if j >= n:
            raise Broken("arm without => in " + what + ": " + norm(body[i : i + 60]))
        pat = norm(body[i:j])
        j += 2
        while j < n and body[j] in " \t\r\n":
            j += 1
        if j < n and body[j] == "{":
            expr, k = block_at(body, j)
            expr = norm(expr)
        else:
            depth = 0
            angle = 0
            k = j
            while k < n:
                c = body[k]
                if c in "([{":
                    depth += 1
                elif c in ")]}":
                    depth -= 1
                elif body.startswith("::<", k):
                    angle += 1
                    k += 2
                elif c == ">" and angle and not body.startswith("=>", k - 1):
                    angle -= 1
                elif c == "," and depth == 0 and angle == 0:
                    break
                k += 1
            expr = norm(body[j:k])
        arms.append((pat, expr))
        i = k
    return arms


def struct_fields(text, name, what=None):
    body = find_block(text, r"\bstruct\s+" + re.escape(name) + r"\b[^{;(]*\{", what or ("struct " + name))
    body = re.sub(r"#\[[^\]]*\]", "", body)
    fields = []
    for part in split_top(body):
        part = norm(part)
        if not part:
            continue
        m = re.fullmatch(r"(?:pub(?:\([a-z]+\))?\s+)?(\w+)\s*:\s*(.+)", part)
        if not m:
            raise Broken("field of %s: %s" % (name, part))
        fields.append((m.group(1), nows(m.group(2))))
    return fields


def split_top(s):
    """split at top-level commas (brackets and generics nested)"""
    out = []
    depth = 0
    cur = []
    for idx, c in enumerate(s):
        if c in "([{<":
            depth += 1
        elif c in ")]}":
            depth -= 1
        elif c == ">" and not (idx and s[idx - 1] in "=-"):
            depth -= 1
        if c == "," and depth == 0:
            out.append("".join(cur))
            cur = []
        else:
            cur.append(c)
    if "".join(cur).strip():
        out.append("".join(cur))
    return out


def enum_variants(text, name):
    body = find_block(text, r"\benum\s+" + re.escape(name) + r"\b[^{;]*\{", "enum " + name)
    body = re.sub(r"#\[[^\]]*\]", "", body)
    res = []
    for part in split_top(body):
        part = norm(part)
        if not part:
            continue
        m = re.fullmatch(r"(\w+)\s*(\(.*\))?", part, flags=re.S)
        if not m:
            raise Broken("variant of %s: %s" % (name, part))
        res.append((m.group(1), nows(m.group(2) or "")))
    return res


def impls(text, trait_re, what):
    """[(captures of trait_re, body)] for every `impl <trait_re> {`"""
    res = []
    for m in re.finditer(r"\bimpl\s+" + trait_re + r"\s*\{", text):
        body, _ = block_at(text, m.end() - 1)
        res.append((m.groups(), body))
    if not res:
        raise Broken("no impl found: " + what)
    return res


def gv(name, what):
    m = re.fullmatch(r"Group(\d+)Var(\d+)", name)
    if not m:
        raise Broken("not a GroupNVarM name in %s: %s" % (what, name))
    return int(m.group(1)), int(m.group(2))


def opt(x, f=str):
    return "none" if x is None else "(some %s)" % f(x)


def lean_bool(b):
    return "true" if b else "false"


def lean_list(items, per_line=1, indent="  "):
    if not items:
        return "[]"
    lines = []
    for i in range(0, len(items), per_line):
        lines.append(indent + ", ".join(items[i : i + per_line]))
    return "[\n" + ",\n".join(lines) + "\n]"


def generate(api):
    try:
        _generate(api)
    except Broken as e:
        api.broken("translator:%s:%s" % (GEN, e))
    except OSError as e:
        api.broken("translator:%s:source:%r" % (GEN, e))


def _generate(api):
    def load(p):
        return api.strip_tests(api.strip_comments(api.src(p)))

    buf, mod, read, sdb, rtr, etr, cfg = (load(p) for p in (BUF, MOD, READ, SDB, RTR, ETR, CFG))

    # ------------------------------------------------------------------ A. the point types
    ev_variants = enum_variants(buf, "Event")
    types = [v for v, _ in ev_variants]          # Rust Event variant names, source order
    L = {v: lower_camel(v) for v in types}       # Lean constructor names
    if len(set(L.values())) != len(types):
        raise Broken("Event variant names collide")
    ev_var_enum = {}                             # Event variant -> its Event*Variation enum
    for v, payload in ev_variants:
        m = re.fullmatch(r"\((.+),Variation<(\w+)>,?\)", payload)
        if not m:
            raise Broken("Event::%s payload %s" % (v, payload))
        ev_var_enum[v] = m.group(2)

    def ty(v, what):
        if v not in L:
            raise Broken("unknown Event variant %s in %s" % (v, what))
        return "." + L[v]

    def positional(fields, what):
        if len(fields) != len(types):
            raise Broken("%s has %d fields, enum Event has %d variants" % (what, len(fields), len(types)))
        return {f: types[i] for i, (f, _) in enumerate(fields)}

    counter_slot = positional(struct_fields(buf, "TypeCounter"), "TypeCounter")
    max_slot = positional(struct_fields(mod, "EventBufferConfig"), "EventBufferConfig")
    cz_fields = struct_fields(mod, "ClassZeroConfig")
    cz_slot = positional(cz_fields, "ClassZeroConfig")

    # ------------------------------------------------------------------ C. Insertable
    meas_of = {}   # measurement type name -> Event variant (create_event)
    ins_rows = {}
    for (mname,), body in impls(buf, r"Insertable\s+for\s+measurement::(\w+)", "Insertable"):
        what = "Insertable for " + mname
        row = {}
        e = nows(find_fn(body, "get_max", what))
        m = re.fullmatch(r"config\.(\w+)", e)
        if not m or m.group(1) not in max_slot:
            raise Broken(what + "::get_max: " + e)
        row["max"] = max_slot[m.group(1)]
        e = nows(find_fn(body, "get_type_count", what))
        m = re.fullmatch(r"counter\.(\w+)\.get\(\)", e)
        if not m or m.group(1) not in counter_slot:
            raise Broken(what + "::get_type_count: " + e)
        row["count"] = counter_slot[m.group(1)]
        e = nows(find_fn(body, "is_type", what))
        m = re.fullmatch(r"std::matches!\(record\.event,Event::(\w+)\(_,_\)\)", e)
        if not m:
            raise Broken(what + "::is_type: " + e)
        row["isType"] = m.group(1)
        for fn, key, op in (("decrement_type", "dec", "decrement"), ("increment_type", "inc", "increment")):
            e = nows(find_fn(body, fn, what))
            m = re.fullmatch(r"counter\.(\w+)\.%s\(\);" % op, e)
            if not m or m.group(1) not in counter_slot:
                raise Broken("%s::%s: %s" % (what, fn, e))
            row[key] = counter_slot[m.group(1)]
        e = nows(find_fn(body, "create_event", what))
        m = re.fullmatch(r"Event::(\w+)\((\*self|self\.as_boxed_slice\(\)),Variation::new\(default_variation\)\)", e)
        if not m:
            raise Broken(what + "::create_event: " + e)
        row["create"] = m.group(1)
        e = nows(find_fn(body, "select_variation", what))
        m = re.fullmatch(r"ifletEvent::(\w+)\(_,v\)=&record\.event\{v\.selected\.set\(variation\);true\}else\{false\}", e)
        if not m:
            raise Broken(what + "::select_variation: " + e)
        row["select"] = m.group(1)
        m = re.search(r"type\s+EventVariation\s*=\s*(\w+)\s*;", body)
        if not m:
            raise Broken(what + ": type EventVariation")
        row["evEnum"] = m.group(1)
        if mname in meas_of:
            raise Broken("two Insertable impls for " + mname)
        meas_of[mname] = row["create"]
        ins_rows[mname] = row
    by_variant = {}
    for mname, row in ins_rows.items():
        if row["create"] in by_variant:
            raise Broken("two measurement types create Event::" + row["create"])
        by_variant[row["create"]] = (mname, row)
    for v in types:
        if v not in by_variant:
            raise Broken("no Insertable impl creates Event::" + v)
        if by_variant[v][1]["evEnum"] != ev_var_enum[v]:
            raise Broken("Insertable::EventVariation of %s is not the Variation<> of Event::%s" % (by_variant[v][0], v))

    def mty(mname, what):
        mname = mname.split("::")[-1]
        if mname not in meas_of:
            raise Broken("unknown measurement type %s in %s" % (mname, what))
        return ty(meas_of[mname], what)

    # ------------------------------------------------------------------ B/D. counters, lists
    def variant_slot_arms(fn_body, what, rhs_re):
        res = {}
        for pat, expr in split_arms(match_body(fn_body, what), what):
            m = re.fullmatch(r"Event::(\w+)\(_, _\)", pat)
            m2 = re.fullmatch(rhs_re, nows(expr))
            if not m or not m2 or m2.group(1) not in counter_slot:
                raise Broken("%s arm: %s => %s" % (what, pat, expr))
            res[m.group(1)] = counter_slot[m2.group(1)]
        for v in types:
            if v not in res:
                raise Broken("%s: no arm for Event::%s" % (what, v))
        return res

    tc_impl = find_block(buf, r"\bimpl\s+TypeCounter\s*\{", "impl TypeCounter")
    modify = variant_slot_arms(find_fn(tc_impl, "modify"), "TypeCounter::modify", r"op\(&mutself\.(\w+)\)")
    e = nows(find_fn(tc_impl, "increment"))
    if e != "self.modify(event,|cnt|cnt.increment())":
        raise Broken("TypeCounter::increment: " + e)
    cn_impl = find_block(buf, r"\bimpl\s+Counters\s*\{", "impl Counters")
    cdec_body = find_fn(cn_impl, "decrement")
    if not nows(cdec_body).startswith("self.classes.decrement(record.class);matchrecord.event{"):
        raise Broken("Counters::decrement shape")
    cdec = variant_slot_arms(cdec_body, "Counters::decrement", r"self\.types\.(\w+)\.decrement\(\)")
    e = nows(find_fn(cn_impl, "increment"))
    if e != "self.types.increment(&record.event);self.classes.increment(record.class);":
        raise Broken("Counters::increment: " + e)

    eb_impl = find_block(buf, r"\bimpl\s+EventBuffer\s*\{", "impl EventBuffer")
    e = nows(find_fn(eb_impl, "is_any_full"))
    parts = e.split("||")
    any_full = []
    for p in parts:
        m = re.fullmatch(r"self\.is_full::<measurement::(\w+)>\(\)", p)
        if not m:
            raise Broken("is_any_full operand: " + p)
        any_full.append(mty(m.group(1), "is_any_full"))
    e = nows(find_fn(eb_impl, "is_full"))
    if e != "letmax=T::get_max(&self.config);ifmax==0{returnfalse;}T::get_type_count(&self.total.types)>=maxasusize":
        raise Broken("EventBuffer::is_full: " + e)
    ebc_impl = find_block(mod, r"\bimpl\s+EventBufferConfig\s*\{", "impl EventBufferConfig")
    e = nows(find_fn(ebc_impl, "max_events"))
    max_sum = []
    for p in e.split("+"):
        m = re.fullmatch(r"self\.(\w+)asusize", p)
        if not m or m.group(1) not in max_slot:
            raise Broken("max_events operand: " + p)
        max_sum.append(ty(max_slot[m.group(1)], "max_events"))

    # select_by_header
    sel_hdr = []
    for pat, expr in split_arms(match_body(find_fn(eb_impl, "select_by_header"), "select_by_header"), "select_by_header"):
        m = re.fullmatch(r"EventReadHeader::(\w+)\((.*)\)", pat)
        if not m:
            raise Broken("select_by_header pattern: " + pat)
        name, args, ex = m.group(1), nows(m.group(2)), nows(expr)
        m1 = re.fullmatch(r"self\.select_by_class\(EventClass::Class(\d)\.into\(\),limit\)", ex)
        m2 = re.fullmatch(r"self\.select_by_type::<measurement::(\w+)>\((v|None),limit\)", ex)
        if m1 and args == "limit" and name == "Class" + m1.group(1):
            sel_hdr.append((name, ".cls %s" % m1.group(1)))
        elif m2 and ((args == "v,limit" and m2.group(2) == "v") or (args == "limit" and m2.group(2) == "None")):
            sel_hdr.append((name, ".ty %s %s" % (mty(m2.group(1), "select_by_header"), lean_bool(m2.group(2) == "v"))))
        elif ex == "0" and args == "_,_":
            sel_hdr.append((name, ".nothing"))
        else:
            raise Broken("select_by_header arm: %s => %s" % (pat, expr))

    ev_impl = find_block(buf, r"\bimpl\s+Event\s*\{", "impl Event")
    for pat, expr in split_arms(match_body(find_fn(ev_impl, "select_default_variation"), "Event::select_default_variation"), "Event::sdv"):
        if not re.fullmatch(r"Event::(\w+)\(_, v\)", pat) or nows(expr) != "v.select_default()":
            raise Broken("Event::select_default_variation arm: %s => %s" % (pat, expr))
    ev_write_fixed = []
    for pat, expr in split_arms(match_body(find_fn(ev_impl, "write"), "Event::write"), "Event::write"):
        m = re.fullmatch(r"Event::(\w+)\(evt, (v|_)\)", pat)
        ex = nows(expr)
        if m and m.group(2) == "v" and ex == "writer.write(cursor,evt,index,v.selected.get())":
            ev_write_fixed.append(m.group(1))
        elif m and m.group(2) == "_" and ex == "writer.write(cursor,evt,index,OctetStringLength(evt.len()))":
            pass
        else:
            raise Broken("Event::write arm: %s => %s" % (pat, expr))

    # ------------------------------------------------------------------ I. config.rs
    static_enum_of = {}   # measurement type -> Static…Variation enum (Updatable::StaticVariation)
    def enum_gvs(name):
        return [gv(v, "enum " + name) for v, p in enum_variants(cfg, name)]

    # ------------------------------------------------------------------ F. static database
    map_fields = {}
    for f, t in struct_fields(sdb, "StaticDatabase"):
        m = re.fullmatch(r"PointMap<(\w+)>", t)
        if m:
            map_fields[f] = m.group(1)
    upd_rows = {}
    detectors = {}
    for (mname,), body in impls(sdb, r"Updatable\s+for\s+(\w+)", "Updatable"):
        what = "Updatable for " + mname
        row = {}
        for fn, key, pre in (("get_map", "getMap", "&maps."), ("get_mut_map", "getMutMap", "&mutmaps.")):
            e = nows(find_fn(body, fn, what))
            if not e.startswith(pre) or e[len(pre):] not in map_fields:
                raise Broken("%s::%s: %s" % (what, fn, e))
            row[key] = mty(map_fields[e[len(pre):]], what)
        e = nows(find_fn(body, "wrap", what))
        m = re.fullmatch(r"SpecificVariation::(\w+)(\(variation\))?\.with\(range\)", e)
        if not m:
            raise Broken(what + "::wrap: " + e)
        row["wrap"] = ty(m.group(1), what)
        row["wrapVar"] = bool(m.group(2))
        e = nows(find_fn(body, "enabled_class_zero", what))
        m = re.fullmatch(r"config\.(\w+)", e)
        if not m or m.group(1) not in cz_slot:
            raise Broken(what + "::enabled_class_zero: " + e)
        row["cz"] = ty(cz_slot[m.group(1)], what)
        m = re.search(r"type\s+Detector\s*=\s*([\w<>]+)\s*;", body)
        m2 = re.search(r"type\s+StaticVariation\s*=\s*(\w+)\s*;", body)
        if not m or not m2:
            raise Broken(what + ": associated types")
        detectors[mname] = m.group(1)
        static_enum_of[mname] = m2.group(1)
        upd_rows[mname] = row
    for v in types:
        if by_variant[v][0] not in upd_rows:
            raise Broken("no Updatable impl for " + by_variant[v][0])

    sdb_impl = find_block(sdb, r"\bimpl\s+StaticDatabase\s*\{", "impl StaticDatabase")
    e = nows(find_fn(sdb_impl, "select_class_zero"))
    cz_order = []
    for p in e.split("|"):
        m = re.fullmatch(r"self\.select_class_zero_type::<(\w+)>\(\)", p)
        if not m:
            raise Broken("select_class_zero operand: " + p)
        cz_order.append(mty(m.group(1), "select_class_zero"))
    st_sel = []
    for pat, expr in split_arms(match_body(find_fn(sdb_impl, "select"), "StaticDatabase::select"), "StaticDatabase::select"):
        m = re.fullmatch(r"StaticReadHeader::(\w+)(?:\((.*)\))?", pat)
        if not m:
            raise Broken("StaticDatabase::select pattern: " + pat)
        name, args, ex = m.group(1), nows(m.group(2) or ""), nows(expr)
        m2 = re.fullmatch(r"self\.select_by_type::<(\w+)>\((variation|None),range\)", ex)
        if name == "Class0" and ex == "self.select_class_zero()":
            st_sel.append((name, ".class0"))
        elif m2 and ((args == "variation,range" and m2.group(2) == "variation") or (args == "range" and m2.group(2) == "None")):
            st_sel.append((name, ".ty %s %s" % (mty(m2.group(1), "StaticDatabase::select"), lean_bool(m2.group(2) == "variation"))))
        elif name == "FrozenAnalog" and args == "_,_" and ex == "Iin2::default()":
            st_sel.append((name, ".nothing"))
        elif name == "AnalogInputDeadBand" and args == "var,range" and "SpecificVariation::AnalogDeadBand(var)" in ex and "self.analog.full_range()" in ex:
            st_sel.append((name, ".deadBand"))
        else:
            raise Broken("StaticDatabase::select arm: %s => %s" % (pat, expr))
    wr = []
    for pat, expr in split_arms(match_body(find_fn(sdb_impl, "write_range"), "write_range"), "write_range"):
        m = re.fullmatch(r"SpecificVariation::(\w+)(?:\((\w+)\))?", pat)
        ex = nows(expr)
        m2 = re.fullmatch(r"self\.write_typed_range::<(\w+)>\(cursor,range\.range,(var|None)\)", ex)
        if m and m2 and ((m.group(2) == "var") == (m2.group(2) == "var")):
            wr.append((m.group(1), ".ty %s %s" % (mty(m2.group(1), "write_range"), lean_bool(m2.group(2) == "var"))))
        elif m and m.group(1) == "AnalogDeadBand" and ex == "self.write_analog_dead_bands(cursor,range.range,var)":
            wr.append((m.group(1), ".deadBand"))
        else:
            raise Broken("write_range arm: %s => %s" % (pat, expr))
    # ClassZeroConfig::default
    czd_body = None
    for (x,), body in impls(mod, r"Default\s+for\s+(ClassZeroConfig)", "Default for ClassZeroConfig"):
        czd_body = find_fn(body, "default")
    m = re.fullmatch(r"Self\{(.*)\}", nows(czd_body))
    if not m:
        raise Broken("ClassZeroConfig::default shape")
    cz_default = {}
    for p in m.group(1).strip(",").split(","):
        k, _, val = p.partition(":")
        if k not in cz_slot or val not in ("true", "false"):
            raise Broken("ClassZeroConfig::default field " + p)
        cz_default[cz_slot[k]] = val
    if set(cz_default) != set(types):
        raise Broken("ClassZeroConfig::default does not set every field")

    # event detectors: which comparison each measurement type's detector makes
    det_kind = {}
    for (dm, det), body in impls(sdb, r"EventDetector<(\w+)>\s+for\s+(\w+)", "EventDetector"):
        e = nows(find_fn(body, "is_event"))
        if e == "new.get_wire_flags()!=old.get_wire_flags()":
            det_kind[(det, dm)] = ".flags"
        elif e == "new.value()!=old.value()":
            det_kind[(det, dm)] = ".value"
        else:
            raise Broken("EventDetector<%s> for %s: %s" % (dm, det, e))
    e = None
    for m in re.finditer(r"\bimpl<T,\s*N>\s+EventDetector<T>\s+for\s+Deadband<N>", sdb):
        j = sdb.find("{", sdb.find("{", m.end()) + 1)   # skip the where clause's absence/presence robustly below
    mdb = re.search(r"impl<T,\s*N>\s+EventDetector<T>\s+for\s+Deadband<N>\s+where[^{]*\{", sdb)
    if not mdb:
        raise Broken("EventDetector for Deadband<N>")
    dbody, _ = block_at(sdb, mdb.end() - 1)
    if nows(find_fn(dbody, "is_event")) != "ifnew.get_wire_flags()!=old.get_wire_flags(){returntrue;}self.exceeded(new.value(),old.value())":
        raise Broken("Deadband::is_event shape")
    dimpl = find_block(sdb, r"\bimpl<N>\s+Deadband<N>\s+where[^{]*\{", "impl Deadband")
    if nows(find_fn(dimpl, "exceeded")) != "letdiff=iflhs>rhs{lhs-rhs}else{rhs-lhs};diff>self.deadband":
        raise Broken("Deadband::exceeded shape")
    det_rows = []
    for v in types:
        mname = by_variant[v][0]
        d = detectors[mname]
        if d.startswith("Deadband<"):
            det_rows.append(".deadband")
        elif (d, mname) in det_kind:
            det_rows.append(det_kind[(d, mname)])
        else:
            raise Broken("no EventDetector<%s> for %s" % (mname, d))

    # ------------------------------------------------------------------ G. static variations
    sv_rows = []      # (type, g, v, kind)
    promote_rows = [] # (type, from (g,v), to (g,v), mask)
    masks = {"BIT_7": 128, "BIT_6|BIT_7": 192, "BIT_7|BIT_6": 192}
    seen_static = set()
    for (mname, vname), body in impls(rtr, r"StaticVariation<(\w+)>\s+for\s+(\w+)", "StaticVariation"):
        what = "StaticVariation<%s> for %s" % (mname, vname)
        t = mty(mname, what)
        if static_enum_of.get(mname) != vname:
            raise Broken(what + ": not Updatable::StaticVariation of " + mname)
        seen_static.add(mname)
        gwi = find_fn(body, "get_write_info", what)
        if vname == "StaticOctetStringVariation":
            if nows(gwi) != "octet_string(value)":
                raise Broken(what + "::get_write_info: " + nows(gwi))
            sv_rows.append((t, 110, None, ".octets"))
        else:
            variants = [x for x, _ in enum_variants(cfg, vname)]
            seen = []
            for pat, expr in split_arms(match_body(gwi, what), what):
                name = pat.split("::")[-1]
                g, v = gv(name, what)
                ex = nows(expr)
                m1 = re.fullmatch(r"bit_type\(Variation::(\w+),\|v\|v\.value\)", ex)
                m2 = re.fullmatch(r"double_bit_type\(Variation::(\w+),\|v\|v\.value\)", ex)
                m3 = re.fullmatch(r"fixed_type::<(\w+),(\w+)>\(\)", ex)
                if m1 and m1.group(1) == name:
                    kind = ".bits"
                elif m2 and m2.group(1) == name:
                    kind = ".doubleBits"
                elif m3 and m3.group(1) == mname:
                    g2, v2 = gv(m3.group(2), what)
                    kind = ".fixed %d %d" % (g2, v2)
                else:
                    raise Broken("%s::get_write_info arm: %s => %s" % (what, pat, expr))
                sv_rows.append((t, g, v, kind))
                seen.append(name)
            if sorted(seen) != sorted(variants):
                raise Broken(what + "::get_write_info does not cover the enum")
        mp = re.search(r"\bfn\s+promote\b", body)
        if mp:
            e = nows(find_fn(body, "promote", what))
            m = re.fullmatch(
                r"iflet(\w+)::(\w+)=self\{ifvalue\.flags\.without\(([A-Z0-9_|]+)\)==Flags::ONLINE\{\*self\}else\{(\w+)::(\w+)\}\}else\{\*self\}", e)
            if not m or m.group(1) != vname or m.group(4) != vname or m.group(3) not in masks:
                raise Broken(what + "::promote: " + e)
            promote_rows.append((t, gv(m.group(2), what), gv(m.group(5), what), masks[m.group(3)]))
    for v in types:
        if by_variant[v][0] not in seen_static:
            raise Broken("no StaticVariation impl for " + by_variant[v][0])
    e = nows(find_fn(rtr, "octet_string"))
    if "variation:Variation::Group110(value.len())" not in e or "cursor.write_bytes(value.value())" not in e:
        raise Broken("range/traits.rs octet_string shape")
    db_rows = []
    dbi = find_block(rtr, r"\bimpl\s+AnalogInputDeadBandVariation\s*\{", "impl AnalogInputDeadBandVariation")
    for pat, expr in split_arms(match_body(find_fn(dbi, "get_write_info"), "deadband gwi"), "deadband gwi"):
        g, v = gv(pat.split("::")[-1], "deadband")
        m3 = re.fullmatch(r"fixed_type::<f64,(\w+)>\(\)", nows(expr))
        if not m3 or gv(m3.group(1), "deadband") != (g, v):
            raise Broken("AnalogInputDeadBandVariation::get_write_info arm: %s => %s" % (pat, expr))
        db_rows.append((g, v))

    # ------------------------------------------------------------------ H. event variations
    evv_rows = []   # (type, g, v, kind, usesCto)
    seen_ev = set()
    for (mname, vname), body in impls(etr, r"EventVariation<([\w<>\[\]]+)>\s+for\s+(\w+)", "EventVariation"):
        what = "EventVariation<%s> for %s" % (mname, vname)
        if vname == "OctetStringLength":
            if nows(find_fn(body, "write", what)) != "write_octet_string(cursor,event,index)" or \
               nows(find_fn(body, "get_group_var", what)) != "(111,event.len()asu8)" or \
               nows(find_fn(body, "wrap", what)) != "HeaderType::OctetString(*self)" or re.search(r"\bfn\s+uses_cto\b", body):
                raise Broken(what + ": shape")
            evv_rows.append((ty("OctetString", what), 111, None, ".octets", False))
            seen_ev.add("OctetString")
            continue
        t = mty(mname, what)
        variant = meas_of[mname]
        if ev_var_enum[variant] != vname:
            raise Broken(what + ": not the Variation<> of Event::" + variant)
        seen_ev.add(variant)
        e = nows(find_fn(body, "wrap", what))
        if e != "HeaderType::%s(*self)" % variant:
            raise Broken(what + "::wrap: " + e)
        cto_set = set()
        if re.search(r"\bfn\s+uses_cto\b", body):
            e = nows(find_fn(body, "uses_cto", what))
            m = re.fullmatch(r"std::matches!\(self,(.*)\)", e)
            if not m:
                raise Broken(what + "::uses_cto: " + e)
            for p in m.group(1).split("|"):
                cto_set.add(gv(p.split("::")[-1], what))
        ggv = {}
        for pat, expr in split_arms(match_body(find_fn(body, "get_group_var", what), what), what):
            g, v = gv(pat.split("::")[-1], what)
            if nows(expr) != "(%d,%d)" % (g, v):
                raise Broken("%s::get_group_var arm: %s => %s" % (what, pat, expr))
            ggv[(g, v)] = True
        variants = [gv(x, what) for x, _ in enum_variants(cfg, vname)]
        seen = []
        for pat, expr in split_arms(match_body(find_fn(body, "write", what), what), what):
            g, v = gv(pat.split("::")[-1], what)
            ex = nows(expr)
            m1 = re.fullmatch(r"write_fixed_size::<(\w+),(\w+)>\(cursor,event,index,cto\)", ex)
            m2 = re.fullmatch(r"write_cto::<(\w+),(\w+)>\(cursor,event,index,cto\)", ex)
            mm = m1 or m2
            if not mm or mm.group(2) != mname or gv(mm.group(1), what) != (g, v) or (g, v) not in ggv:
                raise Broken("%s::write arm: %s => %s" % (what, pat, expr))
            evv_rows.append((t, g, v, ".fixed" if m1 else ".cto", (g, v) in cto_set))
            seen.append((g, v))
        if sorted(seen) != sorted(variants):
            raise Broken(what + "::write does not cover the enum")
    for v in types:
        if v not in seen_ev:
            raise Broken("no EventVariation impl for Event::" + v)

    # default point configurations
    def_rows = {}
    for (cname,), body in impls(cfg, r"Default\s+for\s+(\w+Config)", "Default for *Config"):
        e = nows(find_fn(body, "default"))
        m = re.fullmatch(r"Self::new\((\w+)::(\w+),(\w+)::(\w+),?(?:[\w.]+,?)?\)", e)
        if not m:
            raise Broken("Default for %s: %s" % (cname, e))
        def_rows[(m.group(1), m.group(3))] = (gv(m.group(2), cname), gv(m.group(4), cname))
    defaults = []
    for v in types:
        mname = by_variant[v][0]
        key = (static_enum_of[mname], ev_var_enum[v])
        if key in def_rows:
            defaults.append((ty(v, "defaults"), def_rows[key]))
        elif v == "OctetString":
            defaults.append((ty(v, "defaults"), None))
        else:
            raise Broken("no Default config for " + mname)

    # ------------------------------------------------------------------ E. read.rs
    rh_impl = find_block(read, r"\bimpl\s+ReadHeader\s*\{", "impl ReadHeader")
    gi = []
    for pat, expr in split_arms(match_body(find_fn(rh_impl, "get_impl"), "get_impl"), "get_impl"):
        m = re.fullmatch(r"HeaderDetails::(\w+)\((.*)\)", pat)
        if not m:
            raise Broken("get_impl pattern " + pat)
        ex = nows(expr)
        if ex == "Self::from_all_objects(x)":
            k = ".allObjects"
        elif ex == "Self::from_count(x,*countasusize)":
            k = ".count"
        elif ex in ("Self::from_range(x,IndexRange::new(*startasu16,*stopasu16))", "Self::from_range(x,IndexRange::new(*start,*stop))"):
            k = ".range"
        elif ex == "None":
            k = ".unsupported"
        else:
            raise Broken("get_impl arm: %s => %s" % (pat, expr))
        gi.append((m.group(1), k))

    static_hdr_names = {n for n, _ in st_sel}
    event_hdr_names = {n for n, _ in sel_hdr}

    def variation_arg(a, what):
        if a == "None":
            return None
        m = re.fullmatch(r"Some\((\w+)::(\w+)\)", a)
        if not m:
            raise Broken("variation argument %s in %s" % (a, what))
        return (m.group(1),) + gv(m.group(2), what)

    def keep_arg(a, word, what):
        if a == "None":
            return False
        if a == "Some(%s)" % word:
            return True
        raise Broken("range/count argument %s in %s" % (a, what))

    def read_table(fn, enum, word):
        arms = []
        for pat, expr in split_arms(match_body(find_fn(rh_impl, fn), fn), fn):
            what = "%s arm %s" % (fn, pat)
            m = re.fullmatch(re.escape(enum) + r"::Group(\d+)(?:Var(\d+|X))?(\(.*\))?", pat)
            if not m:
                raise Broken("pattern " + what)
            g = int(m.group(1))
            args = nows(m.group(3) or "")
            if m.group(2) is not None and m.group(2) != "X":
                v = int(m.group(2))
                if args not in ("", "(_)"):
                    raise Broken("pattern " + what)
                guard = 0
            else:
                v = None
                if args in ("(x)", "(_)", "(_,_)", "(var,None)"):
                    guard = 0
                elif args == "(_,Some(_))":
                    guard = 1
                else:
                    raise Broken("pattern " + what)
            ex = nows(expr)
            if ex == "None":
                arms.append((g, v, guard, None))
                continue
            m = re.fullmatch(r"Some\((\w+)::(\w+)(?:\((.*)\))?\.into\(\)\)", ex)
            if not m:
                raise Broken("expression of " + what + ": " + ex)
            kind, name, a = m.group(1), m.group(2), split_top(m.group(3) or "")
            a = [x for x in (nows(y) for y in a) if x]
            if kind == "AttrHeader":
                if name == "All" and len(a) == 1 and a[0] in ("254", "*x"):
                    tgt = ".attrAll"
                elif name == "Specific" and len(a) == 2 and a[0] in ("254", "*var") and a[1] == word:
                    tgt = ".attrSpecific"
                else:
                    raise Broken("expression of " + what + ": " + ex)
            elif kind == "StaticReadHeader" and name in static_hdr_names:
                if name == "Class0" and not a:
                    tgt = ".class0"
                elif name == "OctetString" and len(a) == 1:
                    tgt = ".static %s none %s" % (ty(name, what), lean_bool(keep_arg(a[0], word, what)))
                elif len(a) == 2:
                    va = variation_arg(a[0], what)
                    keep = keep_arg(a[1], word, what)
                    vs = "none" if va is None else "(some (%d, %d))" % (va[1], va[2])
                    if name == "FrozenAnalog":
                        if va is not None and va[0] != "StaticFrozenAnalogInputVariation":
                            raise Broken("variation enum of " + what)
                        tgt = ".frozenAnalog %s %s" % (vs, lean_bool(keep))
                    elif name == "AnalogInputDeadBand":
                        if va is not None and va[0] != "AnalogInputDeadBandVariation":
                            raise Broken("variation enum of " + what)
                        tgt = ".deadBand %s %s" % (vs, lean_bool(keep))
                    else:
                        if va is not None and va[0] != static_enum_of[by_variant[name][0]]:
                            raise Broken("variation enum of " + what)
                        tgt = ".static %s %s %s" % (ty(name, what), vs, lean_bool(keep))
                else:
                    raise Broken("expression of " + what + ": " + ex)
            elif kind == "EventReadHeader" and name in event_hdr_names:
                mc = re.fullmatch(r"Class(\d)", name)
                if mc and len(a) == 1:
                    tgt = ".evClass %s %s" % (mc.group(1), lean_bool(keep_arg(a[0], word, what)))
                elif name == "OctetString" and len(a) == 1:
                    tgt = ".event %s none %s" % (ty(name, what), lean_bool(keep_arg(a[0], word, what)))
                elif len(a) == 2:
                    va = variation_arg(a[0], what)
                    keep = keep_arg(a[1], word, what)
                    vs = "none" if va is None else "(some (%d, %d))" % (va[1], va[2])
                    if name == "FrozenAnalog":
                        if va is not None and va[0] != "EventFrozenAnalogInputVariation":
                            raise Broken("variation enum of " + what)
                        tgt = ".frozenAnalogEvent %s %s" % (vs, lean_bool(keep))
                    else:
                        if va is not None and va[0] != ev_var_enum[name]:
                            raise Broken("variation enum of " + what)
                        tgt = ".event %s %s %s" % (ty(name, what), vs, lean_bool(keep))
                else:
                    raise Broken("expression of " + what + ": " + ex)
            else:
                raise Broken("expression of " + what + ": " + ex)
            arms.append((g, v, guard, tgt))
        return arms

    t_all = read_table("from_all_objects", "AllObjectsVariation", "\0")
    t_cnt = read_table("from_count", "CountVariation", "count")
    t_rng = read_table("from_range", "RangedVariation", "range")

    # ------------------------------------------------------------------ emit
    o = []
    o.append("namespace Dnp3.Gen.DbT\n")
    o.append("/-- the point types of the outstation database = the variants of `enum Event`\n"
             "    (details/event/buffer.rs) in source order -/")
    o.append("inductive Ty\n" + "".join("  | %s\n" % L[v] for v in types) + "  deriving DecidableEq, Repr, Inhabited\n")
    o.append("def Ty.all : List Ty := [" + ", ".join("." + L[v] for v in types) + "]\n")
    o.append("/-- `impl Insertable for measurement::X`, X = the measurement type whose `create_event` builds this\n"
             "    `Event` variant: the slot (= type, by position in `EventBufferConfig` / `TypeCounter`) that `get_max`,\n"
             "    `get_type_count`, `decrement_type`, `increment_type` touch and the `Event` variant that `is_type`,\n"
             "    `create_event`, `select_variation` name -/")
    o.append("structure InsRow where\n  max : Ty\n  count : Ty\n  isType : Ty\n  dec : Ty\n  inc : Ty\n  create : Ty\n  select : Ty\n  deriving DecidableEq, Repr\n")
    s = "def insertable : Ty → InsRow\n"
    for v in types:
        r = by_variant[v][1]
        s += "  | .%s => ⟨%s, %s, %s, %s, %s, %s, %s⟩   -- measurement::%s\n" % (
            L[v], ty(r["max"], "i"), ty(r["count"], "i"), ty(r["isType"], "i"), ty(r["dec"], "i"), ty(r["inc"], "i"),
            ty(r["create"], "i"), ty(r["select"], "i"), by_variant[v][0])
    o.append(s)
    o.append("/-- `TypeCounter::modify` (used by `Counters::increment`): Event variant ↦ counter slot -/")
    o.append("def typeCounterModify : Ty → Ty\n" + "".join("  | .%s => %s\n" % (L[v], ty(modify[v], "m")) for v in types))
    o.append("/-- the `match record.event` of `Counters::decrement`: Event variant ↦ counter slot -/")
    o.append("def countersDecrement : Ty → Ty\n" + "".join("  | .%s => %s\n" % (L[v], ty(cdec[v], "m")) for v in types))
    o.append("/-- operands of `EventBuffer::is_any_full` (each `self.is_full::<measurement::X>()`), source order -/")
    o.append("def isAnyFull : List Ty := [" + ", ".join(any_full) + "]\n")
    o.append("/-- operands of `EventBufferConfig::max_events` (capacity of the shared event list) -/")
    o.append("def maxEventsSum : List Ty := [" + ", ".join(max_sum) + "]\n")
    o.append("/-- what one arm of `EventBuffer::select_by_header` / `StaticDatabase::select` / `write_range` does -/")
    o.append("inductive HdrSel\n  | cls (c : Nat)\n  | class0\n  | ty (t : Ty) (passesVariation : Bool)\n  | deadBand\n  | nothing\n  deriving DecidableEq, Repr\n")
    o.append("/-- `EventBuffer::select_by_header`: `EventReadHeader` variant name ↦ action -/")
    o.append("def selectByHeader : List (String × HdrSel) := " + lean_list(['("%s", %s)' % x for x in sel_hdr], 3) + "\n")
    def named_fn(name, doc, rows):
        d = dict(rows)
        o.append("/-- %s -/" % doc)
        out = "def %s : Ty → Ty\n" % name
        for v in types:
            m_ = re.fullmatch(r"\.ty (\.\w+) (true|false)", d.get(v, ""))
            if not m_:
                raise Broken("%s: no typed arm for the variant %s" % (name, v))
            out += "  | .%s => %s\n" % (L[v], m_.group(1))
        o.append(out)

    named_fn("eventHdrTy", "`select_by_header`: the `EventReadHeader` variant named like the Event variant ↦ the `T` of `select_by_type::<T>`", sel_hdr)
    o.append("/-- the variants whose `Event::write` arm passes the record's selected variation -/")
    o.append("def eventWriteSelected : List Ty := [" + ", ".join(ty(v, "w") for v in ev_write_fixed) + "]\n")
    o.append("/-- `StaticDatabase::select`: `StaticReadHeader` variant name ↦ action -/")
    o.append("def staticSelect : List (String × HdrSel) := " + lean_list(['("%s", %s)' % x for x in st_sel], 3) + "\n")
    named_fn("staticHdrTy", "`StaticDatabase::select`: the `StaticReadHeader` variant named like the Event variant ↦ the `T` of `select_by_type::<T>`", st_sel)
    named_fn("writeRangeTy", "`write_range`: the `SpecificVariation` variant named like the Event variant ↦ the `T` of `write_typed_range::<T>`", wr)
    o.append("/-- `StaticDatabase::write_range`: `SpecificVariation` variant name ↦ `write_typed_range::<T>` -/")
    o.append("def writeRange : List (String × HdrSel) := " + lean_list(['("%s", %s)' % x for x in wr], 3) + "\n")
    o.append("/-- `impl Updatable for M`: the map `get_map` / `get_mut_map` return, the `SpecificVariation` that `wrap`\n"
             "    builds (and whether it carries the requested variation), the `ClassZeroConfig` field read -/")
    o.append("structure UpdRow where\n  getMap : Ty\n  getMutMap : Ty\n  wrap : Ty\n  wrapVar : Bool\n  classZero : Ty\n  deriving DecidableEq, Repr\n")
    s = "def updatable : Ty → UpdRow\n"
    for v in types:
        r = upd_rows[by_variant[v][0]]
        s += "  | .%s => ⟨%s, %s, %s, %s, %s⟩\n" % (L[v], r["getMap"], r["getMutMap"], r["wrap"], lean_bool(r["wrapVar"]), r["cz"])
    o.append(s)
    o.append("/-- operands of `StaticDatabase::select_class_zero`, source order (= order of the response) -/")
    o.append("def classZeroOrder : List Ty := [" + ", ".join(cz_order) + "]\n")
    o.append("/-- `ClassZeroConfig::default()` -/")
    o.append("def classZeroDefault : Ty → Bool\n" + "".join("  | .%s => %s\n" % (L[v], cz_default[v]) for v in types))
    o.append("/-- `Updatable::Detector` of the type: flags only, flags + dead-band on the value, octets -/")
    o.append("inductive Detector | flags | deadband | value\n  deriving DecidableEq, Repr\n")
    o.append("def detector : Ty → Detector\n" + "".join("  | .%s => %s\n" % (L[v], det_rows[i]) for i, v in enumerate(types)))
    o.append("/-- how `StaticVariation::get_write_info` writes a variation -/")
    o.append("inductive StKind\n  | bits | doubleBits\n  | fixed (g v : Nat)   -- `fixed_type::<M, GroupgVarv>()`\n  | octets             -- `Variation::Group110(value.len())`, `write_bytes`\n  deriving DecidableEq, Repr\n")
    o.append("structure StVar where\n  ty : Ty\n  group : Nat\n  var : Option Nat     -- none: the variation octet is the length (g110)\n  kind : StKind\n  deriving DecidableEq, Repr\n")
    o.append("/-- every arm of every `StaticVariation::get_write_info` -/")
    o.append("def staticVariations : List StVar := " + lean_list(["⟨%s, %d, %s, %s⟩" % (t, g, opt(v), k) for t, g, v, k in sv_rows], 3) + "\n")
    o.append("/-- `StaticVariation::promote`: (type, from, to, mask removed from the flags before the comparison with ONLINE) -/")
    o.append("def promotions : List (Ty × (Nat × Nat) × (Nat × Nat) × Nat) := " +
             lean_list(["(%s, (%d, %d), (%d, %d), %d)" % (t, a[0], a[1], b[0], b[1], mk) for t, a, b, mk in promote_rows], 2) + "\n")
    o.append("/-- `AnalogInputDeadBandVariation::get_write_info` -/")
    o.append("def deadBandVariations : List (Nat × Nat) := [" + ", ".join("(%d, %d)" % x for x in db_rows) + "]\n")
    o.append("inductive EvKind | fixed | cto | octets\n  deriving DecidableEq, Repr\n")
    o.append("structure EvVar where\n  ty : Ty\n  group : Nat\n  var : Option Nat\n  kind : EvKind\n  usesCto : Bool\n  deriving DecidableEq, Repr\n")
    o.append("/-- every arm of every `EventVariation::write` (with `get_group_var`, `uses_cto`) -/")
    o.append("def eventVariations : List EvVar := " + lean_list(["⟨%s, %d, %s, %s, %s⟩" % (t, g, opt(v), k, lean_bool(c)) for t, g, v, k, c in evv_rows], 3) + "\n")
    o.append("/-- `Default for <Type>Config`: (static, event) variation; none for octet strings -/")
    o.append("def defaultConfig : List (Ty × Option ((Nat × Nat) × (Nat × Nat))) := " +
             lean_list(["(%s, %s)" % (t, "none" if d is None else "some ((%d, %d), (%d, %d))" % (d[0] + d[1])) for t, d in defaults], 2) + "\n")
    o.append("/-- the meaning of one READ object header (`ReadHeader`); `keeps…` = the arm passes the request's\n"
             "    range / count on (`Some(range)` / `Some(count)`) rather than `None` -/")
    o.append("inductive ReadTgt\n  | attrAll | attrSpecific\n  | class0\n  | evClass (c : Nat) (keepsCount : Bool)\n"
             "  | static (t : Ty) (var : Option (Nat × Nat)) (keepsRange : Bool)\n"
             "  | event (t : Ty) (var : Option (Nat × Nat)) (keepsCount : Bool)\n"
             "  | frozenAnalog (var : Option (Nat × Nat)) (keepsRange : Bool)\n"
             "  | frozenAnalogEvent (var : Option (Nat × Nat)) (keepsCount : Bool)\n"
             "  | deadBand (var : Option (Nat × Nat)) (keepsRange : Bool)\n  deriving DecidableEq, Repr\n")
    o.append("/-- one match arm: pattern `GroupgVarv` (`var = some v`) or `Groupg(..)` / `GroupgVarX(..)` (`var = none`;\n"
             "    `guard = 1`: the `(_, Some(_))` form of group 0), result `None` = `tgt = none` -/")
    o.append("structure ReadArm where\n  group : Nat\n  var : Option Nat\n  guard : Nat\n  tgt : Option ReadTgt\n  deriving DecidableEq, Repr\n")

    def emit_table(name, doc, arms):
        rows = ["⟨%d, %s, %d, %s⟩" % (g, opt(v), gd, "none" if t is None else "some (%s)" % t) for g, v, gd, t in arms]
        o.append("/-- %s -/" % doc)
        o.append("def %s : List ReadArm := %s\n" % (name, lean_list(rows, 2)))

    emit_table("readAllObjects", "`ReadHeader::from_all_objects`", t_all)
    emit_table("readCount", "`ReadHeader::from_count`", t_cnt)
    emit_table("readRange", "`ReadHeader::from_range`", t_rng)
    o.append("inductive HdrFamily | allObjects | count | range | unsupported\n  deriving DecidableEq, Repr\n")
    o.append("/-- `ReadHeader::get_impl`: `HeaderDetails` variant ↦ table -/")
    o.append("def getImpl : List (String × HdrFamily) := " + lean_list(['("%s", %s)' % x for x in gi], 2) + "\n")
    o.append("end Dnp3.Gen.DbT\n")
    api.emit(GEN, "\n".join(o))
    for path, fns in ((BUF, ["insert", "select", "write_events", "clear_written", "reset", "unwritten_classes"]),
                      (SDB, ["update", "write", "write_typed_range", "select_by_type", "select_class_zero_type", "push_selection"]),
                      ("dnp3/src/outstation/database/details/range/writer.rs", ["try_write", "start_header", "write_next_value", "write_first_value"]),
                      ("dnp3/src/outstation/database/details/event/writer.rs", ["try_write", "start_new_header"]),
                      ("dnp3/src/outstation/database/details/database.rs", ["update", "write_response_headers"])):
        for fn in fns:
            api.report["hashes"][path.split("/database/")[-1] + "::" + fn] = api.fn_hash(path, fn)
