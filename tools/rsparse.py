"""rsparse -- a small Rust tokenizer / token-tree builder used by gen_ffi.py.

It does not parse Rust; it splits source text into tokens (comments and string contents handled
correctly), nests the bracket groups, and offers helpers to walk `impl`/`fn`/`match`/struct-literal
shapes.  Anything it cannot split raises ParseError (reported by the caller as a broken tie).
"""
import re


class ParseError(Exception):
    pass


class Tok:
    __slots__ = ("kind", "text", "line", "items", "close")

    def __init__(self, kind, text, line, items=None):
        self.kind = kind      # id | num | str | char | life | punct | group
        self.text = text      # for group: the opening bracket
        self.line = line
        self.items = items    # for group: list of Tok

    def __repr__(self):
        return "G%s" % self.text if self.kind == "group" else self.text


PUNCT3 = ["..=", "<<=", ">>=", "..."]
PUNCT2 = ["::", "=>", "->", "..", "&&", "||", "==", "!=", "<=", ">=", "+=", "-=", "*=", "/=", "|=", "&=", "^=", "<<", ">>"]
ID_RE = re.compile(r"[A-Za-z_][A-Za-z0-9_]*")
NUM_RE = re.compile(r"[0-9][0-9A-Za-z_]*(\.[0-9][0-9A-Za-z_]*)?")


def tokenize(s):
    toks = []
    i = 0
    n = len(s)
    line = 1
    while i < n:
        c = s[i]
        if c == "\n":
            line += 1
            i += 1
            continue
        if c.isspace():
            i += 1
            continue
        if s.startswith("//", i):
            j = s.find("\n", i)
            i = n if j < 0 else j
            continue
        if s.startswith("/*", i):
            depth = 1
            j = i + 2
            while j < n and depth:
                if s.startswith("/*", j):
                    depth += 1
                    j += 2
                elif s.startswith("*/", j):
                    depth -= 1
                    j += 2
                else:
                    if s[j] == "\n":
                        line += 1
                    j += 1
            i = j
            continue
        # raw strings r"..." r#"..."#, byte strings
        m = re.match(r"b?r(#*)\"", s[i:])
        if m:
            hashes = m.group(1)
            end = s.find('"' + hashes, i + m.end())
            if end < 0:
                raise ParseError("unterminated raw string at line %d" % line)
            text = s[i : end + 1 + len(hashes)]
            toks.append(Tok("str", text, line))
            line += text.count("\n")
            i = end + 1 + len(hashes)
            continue
        if c == '"' or (c == "b" and i + 1 < n and s[i + 1] == '"'):
            j = i + (2 if c == "b" else 1)
            while j < n and s[j] != '"':
                if s[j] == "\\":
                    j += 1
                j += 1
            if j >= n:
                raise ParseError("unterminated string at line %d" % line)
            text = s[i : j + 1]
            toks.append(Tok("str", text, line))
            line += text.count("\n")
            i = j + 1
            continue
        if c == "'":
            # char literal or lifetime
            m = re.match(r"'(\\.[^']*|[^'\\])'", s[i:])
            if m:
                toks.append(Tok("char", m.group(0), line))
                i += m.end()
                continue
            m = re.match(r"'[A-Za-z_][A-Za-z0-9_]*", s[i:])
            if m:
                toks.append(Tok("life", m.group(0), line))
                i += m.end()
                continue
            raise ParseError("stray quote at line %d" % line)
        m = ID_RE.match(s, i)
        if m:
            toks.append(Tok("id", m.group(0), line))
            i = m.end()
            continue
        m = NUM_RE.match(s, i)
        if m:
            toks.append(Tok("num", m.group(0), line))
            i = m.end()
            continue
        for p in PUNCT3:
            if s.startswith(p, i):
                toks.append(Tok("punct", p, line))
                i += 3
                break
        else:
            for p in PUNCT2:
                if s.startswith(p, i):
                    toks.append(Tok("punct", p, line))
                    i += 2
                    break
            else:
                toks.append(Tok("punct", c, line))
                i += 1
    return toks


CLOSE = {"(": ")", "[": "]", "{": "}"}


def tree(toks):
    """nest (), [], {} into group tokens"""
    stack = [[]]
    opens = []
    for t in toks:
        if t.kind == "punct" and t.text in CLOSE:
            g = Tok("group", t.text, t.line, [])
            stack[-1].append(g)
            stack.append(g.items)
            opens.append(t)
        elif t.kind == "punct" and t.text in (")", "]", "}"):
            if not opens or CLOSE[opens[-1].text] != t.text:
                raise ParseError("unbalanced %s at line %d" % (t.text, t.line))
            opens.pop()
            stack.pop()
        else:
            stack[-1].append(t)
    if opens:
        raise ParseError("unclosed %s from line %d" % (opens[-1].text, opens[-1].line))
    return stack[0]


def parse(text):
    return tree(tokenize(text))


def flat(toks):
    """token list -> compact source text"""
    out = []
    for t in toks:
        if t.kind == "group":
            out.append(t.text + flat(t.items) + CLOSE[t.text])
        else:
            out.append(t.text)
    res = ""
    for a in out:
        if res and (res[-1].isalnum() or res[-1] == "_") and (a[0].isalnum() or a[0] == "_"):
            res += " "
        res += a
    return res


def is_p(t, text):
    return t.kind == "punct" and t.text == text


def is_id(t, text=None):
    return t.kind == "id" and (text is None or t.text == text)


def is_g(t, b=None):
    return t.kind == "group" and (b is None or t.text == b)


def split_top(toks, sep):
    """split a token list at top-level punct `sep` (generic angle brackets are NOT tracked)"""
    res = [[]]
    for t in toks:
        if is_p(t, sep):
            res.append([])
        else:
            res[-1].append(t)
    return res


def split_commas(toks):
    """split at top-level commas, tracking `<...>` nesting of generics conservatively:
    commas inside angle brackets that directly follow an identifier or `::` are not split"""
    res = [[]]
    depth = 0
    prev = None
    for t in toks:
        if is_p(t, "<") and prev is not None and (prev.kind == "id" or is_p(prev, "::")):
            depth += 1
        elif is_p(t, ">") and depth:
            depth -= 1
        elif is_p(t, ">>") and depth:
            depth = max(0, depth - 2)
        if is_p(t, ",") and depth == 0:
            res.append([])
        else:
            res[-1].append(t)
        prev = t
    if res and not res[-1]:
        res.pop()
    return res
