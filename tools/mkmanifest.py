#!/usr/bin/env python3
"""write /verif/MANIFEST.json from tools/propcfg.py (claimed checks) + the not-yet-claimed list"""
import json, os, subprocess, sys
ROOT = os.path.normpath(os.path.join(os.path.dirname(os.path.abspath(__file__)), ".."))
sys.path.insert(0, os.path.join(ROOT, "tools"))
from propcfg import PROPS, NOT_APPLICABLE

def hook_commits():
    try:
        out = subprocess.run(["git", "-C", "/repo", "log", "--format=%H %s"], capture_output=True, text=True).stdout
        return [l.split()[0] for l in out.splitlines() if " verif hook" in l or l.split(" ", 1)[1].startswith("hook:")]
    except Exception:
        return []

checks = []
for pid in sorted(PROPS):
    c = PROPS[pid]
    checks.append({
        "property_id": pid,
        "quick_cmd": "./check %s quick" % pid,
        "thorough_cmd": "./check %s thorough" % pid,
        "evidence_file": "/verif/evidence/%s.json" % pid,
        "replay_cmd_template": "./check %s quick --replay {path}" % pid,
        "engine": ",".join(c["engines"]),
        "level_claimed": {"category": "proof", "text": c["level_text"], "design_ref": c.get("design_ref", "DESIGN.md §6 " + pid)},
        "level_note": c["level_note"],
        "technique": c.get("technique", "Lean 4 theorems over an executable model; model tied to /repo by regenerated tables (translate.py) and differential correspondence (Rust harness vs compiled Lean driver)"),
    })
m = {
    "version": 1,
    "setup_cmd": "./setup.sh",
    "hooks": {
        "guard": "--cfg stepfunc_dnp3_verif",
        "enable": "RUSTFLAGS='--cfg stepfunc_dnp3_verif' (set in /verif/harness/.cargo/config.toml); the cfg-guarded module dnp3::verif_hooks includes /verif/hooks/dnp3_hooks.rs; PhysLayer::Pipe variant",
        "baseline_off_cmd": "cd /repo && cargo test --workspace --no-fail-fast --offline",
        "source_commits": hook_commits(),
        "add_only": True,
    },
    "engines": [
        {"name": "lean-model", "path": "lean/", "serves_properties": sorted(PROPS), "kind_free_text": "Lean 4 library: generated tables (Gen), hand-written executable models (Model), lemmas (Proofs), property theorems (Props), line-protocol driver compiled as lean_exe dnp3model"},
        {"name": "corr", "path": "harness/", "serves_properties": sorted(PROPS), "kind_free_text": "Rust harness driving the real dnp3 code in-process through cfg-guarded hooks; generates cases, runs implementation, evaluates trace monitors"},
        {"name": "translate", "path": "tools/translate.py", "serves_properties": sorted(PROPS), "kind_free_text": "source -> Lean table translator, re-run on every check"},
    ],
    "checks": checks,
    "not_applicable": [{"property_id": k, "reason": v} for k, v in sorted(NOT_APPLICABLE.items()) if k not in PROPS],
    "notes": "All checks: ./check <id> <tier>. See DESIGN.md. known_findings.jsonl lists genuine defects recorded or fixed.",
}
json.dump(m, open(os.path.join(ROOT, "MANIFEST.json"), "w"), indent=1)
print("MANIFEST.json:", len(checks), "checks,", len(m["not_applicable"]), "not claimed")
