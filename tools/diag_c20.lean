import Dnp3.Props.C20Lists
/-! failing-input search for C20: lists the rows of the regenerated conversion table that violate the
    property predicates (run by `check` when a theorem of Dnp3.Props.C20 no longer checks) -/
open Dnp3.Gen.Ffi Dnp3.Ffi Dnp3.Props.C20

def showArm (a : ArmN) : String :=
  s!"{implNames.getD a.impl "?"} :: {name a.lty}::{name a.lvar} => {name a.rty}::{name a.rvar}"

def showField (f : FieldN) : String :=
  s!"{convNames.getD f.conv "?"} :: {name f.ty}.{name f.field} <- {f.chain.map name}"

def str (n : List Nat) : String := String.ofList (n.map Char.ofNat)

def showStmt (s : Dnp3.Gen.FfiHandler.Stmt) : String :=
  s!"[kind {s.kind} place {str s.place} binder {str s.binder} ctor {str s.ctor} args {s.args.map str}]"

open Dnp3.Gen.FfiHandler Dnp3.FfiHandler in
/-- master-side measurement path (Gen/FfiHandler.lean): rows that violate the predicates of Model/FfiHandler.lean -/
def handlerRows : IO Unit := do
  for m in methods do
    if !(MethodNamesake methodCfg attrArms.length m) then
      IO.println s!"ROW method-not-namesake :: impl ReadHandler for ffi::ReadHandler :: fn {str m.name} calls ffi::ReadHandler::{str m.callee}({m.args.map str}) x{m.calls}, adapter {str m.iterTy}::new({str m.iterSrc}), info = {str m.infoInit}"
  if !(AdaptersUsedOnce octetIt methods iterators) then
    IO.println "TABLE adapters-not-used-once :: an iterator adapter is built by no method or by several (handler_adapters_used_once)"
  for i in iterators do
    if !(IterInstNamesake methodCfg.sIterator (c!"IteratorNext") (c!"ffi::") i) then
      IO.println s!"ROW iterator-instance-not-namesake :: implement_iterator!({str i.itName}, {str i.func}, {str i.libTy}, {str i.ffiTy})"
    if !(CtorMatches macroCfg ctors i) then
      IO.println s!"ROW constructor-parameters :: {str i.ffiTy}::new does not take (idx: u16, value: {str i.libTy})"
  if !(MacroFeedsNamesake macroCfg) then
    IO.println s!"ROW macro-next-crossed :: implement_iterator: item {macroItem.map str}, |({macroNextPattern.map str})| {str macroNextCtor}({macroNextArgs.map str}) -> {str macroNextTarget}"
  if macroFnSteps != nextSteps then
    IO.println s!"ROW exported-next-steps :: implement_iterator: {macroFnSteps.map str}"
  if octetFnSteps != nextSteps then
    IO.println s!"ROW exported-next-steps :: octet_string_iterator_next: {octetFnSteps.map str}"
  if !(FreshByteIterator (c!"crate::ByteIterator::new") (c!"ffi::OctetString::new") (c!"self.next") octetNextPattern octetNextSome) then
    IO.println s!"ROW octet-string-byte-iterator-not-fresh :: OctetStringIterator::next, branch Some(({octetNextPattern.map str})): {octetNextSome.map showStmt} -- failing input: one header with two or more octet strings, e.g. `octet_string Group110(3) Range8 0 0 ; i 7 010203 ; i 8 040506 ; end 2` (engine ffimeas)"
  if !(ExhaustedClears (c!"self.next") octetNextElse) then
    IO.println s!"ROW octet-string-exhausted-branch :: OctetStringIterator::next, else branch: {octetNextElse.map showStmt}"
  for a in attrArms do
    if !(AttrArmNamesake attrCfg a) then
      IO.println s!"ROW attr-arm-not-namesake :: FfiAttrValue::{str a.variant}({a.binders.map str}) => ffi::ReadHandler::{str a.callee}({a.args.map str}) [e = {str a.enumInit}; value from {a.valueRoots.map str}]"

def main : IO Unit := do
  handlerRows
  for a in armsN do
    if !isD22 a then
      if !(ArmNamesake renames a) then
        IO.println s!"ARM not-namesake :: {showArm a}"
      if namesakeAvailable armsN a then
        IO.println s!"ARM renamed-although-namesake-exists :: {showArm a}"
    if !(ArmTypesNamesake typeRenames a) then
      IO.println s!"ARM types-not-namesake :: {showArm a}"
  if !(ImplInjective manyToOne armsN) then
    IO.println "TABLE not-injective :: two source variants of one conversion reach the same target (arms_injective)"
  for f in fieldsN do
    if !(FieldNamesake fieldRenames constFields f) then
      IO.println s!"FIELD not-namesake :: {showField f}"
  if !(FieldSourcesDistinct fieldsN) then
    IO.println "TABLE field-sources-shared :: two target fields of one struct conversion read the same source"
