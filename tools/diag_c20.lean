import Dnp3.Props.C20Lists
/-! failing-input search for C20: lists the rows of the regenerated conversion table that violate the
    property predicates (run by `check` when a theorem of Dnp3.Props.C20 no longer checks) -/
open Dnp3.Gen.Ffi Dnp3.Ffi Dnp3.Props.C20

def showArm (a : ArmN) : String :=
  s!"{implNames.getD a.impl "?"} :: {name a.lty}::{name a.lvar} => {name a.rty}::{name a.rvar}"

def showField (f : FieldN) : String :=
  s!"{convNames.getD f.conv "?"} :: {name f.ty}.{name f.field} <- {f.chain.map name}"

def main : IO Unit := do
  for a in armsN do
    if !isD22 a then
      if !(ArmNamesake renames a) then
        IO.println s!"ARM not-namesake :: {showArm a}"
      if namesakeAvailable armsN a then
        IO.println s!"ARM renamed-although-namesake-exists :: {showArm a}"
    if !(ArmTypesNamesake typeRenames a) then
      IO.println s!"ARM types-not-namesake :: {showArm a}"
  if !(ImplInjective manyToOne armsN) then
    IO.println "TABLE not-injective :: two source variants of one conversion reach the same target (arms_injective)"
  for f in fieldsN do
    if !(FieldNamesake fieldRenames constFields f) then
      IO.println s!"FIELD not-namesake :: {showField f}"
  if !(FieldSourcesDistinct fieldsN) then
    IO.println "TABLE field-sources-shared :: two target fields of one struct conversion read the same source"
