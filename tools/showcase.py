#!/usr/bin/env python3
"""print a case's ops with the implementation's outputs: showcase.py <ops> <impl> <case-number> [from-op] [to-op] [width]"""
import sys
def split(path):
    cases={}; cur=None
    for line in open(path):
        line=line.rstrip("\n")
        if line.startswith("# case"):
            cur=[]; cases[line.split()[2]]=cur
        elif cur is not None: cur.append(line)
    return cases
ops,impl=split(sys.argv[1]),split(sys.argv[2])
n=sys.argv[3]; lo=int(sys.argv[4]) if len(sys.argv)>4 else 0; hi=int(sys.argv[5]) if len(sys.argv)>5 else 10**9
W=int(sys.argv[6]) if len(sys.argv)>6 else 110
o=[l for l in ops[n] if l.strip() and not l.startswith("@")]
chunks=[]; cur=[]
for l in impl[n]:
    if l=="ok": chunks.append(cur); cur=[]
    else: cur.append(l)
for k,op in enumerate(o):
    if lo<=k<=hi:
        print("%3d %s"%(k,op[:W]))
        for x in (chunks[k] if k<len(chunks) else ["<none>"]): print("       "+x[:W])
