#!/bin/sh
# one-off build of the framework from files on disk (offline)
set -e
cd "$(dirname "$0")"
export CARGO_NET_OFFLINE=true
mkdir -p work evidence replay
python3 tools/translate.py
(cd lean && lake build Dnp3 dnp3model)
(cd harness && cargo build --offline)
