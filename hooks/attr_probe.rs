//! C09 probe for device attributes (group 0): the real `Database::define_attr`, the real READ
//! selection (`HeaderCollection::parse` + `DatabaseHandle::select`), the real response writers
//! (`write_response_headers` -> `AttrHandler::write` -> `Selection::write_all`,
//! `write_attr_list`, `HeaderWriter::write_attribute`), the master's attribute request builder
//! (`Headers::add_attribute` -> `Header::format`) and the library's own parser
//! (`ParsedFragment::parse`, `AttrValue::parse`, `VariationList::iter`).
//! Only exposes existing code; no behaviour is changed.  Every call runs under `catch_unwind`;
//! `Err(())` means the real code panicked (the harness prints `panic`).
use std::panic::{catch_unwind, AssertUnwindSafe};

use crate::app::attr::{
    AttrParseError, AttrProp, AttrSet, AttrValue, Attribute, FloatType, OwnedAttrValue,
    OwnedAttribute,
};
use crate::app::format::write::HeaderWriter;
use crate::app::gen::prefixed::PrefixedVariation;
use crate::app::gen::ranged::RangedVariation;
use crate::app::parse::options::ParseOptions;
use crate::app::parse::parser::{HeaderCollection, HeaderDetails, ParsedFragment};
use crate::app::{ControlField, FunctionCode, HeaderParseError, ObjectParseError, Timestamp};
use crate::master::Headers;
use crate::outstation::database::{
    AttrDefError, ClassZeroConfig, DatabaseHandle, EventBufferConfig,
};
use scursor::WriteCursor;

/// an attribute value as the ops file spells it (floats as raw bits)
#[derive(Clone, Debug, PartialEq)]
pub enum Val {
    Vstr(Vec<u8>),
    Uint(u32),
    Int(i32),
    F32(u32),
    F64(u64),
    Ostr(Vec<u8>),
    Bstr(Vec<u8>),
    Time(u64),
}

impl Val {
    /// `None`: a visible string that is not UTF-8 cannot be put into a `String`
    fn to_owned_value(&self) -> Option<OwnedAttrValue> {
        Some(match self {
            Val::Vstr(b) => OwnedAttrValue::VisibleString(String::from_utf8(b.clone()).ok()?),
            Val::Uint(x) => OwnedAttrValue::UnsignedInt(*x),
            Val::Int(x) => OwnedAttrValue::SignedInt(*x),
            Val::F32(b) => OwnedAttrValue::FloatingPoint(FloatType::F32(f32::from_bits(*b))),
            Val::F64(b) => OwnedAttrValue::FloatingPoint(FloatType::F64(f64::from_bits(*b))),
            Val::Ostr(b) => OwnedAttrValue::OctetString(b.clone()),
            Val::Bstr(b) => OwnedAttrValue::BitString(b.clone()),
            Val::Time(t) => OwnedAttrValue::Dnp3Time(Timestamp::new(*t)),
        })
    }
}

fn hex(b: &[u8]) -> String {
    super::hex(b)
}

fn guard<R>(f: impl FnOnce() -> R) -> Result<R, ()> {
    catch_unwind(AssertUnwindSafe(f)).map_err(|_| ())
}

fn attr_err(e: &AttrParseError) -> String {
    use AttrParseError as A;
    match e {
        A::ReadError => "read".to_string(),
        A::UnknownDataType(x) => format!("unknowntype {x}"),
        A::BadIntegerLength(x) => format!("intlen {x}"),
        A::BadFloatLength(x) => format!("floatlen {x}"),
        A::BadTimeLength(x) => format!("timelen {x}"),
        A::BadAttrListLength(x) => format!("listlen {x}"),
        A::BadVisibleString(_) => "badstring".to_string(),
        A::SetIdNotU8(x) => format!("setid {x}"),
        A::CountNotOne(x) => format!("countnotone {x}"),
    }
}

fn obj_err(e: &ObjectParseError) -> String {
    match e {
        ObjectParseError::UnknownGroupVariation(g, v) => format!("unknowngv {g} {v}"),
        ObjectParseError::UnknownQualifier(q) => format!("unknownqualifier {q}"),
        ObjectParseError::InsufficientBytes => "insufficient".to_string(),
        ObjectParseError::InvalidRange(s, e) => format!("invalidrange {s} {e}"),
        ObjectParseError::InvalidQualifierForVariation(v, q) => {
            let (g, var) = v.to_group_and_var();
            format!("invalidqualifier {g} {var} {}", q.as_u8())
        }
        ObjectParseError::UnsupportedQualifierCode(q) => {
            format!("unsupportedqualifier {}", q.as_u8())
        }
        ObjectParseError::UnsupportedFreeFormatCount(n) => format!("freeformatcount {n}"),
        ObjectParseError::ZeroLengthOctetData => "zerolength".to_string(),
        ObjectParseError::BadAttribute(a) => format!("badattr {}", attr_err(a)),
        ObjectParseError::BadEncoding => "badencoding".to_string(),
    }
}

/// `<kind> <payload>` of a parsed attribute value
fn value_str(v: &AttrValue) -> String {
    match v {
        AttrValue::VisibleString(s) => format!("vstr {}", hex(s.as_bytes())),
        AttrValue::UnsignedInt(x) => format!("uint {x}"),
        AttrValue::SignedInt(x) => format!("int {x}"),
        AttrValue::FloatingPoint(FloatType::F32(x)) => format!("f32 {:08x}", x.to_bits()),
        AttrValue::FloatingPoint(FloatType::F64(x)) => format!("f64 {:016x}", x.to_bits()),
        AttrValue::OctetString(b) => format!("ostr {}", hex(b)),
        AttrValue::BitString(b) => format!("bstr {}", hex(b)),
        AttrValue::Dnp3Time(t) => format!("time {}", t.raw_value()),
        AttrValue::AttrList(list) => {
            // the library's own iterator over the list
            let items: Vec<String> = list
                .iter()
                .map(|i| format!("{}:{}", i.variation, i.properties.is_writable() as u8))
                .collect();
            if items.is_empty() {
                "list -".to_string()
            } else {
                format!("list {}", items.join(","))
            }
        }
    }
}

fn attr_line(q: u8, a: &Attribute) -> String {
    format!(
        "a {q} {} {} {}",
        a.set.value(),
        a.variation,
        value_str(&a.value)
    )
}

/// the canonical dump of the object headers of a parsed fragment:
///   a <qualifier> <set> <var> <kind> <payload>      a group-0 object carrying a value
///   r <var> <qualifier> <spec>                      a group-0 header without a value (READ, or g0v254)
///   h <group> <var> <qualifier>                     any other header
/// followed by `n <number of headers>`; or `objerr <error>`
fn dump_headers(objects: &Result<HeaderCollection, ObjectParseError>, out: &mut Vec<String>) {
    match objects {
        Err(e) => out.push(format!("objerr {}", obj_err(e))),
        Ok(headers) => {
            let mut n = 0usize;
            for h in headers.iter() {
                n += 1;
                let (g, v) = h.variation.to_group_and_var();
                let q = h.details.qualifier().as_u8();
                let line = match &h.details {
                    HeaderDetails::OneByteStartStop(_, _, RangedVariation::Group0(_, Some(a))) => {
                        attr_line(q, a)
                    }
                    HeaderDetails::TwoByteStartStop(_, _, RangedVariation::Group0(_, Some(a))) => {
                        attr_line(q, a)
                    }
                    HeaderDetails::OneByteCountAndPrefix(_, PrefixedVariation::Group0(a)) => {
                        attr_line(q, a)
                    }
                    HeaderDetails::TwoByteCountAndPrefix(_, PrefixedVariation::Group0(a)) => {
                        attr_line(q, a)
                    }
                    HeaderDetails::OneByteStartStop(s, e, _) if g == 0 => {
                        format!("r {v} {q} {s}..{e}")
                    }
                    HeaderDetails::TwoByteStartStop(s, e, _) if g == 0 => {
                        format!("r {v} {q} {s}..{e}")
                    }
                    HeaderDetails::AllObjects(_) if g == 0 => format!("r {v} {q} -"),
                    _ => format!("h {g} {v} {q}"),
                };
                out.push(line);
            }
            out.push(format!("n {n}"));
        }
    }
}

/// `ParsedFragment::parse` of a whole fragment (application header + objects), then every header
/// through the real lazy iterator.  A panic anywhere is the single line `panic`.
pub fn parse_fragment(fragment: &[u8]) -> Vec<String> {
    let res = guard(|| {
        let mut out = Vec::new();
        let options = ParseOptions {
            parse_zero_length_strings: false,
        };
        match ParsedFragment::parse(options, fragment) {
            Err(HeaderParseError::InsufficientBytes) => {
                out.push("err hdr insufficient".to_string())
            }
            Err(HeaderParseError::UnknownFunction(seq, raw)) => {
                out.push(format!("err hdr unknownfn {} {}", seq.value(), raw))
            }
            Ok(frag) => {
                dump_headers(&frag.objects, &mut out);
                // Display of attribute values at full decode level: panic / no panic only
                let shown = catch_unwind(AssertUnwindSafe(|| {
                    format!(
                        "{}",
                        frag.display(crate::decode::AppDecodeLevel::ObjectValues)
                    )
                    .len()
                }));
                if shown.is_err() {
                    out.push("display panic".to_string());
                }
            }
        }
        out
    });
    res.unwrap_or_else(|_| vec!["panic".to_string()])
}

#[derive(Copy, Clone, Debug)]
pub enum SelectResult {
    ParseError,
    /// a header of another group: the engine does not select (vocabulary: group 0 only)
    NotGroup0,
    Iin2(u8),
}

pub struct AttrProbe {
    handle: DatabaseHandle,
}

impl AttrProbe {
    pub fn new() -> Self {
        Self {
            handle: DatabaseHandle::new(
                None,
                ClassZeroConfig::default(),
                EventBufferConfig::no_events(),
            ),
        }
    }

    /// `Database::define_attr` through the public transaction API.
    /// Ok(Ok(())) defined | Ok(Err(text)) rejected (canonical error text) | Err(()) panic
    pub fn define(
        &mut self,
        set: u8,
        var: u8,
        writable: bool,
        val: &Val,
    ) -> Result<Result<(), String>, ()> {
        let value = match val.to_owned_value() {
            Some(v) => v,
            None => return Ok(Err("badspec".to_string())),
        };
        let prop = if writable {
            AttrProp::writable()
        } else {
            AttrProp::default()
        };
        let attr = OwnedAttribute::new(AttrSet::new(set), var, value);
        guard(|| {
            self.handle
                .transaction(|db| db.define_attr(prop, attr.clone()))
                .map_err(|e| match e {
                    AttrDefError::AlreadyDefined => "already".to_string(),
                    AttrDefError::BadType(t) => {
                        format!("badtype {} {}", u8::from(t.expected), u8::from(t.actual))
                    }
                    AttrDefError::ReservedVariation(v) => format!("reserved {v}"),
                    AttrDefError::NotWritable(s, v) => format!("notwritable {} {v}", s.value()),
                })
        })
    }

    /// the object-header octets of a READ request parsed by the real parser, then `DatabaseHandle::select`
    pub fn select(&mut self, object_headers: &[u8]) -> Result<SelectResult, ()> {
        guard(|| {
            match HeaderCollection::parse(
                ParseOptions {
                    parse_zero_length_strings: false,
                },
                FunctionCode::Read,
                object_headers,
            ) {
                Err(_) => SelectResult::ParseError,
                Ok(headers) => {
                    if headers
                        .iter()
                        .any(|h| h.variation.to_group_and_var().0 != 0)
                    {
                        SelectResult::NotGroup0
                    } else {
                        SelectResult::Iin2(self.handle.select(&headers).value)
                    }
                }
            }
        })
    }

    /// `write_response_headers` into a cursor over `cap` octets: (octets, has_events, complete)
    pub fn write_response(&mut self, cap: usize) -> Result<(Vec<u8>, bool, bool), ()> {
        guard(|| {
            let mut buf = vec![0xA5u8; cap];
            let mut cursor = WriteCursor::new(&mut buf);
            let info = self.handle.write_response_headers(&mut cursor);
            let n = cursor.position();
            (buf[..n].to_vec(), info.has_events, info.complete)
        })
    }

    /// what the outstation session does with the g0 objects of a WRITE request
    /// (`handle_write_attr` without the application callback): `can_write`, then `write`.
    /// One result per group-0 object: "ok" or the error kind; `None` = the request does not parse
    pub fn write_request(&mut self, object_headers: &[u8]) -> Result<Option<Vec<String>>, ()> {
        guard(|| {
            match HeaderCollection::parse(
                ParseOptions {
                    parse_zero_length_strings: false,
                },
                FunctionCode::Write,
                object_headers,
            ) {
                Err(_) => None,
                Ok(headers) => {
                    let mut res = Vec::new();
                    for h in headers.iter() {
                        let attr = match h.details {
                            HeaderDetails::OneByteStartStop(
                                _,
                                _,
                                RangedVariation::Group0(_, Some(a)),
                            ) => a,
                            HeaderDetails::TwoByteStartStop(
                                _,
                                _,
                                RangedVariation::Group0(_, Some(a)),
                            ) => a,
                            _ => {
                                res.push("skip".to_string());
                                continue;
                            }
                        };
                        let r = self.handle.transaction(|db| {
                            let map = db.inner.get_attr_map();
                            match map.can_write(attr) {
                                Err(e) => Err(e),
                                Ok(()) => map.write(attr),
                            }
                        });
                        // `AttrError` lives in a private module: its variant name (Debug) is the canonical text
                        res.push(match r {
                            Ok(()) => "ok".to_string(),
                            Err(e) => {
                                let s = format!("{e:?}");
                                s.split(|c: char| !c.is_ascii_alphanumeric())
                                    .next()
                                    .unwrap_or("")
                                    .to_string()
                            }
                        });
                    }
                    Some(res)
                }
            }
        })
    }

    pub fn reset(&mut self) -> Result<(), ()> {
        guard(|| self.handle.reset())
    }
}

/// the master's WRITE request carrying attributes: `start_request(ctrl, WRITE)`, then
/// `Headers::add_attribute(..)` ... `Headers::write` (what `MasterTask` does for a headers task)
/// into a buffer of `cap` octets.  Ok(Ok(fragment)) | Ok(Err("cursor" | "badattr <len>" | "badspec"))
pub fn master_write(cap: usize, attrs: &[(u8, u8, Val)]) -> Result<Result<Vec<u8>, String>, ()> {
    guard(|| {
        let mut headers = Headers::new();
        for (set, var, v) in attrs {
            let value = match v.to_owned_value() {
                Some(v) => v,
                None => return Err("badspec".to_string()),
            };
            headers = headers.add_attribute(OwnedAttribute::new(AttrSet::new(*set), *var, value));
        }
        let mut buf = vec![0xA5u8; cap];
        let mut cursor = WriteCursor::new(&mut buf);
        let mut writer: HeaderWriter = match crate::app::format::write::start_request(
            ControlField::from(0xC0),
            FunctionCode::Write,
            &mut cursor,
        ) {
            Ok(w) => w,
            Err(_) => return Err("cursor".to_string()),
        };
        match headers.write(&mut writer) {
            Ok(()) => {}
            Err(crate::master::TaskError::WriteError) => return Err("cursor".to_string()),
            Err(crate::master::TaskError::BadEncoding(crate::master::BadEncoding::Attribute(
                crate::app::attr::BadAttribute::BadLength(n),
            ))) => return Err(format!("badattr {n}")),
            Err(_) => return Err("other".to_string()),
        }
        drop(writer);
        Ok(cursor.written().to_vec())
    })
}
