//! C01: a `tracing` subscriber that FORMATS every event (so that every `Display` / `Debug`
//! implementation reached by the decode-level logging really runs) and throws the text away.
//! Without a subscriber the `tracing::info!(..)` call sites of the library are disabled and their
//! arguments are never evaluated.  Observation only: nothing in the library reads the sink.
use std::fmt::Write;
use std::sync::atomic::{AtomicU64, Ordering};

static FORMATTED_BYTES: AtomicU64 = AtomicU64::new(0);
static EVENTS: AtomicU64 = AtomicU64::new(0);
static SPAN_IDS: AtomicU64 = AtomicU64::new(1);

struct Sink;

struct Fmt(String);

impl tracing::field::Visit for Fmt {
    fn record_debug(&mut self, field: &tracing::field::Field, value: &dyn std::fmt::Debug) {
        let _ = write!(self.0, "{}={:?} ", field.name(), value);
    }
}

impl tracing::Subscriber for Sink {
    fn enabled(&self, _metadata: &tracing::Metadata<'_>) -> bool {
        true
    }
    fn new_span(&self, span: &tracing::span::Attributes<'_>) -> tracing::span::Id {
        let mut f = Fmt(String::new());
        span.record(&mut f);
        FORMATTED_BYTES.fetch_add(f.0.len() as u64, Ordering::Relaxed);
        tracing::span::Id::from_u64(SPAN_IDS.fetch_add(1, Ordering::Relaxed))
    }
    fn record(&self, _span: &tracing::span::Id, values: &tracing::span::Record<'_>) {
        let mut f = Fmt(String::new());
        values.record(&mut f);
        FORMATTED_BYTES.fetch_add(f.0.len() as u64, Ordering::Relaxed);
    }
    fn record_follows_from(&self, _span: &tracing::span::Id, _follows: &tracing::span::Id) {}
    fn event(&self, event: &tracing::Event<'_>) {
        let mut f = Fmt(String::new());
        event.record(&mut f);
        EVENTS.fetch_add(1, Ordering::Relaxed);
        FORMATTED_BYTES.fetch_add(f.0.len() as u64, Ordering::Relaxed);
    }
    fn enter(&self, _span: &tracing::span::Id) {}
    fn exit(&self, _span: &tracing::span::Id) {}
}

/// install the sink as the global default subscriber (idempotent: a second call is a no-op)
pub fn install() -> bool {
    tracing::subscriber::set_global_default(Sink).is_ok()
}

/// (events formatted, octets of formatted text) since process start
pub fn counters() -> (u64, u64) {
    (
        EVENTS.load(Ordering::Relaxed),
        FORMATTED_BYTES.load(Ordering::Relaxed),
    )
}
