//! the real `MasterTask` (session + real transport + real link layer) running over
//! `PhysLayer::Pipe`, driven the way `serial/task.rs` / the TCP client task drive it:
//! wait until enabled, obtain a connection, `task.run(io)`, repeat.  Nothing here changes
//! behaviour; it only wires existing pub(crate) constructors together.
use crate::app::parse::options::ParseOptions;
use crate::app::Variation;
use crate::link::reader::LinkModes;
use crate::link::LinkErrorMode;
use crate::master::task::MasterTask;
use crate::master::{MasterChannel, MasterChannelConfig, MasterChannelType};
use crate::util::phys::PhysLayer;
use crate::util::session::{Enabled, RunError, StopReason};

pub struct MasterProbe {
    task: Box<MasterTask>,
}

/// `MasterTask::new` + the `MasterChannel` handle, exactly as `spawn_master_*` create them
pub fn create_master(config: MasterChannelConfig, enabled: bool) -> (MasterProbe, MasterChannel) {
    let (tx, rx) = crate::util::channel::request_channel();
    let task = MasterTask::new(
        if enabled { Enabled::Yes } else { Enabled::No },
        LinkModes::stream(LinkErrorMode::Close),
        ParseOptions::get_static(),
        config,
        rx,
    );
    (
        MasterProbe {
            task: Box::new(task),
        },
        MasterChannel::new(tx, MasterChannelType::Stream),
    )
}

pub fn group_var(v: Variation) -> (u8, u8) {
    v.to_group_and_var()
}

/// `ControlCode::from(u8)` (the wire decoding of the g12v1 code octet)
pub fn control_code(x: u8) -> crate::app::control::ControlCode {
    crate::app::control::ControlCode::from(x)
}

impl MasterProbe {
    /// the channel task: `wait_for_enabled`, wait for a connection (handling messages while
    /// not connected), run one session per connection.  `log` receives `session <reason>`
    /// after every session and `task-exit` when the task ends.
    pub async fn run(
        &mut self,
        pipes: &mut tokio::sync::mpsc::UnboundedReceiver<tokio::io::DuplexStream>,
        log: &mut (dyn FnMut(String) + Send),
    ) {
        loop {
            // Session::wait_for_enabled
            loop {
                if self.task.enabled() == Enabled::Yes {
                    break;
                }
                if let Err(StopReason::Shutdown) = self.task.process_next_message().await {
                    log("task-exit".to_string());
                    return;
                }
            }
            // not connected: messages are processed with is_connected == false
            let pipe = loop {
                tokio::select! {
                    biased;
                    p = pipes.recv() => {
                        match p {
                            Some(p) => break Some(p),
                            None => std::future::pending::<()>().await,
                        }
                    }
                    r = self.task.process_next_message() => {
                        if let Err(StopReason::Shutdown) = r {
                            log("task-exit".to_string());
                            return;
                        }
                        if self.task.enabled() == Enabled::No {
                            break None;
                        }
                    }
                }
            };
            let pipe = match pipe {
                Some(p) => p,
                None => continue,
            };
            let mut io = PhysLayer::Pipe(pipe);
            match self.task.run(&mut io).await {
                RunError::Stop(StopReason::Shutdown) => {
                    log("session stop Shutdown".to_string());
                    log("task-exit".to_string());
                    return;
                }
                RunError::Stop(r) => log(format!("session stop {r:?}")),
                RunError::Link(e) => log(format!("session link {}", super::link_error_str(&e))),
            }
        }
    }
}
