//! Verification hooks: compiled into the `dnp3` crate only with `--cfg stepfunc_dnp3_verif`
//! (see dnp3/src/lib.rs).  The module lives inside the crate so that it can reach `pub(crate)`
//! items; it only *exposes* existing code to the harness in /verif/harness, it does not alter
//! behaviour.  Non-test library build: the REAL link layer and transport are what run.

#[path = "parse_probe.rs"]
pub mod parse_probe;

use std::future::Future;
use std::pin::Pin;
use std::task::{Context, Poll};

use crate::decode::DecodeLevel;
use crate::link::error::{FrameError, LinkError};
use crate::link::header::{AnyAddress, ControlField, Header};
use crate::link::parser::FramePayload;
use crate::link::reader::{LinkModes, Reader};
use crate::link::{LinkErrorMode, LinkReadMode};
use crate::util::phys::PhysLayer;

/// poll a future exactly once
pub async fn poll_once<F: Future>(f: F) -> Option<F::Output> {
    let mut f = std::pin::pin!(f);
    std::future::poll_fn(|cx: &mut Context<'_>| match f.as_mut().poll(cx) {
        Poll::Ready(x) => Poll::Ready(Some(x)),
        Poll::Pending => Poll::Ready(None),
    })
    .await
}

pub fn link_error_str(e: &LinkError) -> String {
    match e {
        LinkError::Stdio(k) => format!("stdio {k:?}"),
        LinkError::BadFrame(f) => match f {
            FrameError::UnexpectedStart1(b) => format!("start1 {b}"),
            FrameError::UnexpectedStart2(b) => format!("start2 {b}"),
            FrameError::BadLength(n) => format!("badlen {n}"),
            FrameError::BadHeaderCrc => "hdrcrc".to_string(),
            FrameError::BadBodyCrc => "bodycrc".to_string(),
        },
        LinkError::BadLogic(_) => "logic".to_string(),
    }
}

/// the real `link::reader::Reader` over an in-memory pipe
pub struct LinkProbe {
    reader: Reader,
    payload: FramePayload,
    io: PhysLayer,
    tx: tokio::io::DuplexStream,
    dead: bool,
}

impl LinkProbe {
    pub fn new(discard: bool, datagram: bool, frag_size: usize) -> Self {
        let (a, b) = tokio::io::duplex(1 << 20);
        let modes = LinkModes {
            error_mode: if discard {
                LinkErrorMode::Discard
            } else {
                LinkErrorMode::Close
            },
            read_mode: if datagram {
                LinkReadMode::Datagram
            } else {
                LinkReadMode::Stream
            },
        };
        Self {
            reader: Reader::new(modes, frag_size),
            payload: FramePayload::new(),
            io: PhysLayer::Pipe(a),
            tx: b,
            dead: false,
        }
    }

    /// what the transport reader does when a session ends (`link::Layer::reset` -> `Reader::reset`): the next
    /// `feed` belongs to a new session
    pub fn reset_reader(&mut self) {
        self.reader.reset();
        self.dead = false;
    }

    /// one write to the pipe, then `read_frame` is called until it would block.
    /// Returns the canonical event lines.
    pub async fn feed(&mut self, chunk: &[u8]) -> Vec<String> {
        use tokio::io::AsyncWriteExt;
        let mut out = Vec::new();
        if self.dead {
            return out;
        }
        self.tx.write_all(chunk).await.unwrap();
        loop {
            let res = poll_once(self.reader.read_frame(
                &mut self.io,
                &mut self.payload,
                DecodeLevel::nothing(),
            ))
            .await;
            match res {
                None => break,
                Some(Ok((header, _addr))) => {
                    out.push(format!(
                        "frame {} {} {} {}",
                        header.control.to_u8(),
                        header.destination.value(),
                        header.source.value(),
                        hex(self.payload.get())
                    ));
                }
                Some(Err(e)) => {
                    out.push(format!("err {}", link_error_str(&e)));
                    self.dead = true;
                    break;
                }
            }
        }
        out
    }
}

pub fn hex(b: &[u8]) -> String {
    if b.is_empty() {
        return "-".to_string();
    }
    let mut s = String::with_capacity(b.len() * 2);
    for x in b {
        s.push_str(&format!("{x:02x}"));
    }
    s
}

/// `format_data_frame` / `format_header_only` with raw header values
pub fn format_frame_raw(
    ctrl: u8,
    dst: u16,
    src: u16,
    payload: Option<(u8, &[u8])>,
) -> Option<Vec<u8>> {
    let header = Header::new(
        ControlField::from(ctrl),
        AnyAddress::from(dst),
        AnyAddress::from(src),
    );
    let mut buffer = [0u8; 400];
    let mut cursor = scursor::WriteCursor::new(&mut buffer);
    let res = match payload {
        None => crate::link::format::format_header_only(header, &mut cursor),
        Some((t, app)) => crate::link::format::format_data_frame(
            header,
            crate::link::format::Payload::new(t, app),
            &mut cursor,
        ),
    };
    res.ok().map(|f| f.frame.to_vec())
}

// ------------------------------------------------------------------------------------------
// transport probe: the real `transport::real::reader::Reader` (link layer + assembler) and
// `transport::real::writer::Writer` over the pipe
// ------------------------------------------------------------------------------------------
pub struct TransportProbe {
    reader: crate::transport::real::reader::Reader,
    writer: crate::transport::real::writer::Writer,
    io: PhysLayer,
    peer: tokio::io::DuplexStream,
    dead: bool,
}

impl TransportProbe {
    pub fn new(
        master: bool,
        self_address: bool,
        local: u16,
        rx: usize,
        discard: bool,
        datagram: bool,
    ) -> Self {
        let (a, b) = tokio::io::duplex(1 << 20);
        let modes = LinkModes {
            error_mode: if discard {
                LinkErrorMode::Discard
            } else {
                LinkErrorMode::Close
            },
            read_mode: if datagram {
                LinkReadMode::Datagram
            } else {
                LinkReadMode::Stream
            },
        };
        let addr = crate::link::EndpointAddress::raw(local);
        let reader = if master {
            crate::transport::real::reader::Reader::master(modes, addr, rx)
        } else {
            let f = if self_address {
                crate::outstation::Feature::Enabled
            } else {
                crate::outstation::Feature::Disabled
            };
            crate::transport::real::reader::Reader::outstation(modes, addr, f, rx)
        };
        let et = if master {
            crate::app::EndpointType::Master
        } else {
            crate::app::EndpointType::Outstation
        };
        Self {
            reader,
            writer: crate::transport::real::writer::Writer::new(et, addr),
            io: PhysLayer::Pipe(a),
            peer: b,
            dead: false,
        }
    }

    async fn drain_peer(&mut self) -> Vec<u8> {
        use tokio::io::AsyncReadExt;
        let mut all = Vec::new();
        let mut buf = [0u8; 4096];
        loop {
            match poll_once(self.peer.read(&mut buf)).await {
                Some(Ok(n)) if n > 0 => all.extend_from_slice(&buf[..n]),
                _ => break,
            }
        }
        all
    }

    fn push_replies(out: &mut Vec<String>, bytes: &[u8]) {
        // link replies are always 10-octet header-only frames
        for c in bytes.chunks(10) {
            out.push(format!("reply {}", hex(c)));
        }
    }

    pub fn reset(&mut self) {
        self.reader.reset();
        self.writer.reset();
        self.dead = false;
    }

    pub async fn feed(&mut self, chunk: &[u8], double_read: bool) -> Vec<String> {
        use tokio::io::AsyncWriteExt;
        let mut out = Vec::new();
        if self.dead {
            return out;
        }
        self.peer.write_all(chunk).await.unwrap();
        loop {
            let res = poll_once(self.reader.read(&mut self.io, DecodeLevel::nothing())).await;
            let r = self.drain_peer().await;
            Self::push_replies(&mut out, &r);
            match res {
                None => {
                    // the session's idle loop polls `pop_request` on every iteration, also when the read did
                    // not complete: nothing is ready, and asking must not disturb an assembly in progress
                    if self.reader.pop().is_some() {
                        out.push("pop-unexpected".to_string());
                    }
                    break;
                }
                Some(Err(e)) => {
                    out.push(format!("err {}", link_error_str(&e)));
                    self.dead = true;
                    break;
                }
                Some(Ok(())) => {
                    if double_read {
                        let _ =
                            poll_once(self.reader.read(&mut self.io, DecodeLevel::nothing())).await;
                        let r = self.drain_peer().await;
                        Self::push_replies(&mut out, &r);
                    }
                    match self.reader.pop() {
                        Some(crate::transport::TransportData::Fragment(f)) => {
                            let bc = match f.info.broadcast {
                                None => "-".to_string(),
                                Some(crate::link::header::BroadcastConfirmMode::Optional) => {
                                    "0".to_string()
                                }
                                Some(crate::link::header::BroadcastConfirmMode::Mandatory) => {
                                    "1".to_string()
                                }
                                Some(crate::link::header::BroadcastConfirmMode::NotRequired) => {
                                    "2".to_string()
                                }
                            };
                            out.push(format!(
                                "frag {} {} {} {}",
                                f.info.id,
                                f.info.addr.link.raw_value(),
                                bc,
                                hex(f.data)
                            ));
                        }
                        Some(crate::transport::TransportData::LinkLayerMessage(m)) => {
                            let k = match m.message {
                                crate::transport::LinkLayerMessageType::LinkStatusRequest => "req",
                                crate::transport::LinkLayerMessageType::LinkStatusResponse => {
                                    "resp"
                                }
                            };
                            out.push(format!("linkmsg {} {}", m.source.raw_value(), k));
                        }
                        None => out.push("pop-none".to_string()),
                    }
                }
            }
        }
        out
    }

    /// `Writer::write` of one fragment starting at the writer's current sequence number;
    /// returns the link frames written (split on frame boundaries by their length octet)
    pub async fn write(&mut self, dest: u16, fragment: &[u8]) -> Result<Vec<Vec<u8>>, String> {
        let addr = crate::transport::FragmentAddr {
            link: crate::link::EndpointAddress::raw(dest),
            phys: crate::util::phys::PhysAddr::None,
        };
        let res = self
            .writer
            .write(&mut self.io, DecodeLevel::nothing(), addr, fragment)
            .await;
        let bytes = self.drain_peer().await;
        if let Err(e) = res {
            return Err(link_error_str(&e));
        }
        let mut frames = Vec::new();
        let mut i = 0;
        while i + 10 <= bytes.len() {
            let dl = bytes[i + 2] as usize - 5;
            let trailer = (dl / 16) * 18 + if dl % 16 == 0 { 0 } else { dl % 16 + 2 };
            let end = (i + 10 + trailer).min(bytes.len());
            frames.push(bytes[i..end].to_vec());
            i = end;
        }
        Ok(frames)
    }
}

#[path = "outstation_probe.rs"]
pub mod outstation_probe;

// C10: database -> handler conversion probe
#[path = "convert_probe.rs"]
pub mod convert_probe;

#[path = "ffidb_probe.rs"]
pub mod ffidb_probe;

#[path = "db_probe.rs"]
pub mod db_probe;

// C15 C16 C17 C19: the real master task over the pipe
#[path = "master_probe.rs"]
pub mod master_probe;

// C01: formatting `tracing` sink, so that the decode-level Display paths really run
#[path = "trace_sink.rs"]
pub mod trace_sink;

// C09: device attributes (group 0): attribute database, response writers, request builder, parser
#[path = "attr_probe.rs"]
pub mod attr_probe;

// C09: file transfer objects (group 70): object writers, the master's file request builders, parser
#[path = "file70_probe.rs"]
pub mod file70_probe;

// C20: master-side measurement path through the binding layer (engine ffimeas): three native constructors
#[path = "ffimeas_probe.rs"]
pub mod ffimeas_probe;
