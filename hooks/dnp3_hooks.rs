//! Verification hooks: compiled into the `dnp3` crate only with `--cfg stepfunc_dnp3_verif`
//! (see dnp3/src/lib.rs).  The module lives inside the crate so that it can reach `pub(crate)`
//! items; it only *exposes* existing code to the harness in /verif/harness, it does not alter
//! behaviour.  Non-test library build: the REAL link layer and transport are what run.

use std::future::Future;
use std::pin::Pin;
use std::task::{Context, Poll};

use crate::decode::DecodeLevel;
use crate::link::error::{FrameError, LinkError};
use crate::link::header::{AnyAddress, ControlField, Header};
use crate::link::parser::FramePayload;
use crate::link::reader::{LinkModes, Reader};
use crate::link::{LinkErrorMode, LinkReadMode};
use crate::util::phys::PhysLayer;

/// poll a future exactly once
pub async fn poll_once<F: Future>(f: F) -> Option<F::Output> {
    let mut f = std::pin::pin!(f);
    std::future::poll_fn(|cx: &mut Context<'_>| match f.as_mut().poll(cx) {
        Poll::Ready(x) => Poll::Ready(Some(x)),
        Poll::Pending => Poll::Ready(None),
    })
    .await
}

pub fn link_error_str(e: &LinkError) -> String {
    match e {
        LinkError::Stdio(k) => format!("stdio {k:?}"),
        LinkError::BadFrame(f) => match f {
            FrameError::UnexpectedStart1(b) => format!("start1 {b}"),
            FrameError::UnexpectedStart2(b) => format!("start2 {b}"),
            FrameError::BadLength(n) => format!("badlen {n}"),
            FrameError::BadHeaderCrc => "hdrcrc".to_string(),
            FrameError::BadBodyCrc => "bodycrc".to_string(),
        },
        LinkError::BadLogic(_) => "logic".to_string(),
    }
}

/// the real `link::reader::Reader` over an in-memory pipe
pub struct LinkProbe {
    reader: Reader,
    payload: FramePayload,
    io: PhysLayer,
    tx: tokio::io::DuplexStream,
    dead: bool,
}

impl LinkProbe {
    pub fn new(discard: bool, datagram: bool, frag_size: usize) -> Self {
        let (a, b) = tokio::io::duplex(1 << 20);
        let modes = LinkModes {
            error_mode: if discard { LinkErrorMode::Discard } else { LinkErrorMode::Close },
            read_mode: if datagram { LinkReadMode::Datagram } else { LinkReadMode::Stream },
        };
        Self {
            reader: Reader::new(modes, frag_size),
            payload: FramePayload::new(),
            io: PhysLayer::Pipe(a),
            tx: b,
            dead: false,
        }
    }

    /// one write to the pipe, then `read_frame` is called until it would block.
    /// Returns the canonical event lines.
    pub async fn feed(&mut self, chunk: &[u8]) -> Vec<String> {
        use tokio::io::AsyncWriteExt;
        let mut out = Vec::new();
        if self.dead {
            return out;
        }
        self.tx.write_all(chunk).await.unwrap();
        loop {
            let res = poll_once(self.reader.read_frame(&mut self.io, &mut self.payload, DecodeLevel::nothing())).await;
            match res {
                None => break,
                Some(Ok((header, _addr))) => {
                    out.push(format!(
                        "frame {} {} {} {}",
                        header.control.to_u8(),
                        header.destination.value(),
                        header.source.value(),
                        hex(self.payload.get())
                    ));
                }
                Some(Err(e)) => {
                    out.push(format!("err {}", link_error_str(&e)));
                    self.dead = true;
                    break;
                }
            }
        }
        out
    }
}

pub fn hex(b: &[u8]) -> String {
    if b.is_empty() {
        return "-".to_string();
    }
    let mut s = String::with_capacity(b.len() * 2);
    for x in b {
        s.push_str(&format!("{x:02x}"));
    }
    s
}

/// `format_data_frame` / `format_header_only` with raw header values
pub fn format_frame_raw(ctrl: u8, dst: u16, src: u16, payload: Option<(u8, &[u8])>) -> Option<Vec<u8>> {
    let header = Header::new(ControlField::from(ctrl), AnyAddress::from(dst), AnyAddress::from(src));
    let mut buffer = [0u8; 400];
    let mut cursor = scursor::WriteCursor::new(&mut buffer);
    let res = match payload {
        None => crate::link::format::format_header_only(header, &mut cursor),
        Some((t, app)) => crate::link::format::format_data_frame(
            header,
            crate::link::format::Payload::new(t, app),
            &mut cursor,
        ),
    };
    res.ok().map(|f| f.frame.to_vec())
}
