//! C20 database-equivalence: the only thing the harness cannot reach through the public API is the
//! constructor of `outstation::database::Database` (`pub(crate) fn new`).  Exposes it, nothing else.
use crate::outstation::database::{ClassZeroConfig, Database, EventBufferConfig};

pub fn new_database(
    max_read_selection: Option<u16>,
    class_zero: ClassZeroConfig,
    events: EventBufferConfig,
) -> Database {
    Database::new(max_read_selection, class_zero, events)
}
