//! the real `OutstationTask` running over `PhysLayer::Pipe`
use crate::app::parse::options::ParseOptions;
use crate::link::reader::LinkModes;
use crate::link::LinkErrorMode;
use crate::outstation::task::OutstationTask;
use crate::outstation::{
    ControlHandler, OutstationApplication, OutstationConfig, OutstationHandle,
    OutstationInformation,
};
use crate::util::phys::{PhysAddr, PhysLayer};
use crate::util::session::{Enabled, RunError};

pub struct OutstationProbe {
    task: Box<OutstationTask>,
}

pub fn create_outstation(
    config: OutstationConfig,
    discard: bool,
    application: Box<dyn OutstationApplication>,
    information: Box<dyn OutstationInformation>,
    control_handler: Box<dyn ControlHandler>,
) -> (OutstationProbe, OutstationHandle) {
    let modes = LinkModes::stream(if discard {
        LinkErrorMode::Discard
    } else {
        LinkErrorMode::Close
    });
    let (task, handle) = OutstationTask::create(
        Enabled::Yes,
        modes,
        ParseOptions::get_static(),
        config,
        PhysAddr::None,
        application,
        information,
        control_handler,
    );
    (
        OutstationProbe {
            task: Box::new(task),
        },
        handle,
    )
}

impl OutstationProbe {
    /// what the library's own task loops do between two sessions: process messages until communications
    /// are enabled (returns at once when they are)
    pub async fn wait_enabled(&mut self) {
        while self.task.enabled() == Enabled::No {
            if let Err(crate::util::session::StopReason::Shutdown) = self.task.process_next_message().await {
                return;
            }
        }
    }

    /// one communication session over the given pipe end: returns why it ended
    pub async fn run_session(&mut self, pipe: tokio::io::DuplexStream) -> String {
        let mut io = PhysLayer::Pipe(pipe);
        match self.task.run(&mut io).await {
            RunError::Stop(r) => format!("stop {r:?}"),
            RunError::Link(e) => format!("link {}", super::link_error_str(&e)),
        }
    }
}
