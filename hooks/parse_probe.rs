//! C09 probe: `ParsedFragment::parse` + `to_request`/`to_response` + the REAL lazy object iterators,
//! and the master's request builders.  Only exposes existing code; no behaviour is changed.
//! The three big `match`es over the generated enums live in `parse_probe_gen.rs`, which
//! tools/gen_parse_probe.py regenerates from the enum declarations on every run.

use std::panic::{catch_unwind, AssertUnwindSafe};

use crate::app::file;
use crate::app::format::write::HeaderWriter;
use crate::app::measurement::DoubleBit;
use crate::app::parse::free_format::FreeFormatVariation;
use crate::app::parse::options::ParseOptions;
use crate::app::parse::parser::{HeaderDetails, ObjectHeader, ParsedFragment};
use crate::app::parse::prefix::Prefix;
use crate::app::parse::traits::{FixedSize, FixedSizeVariation, Index};
use crate::app::variations::*;
use crate::app::{ControlField, Iin, RequestHeader};
use crate::app::{FunctionCode, QualifierCode};
use crate::app::{
    HeaderParseError, ObjectParseError, RequestValidationError, ResponseValidationError,
};
use crate::decode::AppDecodeLevel;
use crate::master::{CommandBuilder, CommandSupport, DeadBandHeader, ReadHeader, ReadRequest};

#[path = "parse_probe_gen.rs"]
mod gen;

/// accumulates what the iterators yield: count, first / last index, FNV-1a of the items
pub(crate) struct Sink {
    pub(crate) n: usize,
    pub(crate) first: Option<u32>,
    pub(crate) last: Option<u32>,
    pub(crate) hash: u64,
    /// octets the payload of this header must have had for the iterator to yield this
    pub(crate) implied_len: usize,
    /// an item whose `write` produced a number of octets different from `SIZE`
    pub(crate) size_mismatch: bool,
}

impl Sink {
    pub(crate) fn new() -> Self {
        Sink {
            n: 0,
            first: None,
            last: None,
            hash: 0xcbf29ce484222325,
            implied_len: 0,
            size_mismatch: false,
        }
    }
    fn eat(&mut self, b: &[u8]) {
        for x in b {
            self.hash ^= *x as u64;
            self.hash = self.hash.wrapping_mul(0x100000001b3);
        }
    }
    fn item(&mut self, idx: Option<u32>, hash_idx: bool, bytes: &[u8]) {
        if let Some(i) = idx {
            if self.first.is_none() {
                self.first = Some(i);
            }
            self.last = Some(i);
            if hash_idx {
                self.eat(&(i as u16).to_le_bytes());
            }
        }
        self.eat(bytes);
        self.n += 1;
    }
    fn written<T: FixedSize>(&mut self, x: &T) -> Vec<u8> {
        let mut buf = [0u8; 600];
        let mut c = scursor::WriteCursor::new(&mut buf);
        let ok = x.write(&mut c).is_ok();
        let v = c.written().to_vec();
        if !ok || v.len() != T::SIZE as usize {
            self.size_mismatch = true;
        }
        v
    }
    pub(crate) fn ranged<T: FixedSize>(&mut self, it: impl Iterator<Item = (T, u16)>) {
        for (x, i) in it {
            let b = self.written(&x);
            self.implied_len += T::SIZE as usize;
            self.item(Some(i as u32), true, &b);
        }
    }
    pub(crate) fn count<T: FixedSize>(&mut self, it: impl Iterator<Item = T>) {
        for x in it {
            let b = self.written(&x);
            self.implied_len += T::SIZE as usize;
            self.item(None, false, &b);
        }
    }
    pub(crate) fn prefixed<I: Index, V: FixedSizeVariation>(
        &mut self,
        it: impl Iterator<Item = Prefix<I, V>>,
    ) {
        for x in it {
            let b = self.written(&x);
            self.implied_len += <Prefix<I, V> as FixedSize>::SIZE as usize;
            self.item(Some(x.index.widen_to_u16() as u32), false, &b);
        }
    }
    pub(crate) fn bits(&mut self, it: impl Iterator<Item = (bool, u16)>) {
        for (v, i) in it {
            self.item(Some(i as u32), true, &[v as u8]);
        }
        self.implied_len = self.n.div_ceil(8);
    }
    pub(crate) fn dbits(&mut self, it: impl Iterator<Item = (DoubleBit, u16)>) {
        for (v, i) in it {
            let x = match v {
                DoubleBit::Intermediate => 0u8,
                DoubleBit::DeterminedOff => 1,
                DoubleBit::DeterminedOn => 2,
                DoubleBit::Indeterminate => 3,
            };
            self.item(Some(i as u32), true, &[x]);
        }
        self.implied_len = self.n.div_ceil(4);
    }
    pub(crate) fn ranged_bytes<'a>(&mut self, it: impl Iterator<Item = (&'a [u8], u16)>) {
        for (b, i) in it {
            self.implied_len += b.len();
            self.item(Some(i as u32), true, b);
        }
    }
    pub(crate) fn prefixed_bytes<'a, I: Index>(&mut self, it: impl Iterator<Item = (&'a [u8], I)>) {
        for (b, i) in it {
            let mut v = self.written(&i);
            v.extend_from_slice(b);
            self.implied_len += v.len();
            self.item(Some(i.widen_to_u16() as u32), false, &v);
        }
    }
}

fn attr_err(e: &crate::app::attr::AttrParseError) -> String {
    use crate::app::attr::AttrParseError as A;
    match e {
        A::ReadError => "read".to_string(),
        A::UnknownDataType(x) => format!("unknowntype {x}"),
        A::BadIntegerLength(x) => format!("intlen {x}"),
        A::BadFloatLength(x) => format!("floatlen {x}"),
        A::BadTimeLength(x) => format!("timelen {x}"),
        A::BadAttrListLength(x) => format!("listlen {x}"),
        A::BadVisibleString(_) => "badstring".to_string(),
        A::SetIdNotU8(x) => format!("setid {x}"),
        A::CountNotOne(x) => format!("countnotone {x}"),
    }
}

fn obj_err(e: &ObjectParseError) -> String {
    match e {
        ObjectParseError::UnknownGroupVariation(g, v) => format!("unknowngv {g} {v}"),
        ObjectParseError::UnknownQualifier(q) => format!("unknownqualifier {q}"),
        ObjectParseError::InsufficientBytes => "insufficient".to_string(),
        ObjectParseError::InvalidRange(s, e) => format!("invalidrange {s} {e}"),
        ObjectParseError::InvalidQualifierForVariation(v, q) => {
            let (g, var) = v.to_group_and_var();
            format!("invalidqualifier {g} {var} {}", q.as_u8())
        }
        ObjectParseError::UnsupportedQualifierCode(q) => {
            format!("unsupportedqualifier {}", q.as_u8())
        }
        ObjectParseError::UnsupportedFreeFormatCount(n) => format!("freeformatcount {n}"),
        ObjectParseError::ZeroLengthOctetData => "zerolength".to_string(),
        ObjectParseError::BadAttribute(a) => format!("badattr {}", attr_err(a)),
        ObjectParseError::BadEncoding => "badencoding".to_string(),
    }
}

/// octet length of a parsed free-format object, from its fields (fixed part + string / data lengths)
fn file_len(v: &FreeFormatVariation) -> usize {
    match v {
        FreeFormatVariation::Group70Var2(x) => 12 + x.user_name.len() + x.password.len(),
        FreeFormatVariation::Group70Var3(x) => 26 + x.file_name.len(),
        FreeFormatVariation::Group70Var4(x) => 13 + x.text.len(),
        FreeFormatVariation::Group70Var5(x) => 8 + x.file_data.len(),
        FreeFormatVariation::Group70Var6(x) => 9 + x.text.len(),
        FreeFormatVariation::Group70Var7(x) => 20 + x.file_name.len(),
        FreeFormatVariation::Group70Var8(x) => x.file_specification.len(),
    }
}

fn header_lines(h: &ObjectHeader, out: &mut Vec<String>) {
    let (g, v) = h.variation.to_group_and_var();
    let q = h.details.qualifier().as_u8();
    let mut sink = Sink::new();
    let mut paylen: Option<usize> = None; // None => "?" (attribute: inner length not observable)
    let mut free_len = 0usize;
    let spec = match &h.details {
        HeaderDetails::AllObjects(_) => "-".to_string(),
        HeaderDetails::OneByteStartStop(s, e, _) => format!("{s}..{e}"),
        HeaderDetails::TwoByteStartStop(s, e, _) => format!("{s}..{e}"),
        HeaderDetails::OneByteCount(c, _) => format!("{c}"),
        HeaderDetails::TwoByteCount(c, _) => format!("{c}"),
        HeaderDetails::OneByteCountAndPrefix(c, _) => format!("{c}"),
        HeaderDetails::TwoByteCountAndPrefix(c, _) => format!("{c}"),
        HeaderDetails::TwoByteFreeFormat(c, var) => {
            free_len = file_len(var);
            format!("{c}/{free_len}")
        }
    };
    let is_attr = matches!(h.variation, Variation::Group0(_))
        && !matches!(h.details, HeaderDetails::AllObjects(_))
        && !matches!(
            h.details,
            HeaderDetails::OneByteStartStop(
                _,
                _,
                crate::app::gen::ranged::RangedVariation::Group0(_, None)
            ) | HeaderDetails::TwoByteStartStop(
                _,
                _,
                crate::app::gen::ranged::RangedVariation::Group0(_, None)
            )
        );
    // iterate through the real lazy iterators; a panic in there is an output, not a crash
    let res = catch_unwind(AssertUnwindSafe(|| match &h.details {
        HeaderDetails::AllObjects(_) => false,
        HeaderDetails::OneByteStartStop(_, _, x) => gen::iter_ranged(x, &mut sink),
        HeaderDetails::TwoByteStartStop(_, _, x) => gen::iter_ranged(x, &mut sink),
        HeaderDetails::OneByteCount(_, x) => gen::iter_count(x, &mut sink),
        HeaderDetails::TwoByteCount(_, x) => gen::iter_count(x, &mut sink),
        HeaderDetails::OneByteCountAndPrefix(_, x) => gen::iter_prefixed(x, &mut sink),
        HeaderDetails::TwoByteCountAndPrefix(_, x) => gen::iter_prefixed(x, &mut sink),
        HeaderDetails::TwoByteFreeFormat(_, _) => false,
    }));
    let objs = match res {
        Err(_) => "objs panic".to_string(),
        Ok(false) => {
            paylen = if is_attr { None } else { Some(free_len) };
            "objs -".to_string()
        }
        Ok(true) => {
            paylen = Some(sink.implied_len);
            let f = |x: Option<u32>| x.map(|i| i.to_string()).unwrap_or_else(|| "-".to_string());
            format!(
                "objs {} {} {} {:016x}",
                sink.n,
                f(sink.first),
                f(sink.last),
                sink.hash
            )
        }
    };
    let pl = if objs == "objs panic" {
        "!".to_string()
    } else {
        paylen
            .map(|x| x.to_string())
            .unwrap_or_else(|| "?".to_string())
    };
    out.push(format!("hdr {g} {v} {q} {spec} {pl}"));
    out.push(objs);
    if sink.size_mismatch {
        out.push("size-mismatch".to_string());
    }
}

/// the canonical dump of one fragment (see harness/src/eng_parse.rs for the line format)
pub fn parse_dump(resp: bool, zero_len_strings: bool, bytes: &[u8]) -> Vec<String> {
    let mut out = Vec::new();
    let options = ParseOptions {
        parse_zero_length_strings: zero_len_strings,
    };
    let frag = match catch_unwind(AssertUnwindSafe(|| ParsedFragment::parse(options, bytes))) {
        Err(_) => {
            out.push("panic".to_string());
            return out;
        }
        Ok(Err(HeaderParseError::InsufficientBytes)) => {
            out.push("err hdr insufficient".to_string());
            return out;
        }
        Ok(Err(HeaderParseError::UnknownFunction(seq, raw))) => {
            out.push(format!("err hdr unknownfn {} {}", seq.value(), raw));
            return out;
        }
        Ok(Ok(f)) => f,
    };
    let c = frag.control;
    let iin = match frag.iin {
        Some(i) => format!("{} {}", i.iin1.value, i.iin2.value),
        None => "- -".to_string(),
    };
    out.push(format!(
        "app {} {} {} {} {} {} {} {}",
        c.to_u8(),
        c.fir as u8,
        c.fin as u8,
        c.con as u8,
        c.uns as u8,
        c.seq.value(),
        frag.function.as_u8(),
        iin
    ));
    if resp {
        out.push(match frag.to_response() {
            Ok(_) => "valid ok".to_string(),
            Err(ResponseValidationError::UnexpectedFunction(_)) => {
                "valid unexpectedfunction".to_string()
            }
            Err(ResponseValidationError::SolicitedResponseWithUnsBit) => {
                "valid solicitedwithuns".to_string()
            }
            Err(ResponseValidationError::UnsolicitedResponseWithoutUnsBit) => {
                "valid unsolicitedwithoutuns".to_string()
            }
            Err(ResponseValidationError::UnsolicitedResponseWithoutFirAndFin) => {
                "valid unsolicitedwithoutfirfin".to_string()
            }
        });
    } else {
        out.push(match frag.to_request() {
            Ok(_) => "valid ok".to_string(),
            Err(RequestValidationError::UnexpectedFunction(_)) => {
                "valid unexpectedfunction".to_string()
            }
            Err(RequestValidationError::NonFirFin) => "valid nonfirfin".to_string(),
            Err(RequestValidationError::UnexpectedUnsBit(_)) => "valid unexpecteduns".to_string(),
        });
    }
    match &frag.objects {
        Err(e) => out.push(format!("objerr {}", obj_err(e))),
        Ok(headers) => {
            for h in headers.iter() {
                header_lines(&h, &mut out);
            }
        }
    }
    // Display at full decode level: only panic / no panic is observed
    let shown = catch_unwind(AssertUnwindSafe(|| {
        format!("{}", frag.display(AppDecodeLevel::ObjectValues)).len()
    }));
    out.push(if shown.is_ok() {
        "display ok".to_string()
    } else {
        "display panic".to_string()
    });
    // the other decode levels must not panic either (not modelled separately: they format less)
    for level in [
        AppDecodeLevel::Nothing,
        AppDecodeLevel::Header,
        AppDecodeLevel::ObjectHeaders,
    ] {
        if catch_unwind(AssertUnwindSafe(|| {
            format!("{}", frag.display(level)).len()
        }))
        .is_err()
        {
            out.push("display-lower-level panic".to_string());
        }
    }
    out
}

// ------------------------------------------------------------------------------------------
// request builders
// ------------------------------------------------------------------------------------------

/// one header of a request to build, in terms of the library's public builder API
pub enum BuildHdr {
    All(u8, u8),
    Range8(u8, u8, u8, u8),
    Range16(u8, u8, u16, u16),
    Count8(u8, u8, u8),
    Count16(u8, u8, u16),
    ClearRestart,
    /// commands g12v1 / g41v1..4 through `CommandBuilder`: (variation, wide index, [(index, value octets)])
    Commands(u8, u8, bool, Vec<(u16, Vec<u8>)>),
    /// `write_count_of_one` of a g50v1 / g50v3 (time sync objects)
    TimeOne(u8, u8, Vec<u8>),
    /// one `DeadBandHeader::group34_var<v>_u8|u16(items)` through `WriteDeadBandsTask::write` (possibly no item)
    DeadBands(u8, bool, Vec<(u16, Vec<u8>)>),
}

fn read_fixed<T: FixedSize>(b: &[u8]) -> Option<T> {
    let mut c = scursor::ReadCursor::new(b);
    let x = T::read(&mut c).ok()?;
    if c.is_empty() {
        Some(x)
    } else {
        None
    }
}

fn add_cmds<T>(builder: &mut CommandBuilder, wide: bool, items: &[(u16, Vec<u8>)]) -> bool
where
    T: FixedSize,
    CommandBuilder: CommandSupport<T>,
{
    for (idx, bytes) in items {
        let v: T = match read_fixed(bytes) {
            Some(v) => v,
            None => return false,
        };
        if wide {
            builder.add_u16(v, *idx);
        } else {
            builder.add_u8(v, *idx as u8);
        }
    }
    true
}

/// build a request with the library's own writers into a buffer of `cap` octets.
/// Ok(bytes) | Err("badwrite") | Err("badspec"); a panic is caught by the caller.
pub fn build_request(ctrl: u8, func: u8, cap: usize, hdrs: &[BuildHdr]) -> Result<Vec<u8>, String> {
    let function = FunctionCode::from(func).ok_or("badspec")?;
    // the transmit buffer of a task is re-used without being cleared: every octet of what is sent has to be
    // written, none may be left as it was
    let mut buf = vec![0xA5u8; cap];
    let mut cursor = scursor::WriteCursor::new(&mut buf);
    let mut writer =
        crate::app::format::write::start_request(ControlField::from(ctrl), function, &mut cursor)
            .map_err(|_| "badwrite")?;
    for h in hdrs {
        let res: Result<(), scursor::WriteError> =
            match h {
                BuildHdr::All(g, v) => {
                    let var = Variation::lookup(*g, *v).ok_or("badspec")?;
                    ReadRequest::all_objects(var).format(&mut writer)
                }
                BuildHdr::Range8(g, v, s, e) => {
                    let var = Variation::lookup(*g, *v).ok_or("badspec")?;
                    ReadRequest::one_byte_range(var, *s, *e).format(&mut writer)
                }
                BuildHdr::Range16(g, v, s, e) => {
                    let var = Variation::lookup(*g, *v).ok_or("badspec")?;
                    ReadRequest::two_byte_range(var, *s, *e).format(&mut writer)
                }
                BuildHdr::Count8(g, v, n) => {
                    let var = Variation::lookup(*g, *v).ok_or("badspec")?;
                    ReadRequest::multiple_headers(&[ReadHeader::one_byte_limited_count(var, *n)])
                        .format(&mut writer)
                }
                BuildHdr::Count16(g, v, n) => {
                    let var = Variation::lookup(*g, *v).ok_or("badspec")?;
                    ReadRequest::multiple_headers(&[ReadHeader::two_byte_limited_count(var, *n)])
                        .format(&mut writer)
                }
                BuildHdr::ClearRestart => writer.write_clear_restart(),
                BuildHdr::Commands(g, v, wide, items) => {
                    let mut b = CommandBuilder::new();
                    let ok = match (*g, *v) {
                        (12, 1) => add_cmds::<Group12Var1>(&mut b, *wide, items),
                        (41, 1) => add_cmds::<Group41Var1>(&mut b, *wide, items),
                        (41, 2) => add_cmds::<Group41Var2>(&mut b, *wide, items),
                        (41, 3) => add_cmds::<Group41Var3>(&mut b, *wide, items),
                        (41, 4) => add_cmds::<Group41Var4>(&mut b, *wide, items),
                        _ => false,
                    };
                    if !ok {
                        return Err("badspec".to_string());
                    }
                    b.build().write(&mut writer)
                }
                BuildHdr::DeadBands(v, wide, items) => {
                    let le2 = |b: &[u8]| u16::from_le_bytes([b[0], b[1]]);
                    let le4 = |b: &[u8]| u32::from_le_bytes([b[0], b[1], b[2], b[3]]);
                    let want = if *v == 1 { 2 } else { 4 };
                    if items.iter().any(|(_, b)| b.len() != want) {
                        return Err("badspec".to_string());
                    }
                    let h = match (*v, *wide) {
                        (1, false) => DeadBandHeader::group34_var1_u8(items.iter().map(|(i, b)| (*i as u8, le2(b))).collect()),
                        (1, true) => DeadBandHeader::group34_var1_u16(items.iter().map(|(i, b)| (*i, le2(b))).collect()),
                        (2, false) => DeadBandHeader::group34_var2_u8(items.iter().map(|(i, b)| (*i as u8, le4(b))).collect()),
                        (2, true) => DeadBandHeader::group34_var2_u16(items.iter().map(|(i, b)| (*i, le4(b))).collect()),
                        (3, false) => DeadBandHeader::group34_var3_u8(items.iter().map(|(i, b)| (*i as u8, f32::from_bits(le4(b)))).collect()),
                        (3, true) => DeadBandHeader::group34_var3_u16(items.iter().map(|(i, b)| (*i, f32::from_bits(le4(b)))).collect()),
                        _ => return Err("badspec".to_string()),
                    };
                    crate::master::tasks::deadbands::WriteDeadBandsTask::new(vec![h], crate::master::promise::Promise::null()).write(&mut writer)
                }
                BuildHdr::TimeOne(g, v, bytes) => match (*g, *v) {
                    (50, 1) => writer
                        .write_count_of_one(read_fixed::<Group50Var1>(bytes).ok_or("badspec")?),
                    (50, 3) => writer
                        .write_count_of_one(read_fixed::<Group50Var3>(bytes).ok_or("badspec")?),
                    _ => return Err("badspec".to_string()),
                },
            };
        if res.is_err() {
            return Err("badwrite".to_string());
        }
    }
    drop(writer);
    Ok(cursor.written().to_vec())
}

/// `RequestHeader::write` / `ResponseHeader::write` with raw values
pub fn write_app_header(ctrl: u8, func: u8, iin: Option<(u8, u8)>) -> Option<Vec<u8>> {
    let mut buf = [0u8; 8];
    let mut cursor = scursor::WriteCursor::new(&mut buf);
    let c = ControlField::from(ctrl);
    match iin {
        None => RequestHeader::new(c, FunctionCode::from(func)?)
            .write(&mut cursor)
            .ok()?,
        Some((a, b)) => {
            let f = match FunctionCode::from(func)? {
                FunctionCode::Response => crate::app::ResponseFunction::Response,
                FunctionCode::UnsolicitedResponse => {
                    crate::app::ResponseFunction::UnsolicitedResponse
                }
                _ => return None,
            };
            crate::app::ResponseHeader::new(
                c,
                f,
                Iin::new(crate::app::Iin1::new(a), crate::app::Iin2::new(b)),
            )
            .write(&mut cursor)
            .ok()?
        }
    }
    Some(cursor.written().to_vec())
}
