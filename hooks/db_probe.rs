//! the real outstation `DatabaseHandle` / `Database` (event buffer + static database + response
//! writing) exposed operation by operation.  Every call runs under `catch_unwind`; `Err(())`
//! means the real code panicked (the harness prints `panic`).  A panic while the database mutex
//! is held poisons it, exactly as in the running outstation task: every later call panics too.
use std::panic::{catch_unwind, AssertUnwindSafe};

use crate::app::measurement::{AnalogInput, BinaryInput, Flags, Time};
use crate::app::parse::options::ParseOptions;
use crate::app::parse::parser::HeaderCollection;
use crate::app::{FunctionCode, MaybeAsync, Timestamp};
use crate::master::EventClasses;
use crate::outstation::database::{
    Add, AnalogInputConfig, BinaryInputConfig, ClassZeroConfig, DatabaseHandle, EventAnalogInputVariation,
    EventBinaryInputVariation, EventBufferConfig, EventClass, StaticAnalogInputVariation,
    StaticBinaryInputVariation, Update, UpdateInfo, UpdateOptions,
};
use crate::outstation::{BufferState, OutstationApplication};
use scursor::WriteCursor;

/// records the confirm callbacks in program order
#[derive(Default)]
struct RecApp {
    begin: usize,
    cleared: Vec<u64>,
    /// (position of end_confirm relative to the cleared callbacks, state)
    end: Vec<(usize, BufferState)>,
}

impl OutstationApplication for RecApp {
    fn begin_confirm(&mut self) {
        self.begin += 1;
    }
    fn event_cleared(&mut self, id: u64) {
        self.cleared.push(id);
    }
    fn end_confirm(&mut self, state: BufferState) -> MaybeAsync<()> {
        self.end.push((self.cleared.len(), state));
        MaybeAsync::ready(())
    }
}

pub struct ClearResult {
    pub begin_confirms: usize,
    pub cleared: Vec<u64>,
    pub end_confirms: usize,
    /// number of `event_cleared` callbacks that preceded `end_confirm`
    pub cleared_before_end: usize,
    pub classes: (usize, usize, usize),
    /// remaining (binary input, analog input) events
    pub types: (usize, usize),
    /// sum of the six other per-type counts (must stay 0: those types are never configured)
    pub other_types: usize,
}

pub struct DbProbe {
    handle: DatabaseHandle,
}

fn guard<R>(f: impl FnOnce() -> R) -> Result<R, ()> {
    catch_unwind(AssertUnwindSafe(f)).map_err(|_| ())
}

impl DbProbe {
    /// `EventBufferConfig::no_events()` with `max_binary = max_analog = ev_max`,
    /// default `ClassZeroConfig`, `max_read_request_headers` as given (None = default)
    pub fn new(ev_max: u16, max_read_selection: Option<u16>) -> Self {
        let mut ev = EventBufferConfig::no_events();
        ev.max_binary = ev_max;
        ev.max_analog = ev_max;
        Self {
            handle: DatabaseHandle::new(max_read_selection, ClassZeroConfig::default(), ev),
        }
    }

    fn class(c: u8) -> Option<EventClass> {
        match c {
            1 => Some(EventClass::Class1),
            2 => Some(EventClass::Class2),
            3 => Some(EventClass::Class3),
            _ => None,
        }
    }

    /// `Database::add` through the public transaction API (static g1v2 / g30v1, events g2v1 / g32v1, deadband 0)
    pub fn add(&mut self, analog: bool, index: u16, class: u8) -> Result<bool, ()> {
        let cls = Self::class(class);
        guard(|| {
            self.handle.transaction(|db| {
                if analog {
                    db.add(
                        index,
                        cls,
                        AnalogInputConfig {
                            s_var: StaticAnalogInputVariation::Group30Var1,
                            e_var: EventAnalogInputVariation::Group32Var1,
                            deadband: 0.0,
                        },
                    )
                } else {
                    db.add(
                        index,
                        cls,
                        BinaryInputConfig {
                            s_var: StaticBinaryInputVariation::Group1Var2,
                            e_var: EventBinaryInputVariation::Group2Var1,
                        },
                    )
                }
            })
        })
    }

    /// `update2(.., UpdateOptions::detect_event())` through the public transaction API;
    /// time = `Some(Time::Synchronized(Timestamp::new(time)))`
    pub fn update(&mut self, analog: bool, index: u16, value: i64, flags: u8, time: u64) -> Result<String, ()> {
        let t = Time::Synchronized(Timestamp::new(time));
        let flags = Flags::new(flags);
        guard(|| {
            let info = self.handle.transaction(|db| {
                if analog {
                    db.update2(index, &AnalogInput::new(value as f64, flags, t), UpdateOptions::detect_event())
                } else {
                    db.update2(index, &BinaryInput::new(value != 0, flags, t), UpdateOptions::detect_event())
                }
            });
            match info {
                UpdateInfo::NoPoint => "nopoint".to_string(),
                UpdateInfo::NoEvent => "noevent".to_string(),
                UpdateInfo::Created(id) => format!("created {id}"),
                UpdateInfo::Overflow { created, discarded } => format!("overflow {created} {discarded}"),
            }
        })
    }

    /// the object-header octets of a READ request, parsed by the real parser
    /// (`HeaderCollection::parse(.., FunctionCode::Read, ..)`), then `DatabaseHandle::select`.
    /// `Ok(None)` = the parser rejected the octets (nothing selected); `Ok(Some(iin2))` otherwise.
    pub fn select(&mut self, object_headers: &[u8]) -> Result<Option<u8>, ()> {
        guard(|| {
            match HeaderCollection::parse(ParseOptions::get_static(), FunctionCode::Read, object_headers) {
                Err(_) => None,
                Ok(headers) => Some(self.handle.select(&headers).value),
            }
        })
    }

    /// `write_response_headers` into a cursor over `cap` octets: (octets, has_events, complete)
    pub fn write_response(&mut self, cap: usize) -> Result<(Vec<u8>, bool, bool), ()> {
        guard(|| {
            let mut buf = vec![0u8; cap];
            let mut cursor = WriteCursor::new(&mut buf);
            let info = self.handle.write_response_headers(&mut cursor);
            let n = cursor.position();
            (buf[..n].to_vec(), info.has_events, info.complete)
        })
    }

    /// `write_unsolicited(classes, cursor over cap octets)`: (octets, count)
    pub fn write_unsolicited(&mut self, c1: bool, c2: bool, c3: bool, cap: usize) -> Result<(Vec<u8>, usize), ()> {
        guard(|| {
            let mut buf = vec![0u8; cap];
            let mut cursor = WriteCursor::new(&mut buf);
            let count = self.handle.write_unsolicited(EventClasses::new(c1, c2, c3), &mut cursor);
            let n = cursor.position();
            (buf[..n].to_vec(), count)
        })
    }

    /// `DatabaseHandle::clear_written_events` with a recording application
    pub fn clear_written(&mut self) -> Result<ClearResult, ()> {
        guard(|| {
            let mut app = RecApp::default();
            {
                let fut = self.handle.clear_written_events(&mut app);
                let mut fut = std::pin::pin!(fut);
                let mut cx = std::task::Context::from_waker(std::task::Waker::noop());
                // `MaybeAsync::ready` resolves at once
                match std::future::Future::poll(fut.as_mut(), &mut cx) {
                    std::task::Poll::Ready(()) => {}
                    std::task::Poll::Pending => panic!("clear_written_events did not complete"),
                }
            }
            let (pos, state) = app.end.last().copied().map(|(p, s)| (p, Some(s))).unwrap_or((0, None));
            let state = state.expect("end_confirm not called");
            ClearResult {
                begin_confirms: app.begin,
                cleared: app.cleared.clone(),
                end_confirms: app.end.len(),
                cleared_before_end: pos,
                classes: (state.classes.num_class_1, state.classes.num_class_2, state.classes.num_class_3),
                types: (state.types.num_binary_input, state.types.num_analog),
                other_types: state.types.num_double_bit_binary_input
                    + state.types.num_binary_output_status
                    + state.types.num_counter
                    + state.types.num_frozen_counter
                    + state.types.num_analog_output_status
                    + state.types.num_octet_string,
            }
        })
    }

    pub fn reset(&mut self) -> Result<(), ()> {
        guard(|| self.handle.reset())
    }

    /// `get_events_info`: (class1, class2, class3 unwritten, is_overflown)
    pub fn events_info(&self) -> Result<(bool, bool, bool, bool), ()> {
        guard(|| {
            let info = self.handle.get_events_info();
            (
                info.unwritten_classes.class1,
                info.unwritten_classes.class2,
                info.unwritten_classes.class3,
                info.is_overflown,
            )
        })
    }
}
