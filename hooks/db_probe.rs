//! the real outstation `DatabaseHandle` / `Database` (event buffer + static database + response
//! writing) exposed operation by operation.  Every call runs under `catch_unwind`; `Err(())`
//! means the real code panicked (the harness prints `panic`).  A panic while the database mutex
//! is held poisons it, exactly as in the running outstation task: every later call panics too.
use std::panic::{catch_unwind, AssertUnwindSafe};

use crate::app::measurement::{
    AnalogInput, AnalogOutputStatus, BinaryInput, BinaryOutputStatus, Counter, DoubleBit,
    DoubleBitBinaryInput, Flags, FrozenCounter, OctetString, Time,
};
use crate::app::parse::options::ParseOptions;
use crate::app::parse::parser::HeaderCollection;
use crate::app::{FunctionCode, MaybeAsync, Timestamp};
use crate::master::EventClasses;
use crate::outstation::database::*;
use crate::outstation::{BufferState, OutstationApplication};
use scursor::WriteCursor;

/// records the confirm callbacks in program order
#[derive(Default)]
struct RecApp {
    begin: usize,
    cleared: Vec<u64>,
    /// (position of end_confirm relative to the cleared callbacks, state)
    end: Vec<(usize, BufferState)>,
}

impl OutstationApplication for RecApp {
    fn begin_confirm(&mut self) {
        self.begin += 1;
    }
    fn event_cleared(&mut self, id: u64) {
        self.cleared.push(id);
    }
    fn end_confirm(&mut self, state: BufferState) -> MaybeAsync<()> {
        self.end.push((self.cleared.len(), state));
        MaybeAsync::ready(())
    }
}

pub struct ClearResult {
    pub begin_confirms: usize,
    pub cleared: Vec<u64>,
    pub end_confirms: usize,
    /// number of `event_cleared` callbacks that preceded `end_confirm`
    pub cleared_before_end: usize,
    pub classes: (usize, usize, usize),
    /// remaining events per type, in the order of `enum Event`
    pub types: [usize; 8],
}

fn class_of(c: u8) -> Option<EventClass> {
    match c {
        1 => Some(EventClass::Class1),
        2 => Some(EventClass::Class2),
        3 => Some(EventClass::Class3),
        _ => None,
    }
}

pub fn info_str(info: UpdateInfo) -> String {
    match info {
        UpdateInfo::NoPoint => "nopoint".to_string(),
        UpdateInfo::NoEvent => "noevent".to_string(),
        UpdateInfo::Created(id) => format!("created {id}"),
        UpdateInfo::Overflow { created, discarded } => format!("overflow {created} {discarded}"),
    }
}

/// `Database::add` (public transaction API) of type number `ty` (order of `enum Event`: binary, double-bit,
/// binary output status, counter, frozen counter, analog, analog output status, octet string) with the
/// configured static / event variation NUMBERS and the dead-band (counters: u32; analogs: the integer as
/// f64; the other types have none).  `None` = the type has no such variation.
pub fn add_typed_db(
    db: &mut Database,
    ty: u8,
    index: u16,
    class: u8,
    svar: u8,
    evar: u8,
    deadband: u32,
) -> Option<bool> {
    let cls = class_of(class);
    macro_rules! var {
        ($n:expr, $($k:literal => $v:expr),+) => {
            match $n { $($k => $v,)+ _ => return None }
        };
    }
    Some(match ty {
        0 => db.add(index, cls, BinaryInputConfig::new(
            var!(svar, 1 => StaticBinaryInputVariation::Group1Var1, 2 => StaticBinaryInputVariation::Group1Var2),
            var!(evar, 1 => EventBinaryInputVariation::Group2Var1, 2 => EventBinaryInputVariation::Group2Var2, 3 => EventBinaryInputVariation::Group2Var3),
        )),
        1 => db.add(index, cls, DoubleBitBinaryInputConfig::new(
            var!(svar, 1 => StaticDoubleBitBinaryInputVariation::Group3Var1, 2 => StaticDoubleBitBinaryInputVariation::Group3Var2),
            var!(evar, 1 => EventDoubleBitBinaryInputVariation::Group4Var1, 2 => EventDoubleBitBinaryInputVariation::Group4Var2, 3 => EventDoubleBitBinaryInputVariation::Group4Var3),
        )),
        2 => db.add(index, cls, BinaryOutputStatusConfig::new(
            var!(svar, 1 => StaticBinaryOutputStatusVariation::Group10Var1, 2 => StaticBinaryOutputStatusVariation::Group10Var2),
            var!(evar, 1 => EventBinaryOutputStatusVariation::Group11Var1, 2 => EventBinaryOutputStatusVariation::Group11Var2),
        )),
        3 => db.add(index, cls, CounterConfig::new(
            var!(svar, 1 => StaticCounterVariation::Group20Var1, 2 => StaticCounterVariation::Group20Var2, 5 => StaticCounterVariation::Group20Var5, 6 => StaticCounterVariation::Group20Var6),
            var!(evar, 1 => EventCounterVariation::Group22Var1, 2 => EventCounterVariation::Group22Var2, 5 => EventCounterVariation::Group22Var5, 6 => EventCounterVariation::Group22Var6),
            deadband,
        )),
        4 => db.add(index, cls, FrozenCounterConfig::new(
            var!(svar, 1 => StaticFrozenCounterVariation::Group21Var1, 2 => StaticFrozenCounterVariation::Group21Var2, 5 => StaticFrozenCounterVariation::Group21Var5, 6 => StaticFrozenCounterVariation::Group21Var6, 9 => StaticFrozenCounterVariation::Group21Var9, 10 => StaticFrozenCounterVariation::Group21Var10),
            var!(evar, 1 => EventFrozenCounterVariation::Group23Var1, 2 => EventFrozenCounterVariation::Group23Var2, 5 => EventFrozenCounterVariation::Group23Var5, 6 => EventFrozenCounterVariation::Group23Var6),
            deadband,
        )),
        5 => db.add(index, cls, AnalogInputConfig::new(
            var!(svar, 1 => StaticAnalogInputVariation::Group30Var1, 2 => StaticAnalogInputVariation::Group30Var2, 3 => StaticAnalogInputVariation::Group30Var3, 4 => StaticAnalogInputVariation::Group30Var4, 5 => StaticAnalogInputVariation::Group30Var5, 6 => StaticAnalogInputVariation::Group30Var6),
            var!(evar, 1 => EventAnalogInputVariation::Group32Var1, 2 => EventAnalogInputVariation::Group32Var2, 3 => EventAnalogInputVariation::Group32Var3, 4 => EventAnalogInputVariation::Group32Var4, 5 => EventAnalogInputVariation::Group32Var5, 6 => EventAnalogInputVariation::Group32Var6, 7 => EventAnalogInputVariation::Group32Var7, 8 => EventAnalogInputVariation::Group32Var8),
            deadband as f64,
        )),
        6 => db.add(index, cls, AnalogOutputStatusConfig::new(
            var!(svar, 1 => StaticAnalogOutputStatusVariation::Group40Var1, 2 => StaticAnalogOutputStatusVariation::Group40Var2, 3 => StaticAnalogOutputStatusVariation::Group40Var3, 4 => StaticAnalogOutputStatusVariation::Group40Var4),
            var!(evar, 1 => EventAnalogOutputStatusVariation::Group42Var1, 2 => EventAnalogOutputStatusVariation::Group42Var2, 3 => EventAnalogOutputStatusVariation::Group42Var3, 4 => EventAnalogOutputStatusVariation::Group42Var4, 5 => EventAnalogOutputStatusVariation::Group42Var5, 6 => EventAnalogOutputStatusVariation::Group42Var6, 7 => EventAnalogOutputStatusVariation::Group42Var7, 8 => EventAnalogOutputStatusVariation::Group42Var8),
            deadband as f64,
        )),
        7 => db.add(index, cls, OctetStringConfig),
        _ => return None,
    })
}

/// `update2(.., options)` of type number `ty`; `value`: bool (!= 0), double bit
/// (`value & 3` as `DoubleBit::to_byte`), u32, or the integer carried as f64; `octets`: an octet string's
/// content; time = `Synchronized(Timestamp::new(time))`.  `None` = no such type / the library refuses to
/// construct the octet string.
pub fn update_typed_db(
    db: &mut Database,
    ty: u8,
    index: u16,
    value: i64,
    octets: &[u8],
    flags: u8,
    time: u64,
    opts: u8,
) -> Option<UpdateInfo> {
    let t = Time::Synchronized(Timestamp::new(time));
    let flags = Flags::new(flags);
    // options number: 0..2 = Detect / Force / Suppress, +3 = update_static false (0 = `detect_event()`)
    let mode = match opts % 3 {
        0 => EventMode::Detect,
        1 => EventMode::Force,
        _ => EventMode::Suppress,
    };
    let opt = if opts % 6 == 0 {
        UpdateOptions::detect_event()
    } else {
        UpdateOptions::new(opts % 6 < 3, mode)
    };
    let db2 = |v: i64| match v & 3 {
        0 => DoubleBit::Intermediate,
        1 => DoubleBit::DeterminedOff,
        2 => DoubleBit::DeterminedOn,
        _ => DoubleBit::Indeterminate,
    };
    Some(match ty {
        0 => db.update2(index, &BinaryInput::new(value != 0, flags, t), opt),
        1 => db.update2(index, &DoubleBitBinaryInput::new(db2(value), flags, t), opt),
        2 => db.update2(index, &BinaryOutputStatus::new(value != 0, flags, t), opt),
        3 => db.update2(index, &Counter::new(value as u32, flags, t), opt),
        4 => db.update2(index, &FrozenCounter::new(value as u32, flags, t), opt),
        5 => db.update2(index, &AnalogInput::new(value as f64, flags, t), opt),
        6 => db.update2(index, &AnalogOutputStatus::new(value as f64, flags, t), opt),
        7 => db.update2(index, &OctetString::new(octets).ok()?, opt),
        _ => return None,
    })
}

pub struct DbProbe {
    handle: DatabaseHandle,
}

fn guard<R>(f: impl FnOnce() -> R) -> Result<R, ()> {
    catch_unwind(AssertUnwindSafe(f)).map_err(|_| ())
}

impl DbProbe {
    /// `EventBufferConfig::no_events()` with `max_binary = max_analog = ev_max`,
    /// default `ClassZeroConfig`, `max_read_request_headers` as given (None = default)
    pub fn new(ev_max: u16, max_read_selection: Option<u16>) -> Self {
        let mut ev = EventBufferConfig::no_events();
        ev.max_binary = ev_max;
        ev.max_analog = ev_max;
        Self {
            handle: DatabaseHandle::new(max_read_selection, ClassZeroConfig::default(), ev),
        }
    }

    /// per-type maxima in the order of `enum Event` (binary, double-bit, binary output status, counter,
    /// frozen counter, analog, analog output status, octet string); class-zero mask bit i = type i
    pub fn new_cfg(ev: [u16; 8], class_zero: u8, max_read_selection: Option<u16>) -> Self {
        let evc = EventBufferConfig::new(ev[0], ev[1], ev[2], ev[3], ev[4], ev[5], ev[6], ev[7]);
        let b = |i: u8| class_zero & (1 << i) != 0;
        let cz = ClassZeroConfig::new(b(0), b(1), b(2), b(3), b(4), b(5), b(6), b(7));
        Self {
            handle: DatabaseHandle::new(max_read_selection, cz, evc),
        }
    }

    /// `Database::add` of type number `ty` with configured static / event variation numbers
    /// (`None` = a variation number the type does not have: nothing is done); dead-band 0
    pub fn add_typed(
        &mut self,
        ty: u8,
        index: u16,
        class: u8,
        svar: u8,
        evar: u8,
        deadband: u32,
    ) -> Option<Result<bool, ()>> {
        let mut known = true;
        let r = guard(|| {
            self.handle.transaction(|db| {
                match add_typed_db(db, ty, index, class, svar, evar, deadband) {
                    Some(b) => b,
                    None => {
                        known = false;
                        false
                    }
                }
            })
        });
        if known {
            Some(r)
        } else {
            None
        }
    }

    /// `update2(.., UpdateOptions::detect_event())` of type number `ty` (see `update_typed_db`)
    pub fn update_typed(
        &mut self,
        ty: u8,
        index: u16,
        value: i64,
        octets: &[u8],
        flags: u8,
        time: u64,
        opts: u8,
    ) -> Option<Result<String, ()>> {
        if ty > 7 || (ty == 7 && octets.len() > 255) {
            return None;
        }
        Some(guard(|| {
            let info = self.handle.transaction(|db| {
                update_typed_db(db, ty, index, value, octets, flags, time, opts).unwrap()
            });
            info_str(info)
        }))
    }

    /// the object-header octets of a READ request, parsed by the real parser
    /// (`HeaderCollection::parse(.., FunctionCode::Read, ..)`), then `DatabaseHandle::select`.
    /// `Ok(None)` = the parser rejected the octets (nothing selected); `Ok(Some(iin2))` otherwise.
    pub fn select(&mut self, object_headers: &[u8]) -> Result<Option<u8>, ()> {
        guard(|| {
            match HeaderCollection::parse(
                ParseOptions::get_static(),
                FunctionCode::Read,
                object_headers,
            ) {
                Err(_) => None,
                Ok(headers) => Some(self.handle.select(&headers).value),
            }
        })
    }

    /// `write_response_headers` into a cursor over `cap` octets: (octets, has_events, complete)
    pub fn write_response(&mut self, cap: usize) -> Result<(Vec<u8>, bool, bool), ()> {
        guard(|| {
            let mut buf = vec![0u8; cap];
            let mut cursor = WriteCursor::new(&mut buf);
            let info = self.handle.write_response_headers(&mut cursor);
            let n = cursor.position();
            (buf[..n].to_vec(), info.has_events, info.complete)
        })
    }

    /// `write_unsolicited(classes, cursor over cap octets)`: (octets, count)
    pub fn write_unsolicited(
        &mut self,
        c1: bool,
        c2: bool,
        c3: bool,
        cap: usize,
    ) -> Result<(Vec<u8>, usize), ()> {
        guard(|| {
            let mut buf = vec![0u8; cap];
            let mut cursor = WriteCursor::new(&mut buf);
            let count = self
                .handle
                .write_unsolicited(EventClasses::new(c1, c2, c3), &mut cursor);
            let n = cursor.position();
            (buf[..n].to_vec(), count)
        })
    }

    /// `DatabaseHandle::clear_written_events` with a recording application
    pub fn clear_written(&mut self) -> Result<ClearResult, ()> {
        guard(|| {
            let mut app = RecApp::default();
            {
                let fut = self.handle.clear_written_events(&mut app);
                let mut fut = std::pin::pin!(fut);
                let mut cx = std::task::Context::from_waker(std::task::Waker::noop());
                // `MaybeAsync::ready` resolves at once
                match std::future::Future::poll(fut.as_mut(), &mut cx) {
                    std::task::Poll::Ready(()) => {}
                    std::task::Poll::Pending => panic!("clear_written_events did not complete"),
                }
            }
            let (pos, state) = app
                .end
                .last()
                .copied()
                .map(|(p, s)| (p, Some(s)))
                .unwrap_or((0, None));
            let state = state.expect("end_confirm not called");
            ClearResult {
                begin_confirms: app.begin,
                cleared: app.cleared.clone(),
                end_confirms: app.end.len(),
                cleared_before_end: pos,
                classes: (
                    state.classes.num_class_1,
                    state.classes.num_class_2,
                    state.classes.num_class_3,
                ),
                types: [
                    state.types.num_binary_input,
                    state.types.num_double_bit_binary_input,
                    state.types.num_binary_output_status,
                    state.types.num_counter,
                    state.types.num_frozen_counter,
                    state.types.num_analog,
                    state.types.num_analog_output_status,
                    state.types.num_octet_string,
                ],
            }
        })
    }

    pub fn reset(&mut self) -> Result<(), ()> {
        guard(|| self.handle.reset())
    }

    /// `get_events_info`: (class1, class2, class3 unwritten, is_overflown)
    pub fn events_info(&self) -> Result<(bool, bool, bool, bool), ()> {
        guard(|| {
            let info = self.handle.get_events_info();
            (
                info.unwritten_classes.class1,
                info.unwritten_classes.class2,
                info.unwritten_classes.class3,
                info.is_overflown,
            )
        })
    }
}
