//! C09 probe for the file-transfer objects (group 70, free-format qualifier 0x5B): the real object
//! writers (`Group70VarN::write` through `HeaderWriter::write_free_format` after `start_request`), the
//! master's file request builders (`AuthFileTask`, `OpenFileTask`, `CloseFileTask`, `GetFileInfoTask`,
//! `WriteBlockTask`, and the four requests of `FileReadTask` with its response handling), the
//! `DirectoryReader` (a listing is a concatenation of g70v7 objects) and the library's own parser
//! (`ParsedFragment::parse` -> `parse_free_format_u16` -> `FreeFormatVariation::parse` -> `Group70VarN::read`).
//! Only exposes existing code; no behaviour is changed.  Every call runs under `catch_unwind`;
//! `Err(())` means the real code panicked (the harness prints `panic`).
//!
//! `Group70Var6::write` and `Group70Var8::write` exist only under `#[cfg(test)]`: a non-test build has no
//! writer for them (`build` answers `nowriter`); the parser side is exercised with octets made by the harness.
use std::future::Future;
use std::panic::{catch_unwind, AssertUnwindSafe};
use std::sync::{Arc, Mutex};

use crate::app::file::{FileStatus, FileType, Group70Var2, Group70Var3, Group70Var4, Group70Var5, Group70Var7, PermissionSet, Permissions};
use crate::app::format::write::{start_request, HeaderWriter};
use crate::app::format::WriteError;
use crate::app::parse::free_format::FreeFormatVariation;
use crate::app::parse::options::ParseOptions;
use crate::app::parse::parser::{HeaderCollection, HeaderDetails, ParsedFragment};
use crate::app::{ControlField, FunctionCode, HeaderParseError, MaybeAsync, ObjectParseError, Sequence, Timestamp};
use crate::master::promise::Promise;
use crate::master::tasks::file::authenticate::AuthFileTask;
use crate::master::tasks::file::close::CloseFileTask;
use crate::master::tasks::file::directory::DirectoryReader;
use crate::master::tasks::file::get_info::GetFileInfoTask;
use crate::master::tasks::file::open::{OpenFileRequest, OpenFileTask};
use crate::master::tasks::file::read::{FileReadTask, FileReaderType};
use crate::master::tasks::file::write_block::{WriteBlockRequest, WriteBlockTask};
use crate::master::tasks::{NonReadTask, RequestWriter};
use crate::master::{AuthKey, BlockNumber, FileAction, FileCredentials, FileError, FileHandle, FileMode, FileReadConfig, FileReader, TaskError};
use scursor::WriteCursor;

fn hex(b: &[u8]) -> String {
    super::hex(b)
}

fn guard<R>(f: impl FnOnce() -> R) -> Result<R, ()> {
    catch_unwind(AssertUnwindSafe(f)).map_err(|_| ())
}

/// a group-70 object as the ops file spells it: strings as octets, enumerations as wire codes.
/// `raw`: build the enumerations as `Other(code)` / `Reserved(code)` even when the code has a name
#[derive(Clone, Debug, PartialEq)]
pub enum Obj {
    V2 { key: u32, user: Vec<u8>, pass: Vec<u8> },
    V3 { time: u64, perm: u16, key: u32, size: u32, mode: u16, max_block: u16, req: u16, name: Vec<u8> },
    V4 { handle: u32, size: u32, max_block: u16, req: u16, status: u8, text: Vec<u8> },
    V5 { handle: u32, block: u32, data: Vec<u8> },
    V6 { handle: u32, block: u32, status: u8, text: Vec<u8> },
    V7 { ftype: u16, size: u32, time: u64, perm: u16, req: u16, name: Vec<u8> },
    V8 { spec: Vec<u8> },
}

fn perm_set(bits: u16) -> PermissionSet {
    PermissionSet { execute: bits & 1 != 0, write: bits & 2 != 0, read: bits & 4 != 0 }
}

/// nine bits -> `Permissions` (bit 0 = world execute .. bit 8 = owner read, IEEE 1815 A.?? file permissions)
pub fn perms(bits: u16) -> Permissions {
    Permissions { world: perm_set(bits), group: perm_set(bits >> 3), owner: perm_set(bits >> 6) }
}

fn set_bits(s: PermissionSet) -> u16 {
    (s.execute as u16) | ((s.write as u16) << 1) | ((s.read as u16) << 2)
}

fn perm_bits(p: Permissions) -> u16 {
    set_bits(p.world) | (set_bits(p.group) << 3) | (set_bits(p.owner) << 6)
}

fn status_of(code: u8, raw: bool) -> FileStatus {
    if raw {
        return FileStatus::Other(code);
    }
    match code {
        0 => FileStatus::Success,
        1 => FileStatus::PermissionDenied,
        2 => FileStatus::InvalidMode,
        3 => FileStatus::FileNotFound,
        4 => FileStatus::FileLocked,
        5 => FileStatus::TooManyOpen,
        6 => FileStatus::InvalidHandle,
        7 => FileStatus::WriteBlockSize,
        8 => FileStatus::CommLost,
        9 => FileStatus::CannotAbort,
        16 => FileStatus::NotOpened,
        17 => FileStatus::HandleExpired,
        18 => FileStatus::BufferOverrun,
        19 => FileStatus::Fatal,
        20 => FileStatus::BlockSeq,
        255 => FileStatus::Undefined,
        x => FileStatus::Other(x),
    }
}

fn type_of(code: u16, raw: bool) -> FileType {
    if raw {
        return FileType::Other(code);
    }
    match code {
        0 => FileType::Directory,
        1 => FileType::File,
        x => FileType::Other(x),
    }
}

fn type_code(t: FileType) -> u16 {
    match t {
        FileType::Directory => 0,
        FileType::File => 1,
        FileType::Other(x) => x,
    }
}

fn mode_of(code: u16, raw: bool) -> FileMode {
    if raw {
        FileMode::Reserved(code)
    } else {
        FileMode::new(code)
    }
}

fn mode_code(m: FileMode) -> u16 {
    match m {
        FileMode::Null => 0,
        FileMode::Read => 1,
        FileMode::Write => 2,
        FileMode::Append => 3,
        FileMode::Reserved(x) => x,
    }
}

fn write_err(e: WriteError) -> String {
    match e {
        WriteError::WriteError(_) => "cursor".to_string(),
        WriteError::Overflow => "overflow".to_string(),
    }
}

fn obj_err(e: &ObjectParseError) -> String {
    match e {
        ObjectParseError::UnknownGroupVariation(g, v) => format!("unknowngv {g} {v}"),
        ObjectParseError::UnknownQualifier(q) => format!("unknownqualifier {q}"),
        ObjectParseError::InsufficientBytes => "insufficient".to_string(),
        ObjectParseError::InvalidRange(s, e) => format!("invalidrange {s} {e}"),
        ObjectParseError::InvalidQualifierForVariation(v, q) => {
            let (g, var) = v.to_group_and_var();
            format!("invalidqualifier {g} {var} {}", q.as_u8())
        }
        ObjectParseError::UnsupportedQualifierCode(q) => format!("unsupportedqualifier {}", q.as_u8()),
        ObjectParseError::UnsupportedFreeFormatCount(n) => format!("freeformatcount {n}"),
        ObjectParseError::ZeroLengthOctetData => "zerolength".to_string(),
        ObjectParseError::BadAttribute(_) => "badattr".to_string(),
        ObjectParseError::BadEncoding => "badencoding".to_string(),
    }
}

fn free_line(v: &FreeFormatVariation) -> String {
    match v {
        FreeFormatVariation::Group70Var2(o) => format!("f2 {} {} {}", o.auth_key, hex(o.user_name.as_bytes()), hex(o.password.as_bytes())),
        FreeFormatVariation::Group70Var3(o) => format!(
            "f3 {} {} {} {} {} {} {} {}",
            o.time_of_creation.raw_value(),
            perm_bits(o.permissions),
            o.auth_key,
            o.file_size,
            mode_code(o.mode),
            o.max_block_size,
            o.request_id,
            hex(o.file_name.as_bytes())
        ),
        FreeFormatVariation::Group70Var4(o) => format!(
            "f4 {} {} {} {} {} {}",
            o.file_handle,
            o.file_size,
            o.max_block_size,
            o.request_id,
            o.status_code.to_u8(),
            hex(o.text.as_bytes())
        ),
        FreeFormatVariation::Group70Var5(o) => format!("f5 {} {} {}", o.file_handle, o.block_number, hex(o.file_data)),
        FreeFormatVariation::Group70Var6(o) => format!("f6 {} {} {} {}", o.file_handle, o.block_number, o.status_code.to_u8(), hex(o.text.as_bytes())),
        FreeFormatVariation::Group70Var7(o) => format!(
            "f7 {} {} {} {} {} {}",
            type_code(o.file_type),
            o.file_size,
            o.time_of_creation.raw_value(),
            perm_bits(o.permissions),
            o.request_id,
            hex(o.file_name.as_bytes())
        ),
        FreeFormatVariation::Group70Var8(o) => format!("f8 {}", hex(o.file_specification.as_bytes())),
    }
}

/// the canonical dump of the object headers of a parsed fragment:
///   f<N> <fields...>        a group-70 object (fields in struct order, strings / data as hex)
///   h <group> <var> <q>     any other header
/// followed by `n <number of headers>`; or `objerr <error>`
fn dump_headers(objects: &Result<HeaderCollection, ObjectParseError>, out: &mut Vec<String>) {
    match objects {
        Err(e) => out.push(format!("objerr {}", obj_err(e))),
        Ok(headers) => {
            let mut n = 0usize;
            for h in headers.iter() {
                n += 1;
                let line = match &h.details {
                    HeaderDetails::TwoByteFreeFormat(_, v) => free_line(v),
                    d => {
                        let (g, v) = h.variation.to_group_and_var();
                        format!("h {g} {v} {}", d.qualifier().as_u8())
                    }
                };
                out.push(line);
            }
            out.push(format!("n {n}"));
        }
    }
}

/// `ParsedFragment::parse` of a whole fragment (application header + objects), every header through the
/// real lazy iterator, `Display` at the full decode level.  A panic anywhere is the single line `panic`.
pub fn parse_fragment(fragment: &[u8]) -> Vec<String> {
    let res = guard(|| {
        let mut out = Vec::new();
        let options = ParseOptions { parse_zero_length_strings: false };
        match ParsedFragment::parse(options, fragment) {
            Err(HeaderParseError::InsufficientBytes) => out.push("err hdr insufficient".to_string()),
            Err(HeaderParseError::UnknownFunction(seq, raw)) => out.push(format!("err hdr unknownfn {} {}", seq.value(), raw)),
            Ok(frag) => {
                dump_headers(&frag.objects, &mut out);
                let shown = catch_unwind(AssertUnwindSafe(|| format!("{}", frag.display(crate::decode::AppDecodeLevel::ObjectValues)).len()));
                if shown.is_err() {
                    out.push("display panic".to_string());
                }
            }
        }
        out
    });
    res.unwrap_or_else(|_| vec!["panic".to_string()])
}

fn s(b: &[u8]) -> Option<&str> {
    std::str::from_utf8(b).ok()
}

/// `start_request(control, function)` then `HeaderWriter::write_free_format(&obj)` into a buffer of `cap` octets.
/// Ok(Ok(fragment)) | Ok(Err("cursor" | "overflow" | "badspec" | "nowriter")) | Err(()) = panic
pub fn build(ctrl: u8, function: u8, cap: usize, obj: &Obj, raw: bool) -> Result<Result<Vec<u8>, String>, ()> {
    guard(|| {
        let function = match FunctionCode::from(function) {
            Some(f) => f,
            None => return Err("badspec".to_string()),
        };
        let mut buf = vec![0xA5u8; cap];
        let mut cursor = WriteCursor::new(&mut buf);
        let mut writer: HeaderWriter = match start_request(ControlField::from(ctrl), function, &mut cursor) {
            Ok(w) => w,
            Err(_) => return Err("cursor".to_string()),
        };
        let bad = || "badspec".to_string();
        let res = match obj {
            Obj::V2 { key, user, pass } => writer.write_free_format(&Group70Var2 { auth_key: *key, user_name: s(user).ok_or_else(bad)?, password: s(pass).ok_or_else(bad)? }),
            Obj::V3 { time, perm, key, size, mode, max_block, req, name } => writer.write_free_format(&Group70Var3 {
                time_of_creation: Timestamp::new(*time),
                permissions: perms(*perm),
                auth_key: *key,
                file_size: *size,
                mode: mode_of(*mode, raw),
                max_block_size: *max_block,
                request_id: *req,
                file_name: s(name).ok_or_else(bad)?,
            }),
            Obj::V4 { handle, size, max_block, req, status, text } => writer.write_free_format(&Group70Var4 {
                file_handle: *handle,
                file_size: *size,
                max_block_size: *max_block,
                request_id: *req,
                status_code: status_of(*status, raw),
                text: s(text).ok_or_else(bad)?,
            }),
            Obj::V5 { handle, block, data } => writer.write_free_format(&Group70Var5 { file_handle: *handle, block_number: *block, file_data: data }),
            Obj::V7 { ftype, size, time, perm, req, name } => writer.write_free_format(&Group70Var7 {
                file_type: type_of(*ftype, raw),
                file_size: *size,
                time_of_creation: Timestamp::new(*time),
                permissions: perms(*perm),
                request_id: *req,
                file_name: s(name).ok_or_else(bad)?,
            }),
            Obj::V6 { .. } | Obj::V8 { .. } => return Err("nowriter".to_string()),
        };
        match res {
            Ok(()) => {
                drop(writer);
                Ok(cursor.written().to_vec())
            }
            Err(e) => Err(write_err(e)),
        }
    })
}

/// the request a master file task sends
#[derive(Clone, Debug)]
pub enum TaskSpec {
    Auth { user: Vec<u8>, pass: Vec<u8> },
    Open { name: Vec<u8>, key: u32, size: u32, mode: u16, perm: u16, max_block: u16 },
    Close { handle: u32 },
    Info { name: Vec<u8> },
    WriteBlock { handle: u32, block: u32, data: Vec<u8> },
}

/// what `MasterSession::send_request` does for a task: `start_request(ControlField::request(seq), task.function())`,
/// then `RequestWriter::write`
fn format_request(task: &NonReadTask, seq: u8, cap: usize) -> Result<Vec<u8>, String> {
    let mut buf = vec![0xA5u8; cap];
    let mut cursor = WriteCursor::new(&mut buf);
    let mut hw = match start_request(ControlField::request(Sequence::new(seq)), RequestWriter::function(task), &mut cursor) {
        Ok(w) => w,
        Err(_) => return Err("write".to_string()),
    };
    match RequestWriter::write(task, &mut hw) {
        Ok(()) => {}
        Err(TaskError::WriteError) => return Err("write".to_string()),
        Err(e) => return Err(format!("other {e:?}")),
    }
    drop(hw);
    Ok(cursor.written().to_vec())
}

pub fn task_request(spec: &TaskSpec, seq: u8, cap: usize) -> Result<Result<Vec<u8>, String>, ()> {
    guard(|| {
        let st = |b: &Vec<u8>| String::from_utf8(b.clone()).map_err(|_| "badspec".to_string());
        let task = match spec {
            TaskSpec::Auth { user, pass } => NonReadTask::AuthFile(AuthFileTask {
                credentials: FileCredentials { user_name: st(user)?, password: st(pass)? },
                promise: Promise::null(),
            }),
            TaskSpec::Open { name, key, size, mode, perm, max_block } => NonReadTask::OpenFile(OpenFileTask {
                request: OpenFileRequest {
                    file_name: st(name)?,
                    auth_key: AuthKey::new(*key),
                    file_size: *size,
                    file_mode: FileMode::new(*mode),
                    permissions: perms(*perm),
                    max_block_size: *max_block,
                },
                promise: Promise::null(),
            }),
            TaskSpec::Close { handle } => NonReadTask::CloseFile(CloseFileTask { handle: FileHandle::new(*handle), promise: Promise::null() }),
            TaskSpec::Info { name } => NonReadTask::GetFileInfo(GetFileInfoTask::new(st(name)?, Promise::null())),
            TaskSpec::WriteBlock { handle, block, data } => NonReadTask::WriteFileBlock(WriteBlockTask {
                request: WriteBlockRequest { handle: FileHandle::new(*handle), block_number: BlockNumber::new(*block), block_data: data.clone() },
                promise: Promise::null(),
            }),
        };
        format_request(&task, seq, cap)
    })
}

fn file_err(e: &FileError) -> String {
    match e {
        FileError::BadResponse => "badresponse".to_string(),
        FileError::BadStatus(s) => format!("badstatus {}", s.to_u8()),
        FileError::WrongHandle => "wronghandle".to_string(),
        FileError::NoPermission => "nopermission".to_string(),
        FileError::BadBlockNum => "badblocknum".to_string(),
        FileError::AbortByUser => "abortbyuser".to_string(),
        FileError::MaxLengthExceeded => "maxlength".to_string(),
        FileError::TaskError(_) => "task".to_string(),
    }
}

struct Recorder(Arc<Mutex<Vec<String>>>);

impl FileReader for Recorder {
    fn opened(&mut self, size: u32) -> FileAction {
        self.0.lock().unwrap().push(format!("cb opened {size}"));
        FileAction::Continue
    }
    fn block_received(&mut self, block_num: u32, data: &[u8]) -> MaybeAsync<FileAction> {
        self.0.lock().unwrap().push(format!("cb block {block_num} {}", hex(data)));
        MaybeAsync::ready(FileAction::Continue)
    }
    fn aborted(&mut self, err: FileError) {
        self.0.lock().unwrap().push(format!("cb aborted {}", file_err(&err)));
    }
    fn completed(&mut self) {
        self.0.lock().unwrap().push("cb completed".to_string());
    }
}

/// the real `FileReadTask` with a recording `FileReader` that always continues
pub struct ReadProbe {
    task: Option<NonReadTask>,
    log: Arc<Mutex<Vec<String>>>,
}

impl ReadProbe {
    /// `FileReadTask::start`; `None` = a string is not UTF-8
    pub fn new(name: &[u8], max_block: u16, max_size: usize, creds: Option<(&[u8], &[u8])>) -> Option<Self> {
        let log = Arc::new(Mutex::new(Vec::new()));
        let credentials = match creds {
            None => None,
            Some((u, p)) => Some(FileCredentials { user_name: s(u)?.to_string(), password: s(p)?.to_string() }),
        };
        let task = FileReadTask::start(
            s(name)?.to_string(),
            FileReadConfig { max_block_size: max_block, max_file_size: max_size },
            FileReaderType::from_reader(Box::new(Recorder(log.clone()))),
            credentials,
        );
        Some(Self { task: Some(NonReadTask::FileRead(task)), log })
    }

    /// the request of the current state: Ok(None) = the task has ended
    pub fn request(&self, seq: u8, cap: usize) -> Result<Option<Result<Vec<u8>, String>>, ()> {
        guard(|| self.task.as_ref().map(|t| format_request(t, seq, cap)))
    }

    /// a response fragment (application header + objects) handed to `FileReadTask::handle`:
    /// the callbacks it made, then `next` / `end` / `noresponse <why>` (not a response fragment: not handed over)
    pub fn response(&mut self, fragment: &[u8]) -> Result<Vec<String>, ()> {
        let task = match self.task.take() {
            None => return Ok(vec!["ended".to_string()]),
            Some(NonReadTask::FileRead(t)) => t,
            Some(_) => return Ok(vec!["ended".to_string()]),
        };
        let log = self.log.clone();
        let r = guard(move || {
            let parsed = match ParsedFragment::parse(ParseOptions { parse_zero_length_strings: false }, fragment) {
                Ok(p) => p,
                Err(_) => return (Some(task), "noresponse header".to_string()),
            };
            let response = match parsed.to_response() {
                Ok(r) => r,
                Err(_) => return (Some(task), "noresponse validation".to_string()),
            };
            let fut = task.handle(response);
            let mut fut = std::pin::pin!(fut);
            let waker = std::task::Waker::noop();
            let mut cx = std::task::Context::from_waker(&waker);
            match fut.as_mut().poll(&mut cx) {
                std::task::Poll::Ready(Ok(Some(NonReadTask::FileRead(t)))) => (Some(t), "next".to_string()),
                std::task::Poll::Ready(Ok(Some(_))) => (None, "othertask".to_string()),
                std::task::Poll::Ready(Ok(None)) => (None, "end".to_string()),
                std::task::Poll::Ready(Err(_)) => (None, "end".to_string()),
                std::task::Poll::Pending => (None, "pending".to_string()),
            }
        });
        match r {
            Err(()) => Err(()),
            Ok((next, verdict)) => {
                self.task = next.map(NonReadTask::FileRead);
                // a dropped task tells its reader `aborted(Shutdown)` if it still holds it: that is part of the trace
                let mut lines: Vec<String> = log.lock().unwrap().drain(..).collect();
                lines.push(verdict);
                Ok(lines)
            }
        }
    }
}

/// `DirectoryReader`: the data blocks of a directory read, then `completed()`:
/// `Some(lines)`: one `d <type> <size> <time> <perm> <name hex>` per entry | `None`: the listing is rejected
pub fn directory(blocks: &[Vec<u8>]) -> Result<Option<Vec<String>>, ()> {
    guard(|| {
        let (promise, mut rx) = Promise::one_shot();
        let mut reader = DirectoryReader::new(promise);
        let _ = reader.opened(0);
        for (i, b) in blocks.iter().enumerate() {
            let _ = reader.block_received(i as u32, b);
        }
        reader.completed();
        match rx.try_recv() {
            Ok(Ok(items)) => Some(
                items
                    .iter()
                    .map(|i| format!("d {} {} {} {} {}", type_code(i.file_type), i.size, i.time_created.raw_value(), perm_bits(i.permissions), hex(i.name.as_bytes())))
                    .collect(),
            ),
            _ => None,
        }
    })
}
