//! C10 probe: measurement values from the outstation database to the master's `ReadHandler`.
//!
//! Exposes (a) the real outstation `DatabaseHandle` (add / update / `select` of a READ request's
//! object headers / `write_response_headers` / `clear_written_events`, called exactly the way
//! `outstation/session.rs::format_read_response` and the confirm path call them) and (b) the
//! real master side (`ParsedFragment::parse` -> `to_response` -> `extract_measurements`) feeding a
//! recording `ReadHandler`.  Nothing here changes behaviour; it only wires existing pub(crate)
//! functions together and prints what the handler receives.

use crate::app::gen::count::CountVariation;
use crate::app::measurement::*;
use crate::app::parse::options::ParseOptions;
use crate::app::parse::parser::{HeaderCollection, HeaderDetails, ParsedFragment};
use crate::app::{FunctionCode, MaybeAsync, ResponseHeader, Variation};
use crate::master::{HeaderInfo, ReadHandler, ReadType};
use crate::outstation::database::*;
use crate::outstation::OutstationApplication;

struct NullApp;
impl OutstationApplication for NullApp {}

fn time_str(t: Option<Time>) -> String {
    match t {
        None => "-".to_string(),
        Some(Time::Synchronized(ts)) => format!("s{}", ts.raw_value()),
        Some(Time::Unsynchronized(ts)) => format!("u{}", ts.raw_value()),
    }
}

fn dbit_num(d: DoubleBit) -> u8 {
    match d {
        DoubleBit::Intermediate => 0,
        DoubleBit::DeterminedOff => 1,
        DoubleBit::DeterminedOn => 2,
        DoubleBit::Indeterminate => 3,
    }
}

fn dbit_of(n: u64) -> DoubleBit {
    match n & 3 {
        0 => DoubleBit::Intermediate,
        1 => DoubleBit::DeterminedOff,
        2 => DoubleBit::DeterminedOn,
        _ => DoubleBit::Indeterminate,
    }
}

fn hex(b: &[u8]) -> String {
    if b.is_empty() {
        return "-".to_string();
    }
    let mut s = String::with_capacity(b.len() * 2);
    for x in b {
        s.push_str(&format!("{x:02x}"));
    }
    s
}

/// one handler call: the header's variation and the measurement lines (without the `m ` prefix)
struct Call {
    variation: Variation,
    has_flags: bool,
    items: Vec<String>,
}

#[derive(Default)]
struct Recorder {
    calls: Vec<Call>,
}

impl Recorder {
    /// items are recorded one by one so that what the handler saw before a panic inside the
    /// library's iterator is kept
    fn push(
        &mut self,
        info: HeaderInfo,
        ty: &str,
        items: &mut dyn Iterator<Item = (u16, String, u8, Option<Time>)>,
    ) {
        let (g, v) = info.variation.to_group_and_var();
        self.calls.push(Call {
            variation: info.variation,
            has_flags: info.has_flags,
            items: Vec::new(),
        });
        for (idx, val, flags, time) in items {
            let line = format!(
                "m {ty} {idx} g{g}v{v} hf={} {val} {flags} {}",
                u8::from(info.has_flags),
                time_str(time)
            );
            self.calls.last_mut().unwrap().items.push(line);
        }
    }
}

impl ReadHandler for Recorder {
    fn begin_fragment(&mut self, _read_type: ReadType, _header: ResponseHeader) -> MaybeAsync<()> {
        MaybeAsync::ready(())
    }
    fn end_fragment(&mut self, _read_type: ReadType, _header: ResponseHeader) -> MaybeAsync<()> {
        MaybeAsync::ready(())
    }
    fn handle_binary_input(
        &mut self,
        info: HeaderInfo,
        iter: &mut dyn Iterator<Item = (BinaryInput, u16)>,
    ) {
        self.push(
            info,
            "bi",
            &mut iter.map(|(m, i)| (i, format!("{}", u8::from(m.value)), m.flags.value, m.time)),
        );
    }
    fn handle_double_bit_binary_input(
        &mut self,
        info: HeaderInfo,
        iter: &mut dyn Iterator<Item = (DoubleBitBinaryInput, u16)>,
    ) {
        self.push(
            info,
            "db",
            &mut iter.map(|(m, i)| (i, format!("{}", dbit_num(m.value)), m.flags.value, m.time)),
        );
    }
    fn handle_binary_output_status(
        &mut self,
        info: HeaderInfo,
        iter: &mut dyn Iterator<Item = (BinaryOutputStatus, u16)>,
    ) {
        self.push(
            info,
            "bo",
            &mut iter.map(|(m, i)| (i, format!("{}", u8::from(m.value)), m.flags.value, m.time)),
        );
    }
    fn handle_counter(&mut self, info: HeaderInfo, iter: &mut dyn Iterator<Item = (Counter, u16)>) {
        self.push(
            info,
            "ct",
            &mut iter.map(|(m, i)| (i, format!("{}", m.value), m.flags.value, m.time)),
        );
    }
    fn handle_frozen_counter(
        &mut self,
        info: HeaderInfo,
        iter: &mut dyn Iterator<Item = (FrozenCounter, u16)>,
    ) {
        self.push(
            info,
            "fc",
            &mut iter.map(|(m, i)| (i, format!("{}", m.value), m.flags.value, m.time)),
        );
    }
    fn handle_analog_input(
        &mut self,
        info: HeaderInfo,
        iter: &mut dyn Iterator<Item = (AnalogInput, u16)>,
    ) {
        self.push(
            info,
            "ai",
            &mut iter.map(|(m, i)| {
                (
                    i,
                    format!("{:016x}", m.value.to_bits()),
                    m.flags.value,
                    m.time,
                )
            }),
        );
    }
    fn handle_frozen_analog_input(
        &mut self,
        info: HeaderInfo,
        iter: &mut dyn Iterator<Item = (FrozenAnalogInput, u16)>,
    ) {
        self.push(
            info,
            "fa",
            &mut iter.map(|(m, i)| {
                (
                    i,
                    format!("{:016x}", m.value.to_bits()),
                    m.flags.value,
                    m.time,
                )
            }),
        );
    }
    fn handle_analog_output_status(
        &mut self,
        info: HeaderInfo,
        iter: &mut dyn Iterator<Item = (AnalogOutputStatus, u16)>,
    ) {
        self.push(
            info,
            "ao",
            &mut iter.map(|(m, i)| {
                (
                    i,
                    format!("{:016x}", m.value.to_bits()),
                    m.flags.value,
                    m.time,
                )
            }),
        );
    }
    fn handle_octet_string<'a>(
        &mut self,
        info: HeaderInfo,
        iter: &'a mut dyn Iterator<Item = (&'a [u8], u16)>,
    ) {
        self.push(info, "os", &mut iter.map(|(m, i)| (i, hex(m), 0u8, None)));
    }
}

pub struct ConvertProbe {
    db: DatabaseHandle,
    tx: usize,
    seq: u8,
    /// the master side panicked: the (real) master task would be gone
    dead: bool,
}

fn class_of(c: u8) -> Option<EventClass> {
    match c {
        1 => Some(EventClass::Class1),
        2 => Some(EventClass::Class2),
        3 => Some(EventClass::Class3),
        _ => None,
    }
}

fn update_info(i: UpdateInfo) -> &'static str {
    match i {
        UpdateInfo::NoPoint => "nopoint",
        UpdateInfo::NoEvent => "noevent",
        UpdateInfo::Created(_) => "created",
        UpdateInfo::Overflow { .. } => "overflow",
    }
}

impl ConvertProbe {
    /// `max_events` per type; `tx` = size of the solicited tx buffer (response header included);
    /// `class0_octets`: include octet strings in class 0
    pub fn new(max_events: u16, tx: usize, class0_octets: bool) -> Self {
        let mut c0 = ClassZeroConfig::default();
        c0.octet_string = class0_octets;
        Self {
            db: DatabaseHandle::new(None, c0, EventBufferConfig::all_types(max_events)),
            tx: tx.max(16),
            seq: 0,
            dead: false,
        }
    }

    /// add a point; `svar` / `evar` are the variation numbers inside the type's static / event group
    pub fn add(&mut self, ty: &str, index: u16, class: u8, svar: u8, evar: u8) -> Option<bool> {
        if self.dead {
            return None;
        }
        let class = class_of(class);
        self.db.transaction(|db| {
            Some(match ty {
                "bi" => {
                    let s = match svar {
                        1 => StaticBinaryInputVariation::Group1Var1,
                        2 => StaticBinaryInputVariation::Group1Var2,
                        _ => return None,
                    };
                    let e = match evar {
                        1 => EventBinaryInputVariation::Group2Var1,
                        2 => EventBinaryInputVariation::Group2Var2,
                        3 => EventBinaryInputVariation::Group2Var3,
                        _ => return None,
                    };
                    db.add(index, class, BinaryInputConfig::new(s, e))
                }
                "db" => {
                    let s = match svar {
                        1 => StaticDoubleBitBinaryInputVariation::Group3Var1,
                        2 => StaticDoubleBitBinaryInputVariation::Group3Var2,
                        _ => return None,
                    };
                    let e = match evar {
                        1 => EventDoubleBitBinaryInputVariation::Group4Var1,
                        2 => EventDoubleBitBinaryInputVariation::Group4Var2,
                        3 => EventDoubleBitBinaryInputVariation::Group4Var3,
                        _ => return None,
                    };
                    db.add(index, class, DoubleBitBinaryInputConfig::new(s, e))
                }
                "bo" => {
                    let s = match svar {
                        1 => StaticBinaryOutputStatusVariation::Group10Var1,
                        2 => StaticBinaryOutputStatusVariation::Group10Var2,
                        _ => return None,
                    };
                    let e = match evar {
                        1 => EventBinaryOutputStatusVariation::Group11Var1,
                        2 => EventBinaryOutputStatusVariation::Group11Var2,
                        _ => return None,
                    };
                    db.add(index, class, BinaryOutputStatusConfig::new(s, e))
                }
                "ct" => {
                    let s = match svar {
                        1 => StaticCounterVariation::Group20Var1,
                        2 => StaticCounterVariation::Group20Var2,
                        5 => StaticCounterVariation::Group20Var5,
                        6 => StaticCounterVariation::Group20Var6,
                        _ => return None,
                    };
                    let e = match evar {
                        1 => EventCounterVariation::Group22Var1,
                        2 => EventCounterVariation::Group22Var2,
                        5 => EventCounterVariation::Group22Var5,
                        6 => EventCounterVariation::Group22Var6,
                        _ => return None,
                    };
                    db.add(index, class, CounterConfig::new(s, e, 0))
                }
                "fc" => {
                    let s = match svar {
                        1 => StaticFrozenCounterVariation::Group21Var1,
                        2 => StaticFrozenCounterVariation::Group21Var2,
                        5 => StaticFrozenCounterVariation::Group21Var5,
                        6 => StaticFrozenCounterVariation::Group21Var6,
                        9 => StaticFrozenCounterVariation::Group21Var9,
                        10 => StaticFrozenCounterVariation::Group21Var10,
                        _ => return None,
                    };
                    let e = match evar {
                        1 => EventFrozenCounterVariation::Group23Var1,
                        2 => EventFrozenCounterVariation::Group23Var2,
                        5 => EventFrozenCounterVariation::Group23Var5,
                        6 => EventFrozenCounterVariation::Group23Var6,
                        _ => return None,
                    };
                    db.add(index, class, FrozenCounterConfig::new(s, e, 0))
                }
                "ai" => {
                    let s = match svar {
                        1 => StaticAnalogInputVariation::Group30Var1,
                        2 => StaticAnalogInputVariation::Group30Var2,
                        3 => StaticAnalogInputVariation::Group30Var3,
                        4 => StaticAnalogInputVariation::Group30Var4,
                        5 => StaticAnalogInputVariation::Group30Var5,
                        6 => StaticAnalogInputVariation::Group30Var6,
                        _ => return None,
                    };
                    let e = match evar {
                        1 => EventAnalogInputVariation::Group32Var1,
                        2 => EventAnalogInputVariation::Group32Var2,
                        3 => EventAnalogInputVariation::Group32Var3,
                        4 => EventAnalogInputVariation::Group32Var4,
                        5 => EventAnalogInputVariation::Group32Var5,
                        6 => EventAnalogInputVariation::Group32Var6,
                        7 => EventAnalogInputVariation::Group32Var7,
                        8 => EventAnalogInputVariation::Group32Var8,
                        _ => return None,
                    };
                    db.add(index, class, AnalogInputConfig::new(s, e, 0.0))
                }
                "ao" => {
                    let s = match svar {
                        1 => StaticAnalogOutputStatusVariation::Group40Var1,
                        2 => StaticAnalogOutputStatusVariation::Group40Var2,
                        3 => StaticAnalogOutputStatusVariation::Group40Var3,
                        4 => StaticAnalogOutputStatusVariation::Group40Var4,
                        _ => return None,
                    };
                    let e = match evar {
                        1 => EventAnalogOutputStatusVariation::Group42Var1,
                        2 => EventAnalogOutputStatusVariation::Group42Var2,
                        3 => EventAnalogOutputStatusVariation::Group42Var3,
                        4 => EventAnalogOutputStatusVariation::Group42Var4,
                        5 => EventAnalogOutputStatusVariation::Group42Var5,
                        6 => EventAnalogOutputStatusVariation::Group42Var6,
                        7 => EventAnalogOutputStatusVariation::Group42Var7,
                        8 => EventAnalogOutputStatusVariation::Group42Var8,
                        _ => return None,
                    };
                    db.add(index, class, AnalogOutputStatusConfig::new(s, e, 0.0))
                }
                "os" => db.add(index, class, OctetStringConfig),
                _ => return None,
            })
        })
    }

    /// `Database::update2` of one measurement.  `value`: bi/bo 0|1, db 0..=3, ct/fc u32,
    /// ai/ao the f64 bit pattern.  `time`: (synchronized, ms).  `force`: EventMode::Force,
    /// otherwise the static value only (EventMode::Suppress)
    pub fn update(
        &mut self,
        ty: &str,
        index: u16,
        value: u64,
        flags: u8,
        time: Option<(bool, u64)>,
        force: bool,
    ) -> &'static str {
        if self.dead {
            return "dead";
        }
        let time = time.map(|(s, t)| {
            if s {
                Time::synchronized(t)
            } else {
                Time::unsynchronized(t)
            }
        });
        let flags = Flags::new(flags);
        let opt = if force {
            UpdateOptions::new(true, EventMode::Force)
        } else {
            UpdateOptions::no_event()
        };
        let info = self.db.transaction(|db| match ty {
            "bi" => db.update2(
                index,
                &BinaryInput {
                    value: value != 0,
                    flags,
                    time,
                },
                opt,
            ),
            "db" => db.update2(
                index,
                &DoubleBitBinaryInput {
                    value: dbit_of(value),
                    flags,
                    time,
                },
                opt,
            ),
            "bo" => db.update2(
                index,
                &BinaryOutputStatus {
                    value: value != 0,
                    flags,
                    time,
                },
                opt,
            ),
            "ct" => db.update2(
                index,
                &Counter {
                    value: value as u32,
                    flags,
                    time,
                },
                opt,
            ),
            "fc" => db.update2(
                index,
                &FrozenCounter {
                    value: value as u32,
                    flags,
                    time,
                },
                opt,
            ),
            "ai" => db.update2(
                index,
                &AnalogInput {
                    value: f64::from_bits(value),
                    flags,
                    time,
                },
                opt,
            ),
            "ao" => db.update2(
                index,
                &AnalogOutputStatus {
                    value: f64::from_bits(value),
                    flags,
                    time,
                },
                opt,
            ),
            _ => UpdateInfo::NoPoint,
        });
        update_info(info)
    }

    pub fn update_octets(&mut self, index: u16, value: &[u8], force: bool) -> &'static str {
        if self.dead {
            return "dead";
        }
        let opt = if force {
            UpdateOptions::new(true, EventMode::Force)
        } else {
            UpdateOptions::no_event()
        };
        let os = match OctetString::new(value) {
            Ok(x) => x,
            Err(_) => return "badvalue",
        };
        update_info(self.db.transaction(|db| db.update2(index, &os, opt)))
    }

    /// A READ with the given object headers: `select`, then fragments are produced with
    /// `write_response_headers` until the response is complete (every fragment is "confirmed":
    /// `clear_written_events`), each fragment is parsed and extracted on the master side.
    /// Output lines: `cto s|u <ms>` for every common-time header met, `m ...` per measurement in
    /// handler order, `iin2 <n>`.
    pub async fn read(&mut self, request_objects: &[u8]) -> Vec<String> {
        let mut out = Vec::new();
        if self.dead {
            out.push("dead".to_string());
            return out;
        }
        let headers = match HeaderCollection::parse(
            ParseOptions::default(),
            FunctionCode::Read,
            request_objects,
        ) {
            Ok(x) => x,
            Err(e) => {
                out.push(format!("badreq {e:?}"));
                return out;
            }
        };
        let iin2 = self.db.select(&headers);
        let mut buffer = vec![0u8; self.tx];
        let mut fir = true;
        let mut guard = 0usize;
        loop {
            guard += 1;
            let (len, complete, has_events) = {
                let mut cursor = scursor::WriteCursor::new(buffer.as_mut_slice());
                let _ = cursor.skip(ResponseHeader::LENGTH);
                let info = self.db.write_response_headers(&mut cursor);
                (cursor.written().len(), info.complete, info.has_events)
            };
            let con = has_events || !complete;
            buffer[0] = (u8::from(fir) << 7)
                | (u8::from(complete) << 6)
                | (u8::from(con) << 5)
                | (self.seq & 0x0F);
            buffer[1] = 0x81;
            buffer[2] = 0;
            buffer[3] = iin2.value;
            self.seq = (self.seq + 1) & 0x0F;
            self.master_side(&buffer[..len], &mut out).await;
            if self.dead {
                return out;
            }
            // the confirm path of the session
            self.db.clear_written_events(&mut NullApp).await;
            if complete {
                break;
            }
            if len <= ResponseHeader::LENGTH || guard > 100_000 {
                out.push("stuck".to_string());
                break;
            }
            fir = false;
        }
        self.db.reset();
        out.push(format!("iin2 {}", iin2.value));
        out
    }

    async fn master_side(&mut self, fragment: &[u8], out: &mut Vec<String>) {
        let parsed = match ParsedFragment::parse(ParseOptions::default(), fragment) {
            Ok(x) => x,
            Err(e) => {
                out.push(format!("parse-error {e:?}"));
                return;
            }
        };
        let response = match parsed.to_response() {
            Ok(x) => x,
            Err(e) => {
                out.push(format!("response-error {e:?}"));
                return;
            }
        };
        let objects = match response.objects {
            Ok(x) => x,
            Err(e) => {
                out.push(format!("object-error {e:?}"));
                return;
            }
        };
        let mut rec = Recorder::default();
        // `extract_measurements` = begin_fragment, `extract_measurements_inner`, end_fragment; the
        // inner (synchronous) part is run under catch_unwind so that a panic inside the library's
        // object iterators becomes an output line instead of killing the harness
        let _ = rec
            .begin_fragment(ReadType::SinglePoll, response.header)
            .get()
            .await;
        let res = std::panic::catch_unwind(std::panic::AssertUnwindSafe(|| {
            crate::master::extract::extract_measurements_inner(objects, &mut rec)
        }));
        let panicked = res.is_err();
        if !panicked {
            let _ = rec
                .end_fragment(ReadType::SinglePoll, response.header)
                .get()
                .await;
        }
        // merge the header sequence (for the common-time headers, which the handler never sees)
        // with the handler calls, in order; after a panic the last call is the one cut short
        let mut calls = rec.calls.into_iter().peekable();
        for header in objects.iter() {
            if panicked && calls.peek().is_none() {
                break;
            }
            match &header.details {
                HeaderDetails::OneByteCount(1, CountVariation::Group51Var1(seq)) => {
                    if let Some(x) = seq.single() {
                        out.push(format!("cto s {}", x.time.raw_value()));
                    }
                }
                HeaderDetails::OneByteCount(1, CountVariation::Group51Var2(seq)) => {
                    if let Some(x) = seq.single() {
                        out.push(format!("cto u {}", x.time.raw_value()));
                    }
                }
                _ => {
                    if calls.peek().map(|c| c.variation) == Some(header.variation) {
                        let c = calls.next().unwrap();
                        let _ = c.has_flags;
                        out.extend(c.items);
                    } else {
                        let (g, v) = header.variation.to_group_and_var();
                        out.push(format!("unhandled g{g}v{v}"));
                    }
                }
            }
        }
        if panicked {
            out.push("panic".to_string());
            self.dead = true;
            return;
        }
        for c in calls {
            out.push("orphan-call".to_string());
            out.extend(c.items);
        }
    }
}
