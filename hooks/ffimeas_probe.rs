//! C20, master-side measurement path through the binding layer (engine `ffimeas`).
//!
//! The harness drives `impl dnp3::master::ReadHandler for dnp3_ffi::ffi::ReadHandler` with NATIVE values that it
//! builds itself.  Three native values cannot be built through the public API; this probe exposes their
//! existing constructors and nothing else (no behaviour is changed):
//!   * `Sequence::new` (`pub(crate)`): the sequence number inside `ResponseHeader.control`
//!   * `Variation::lookup` (`pub(crate)`): group / variation octets -> `Variation` (`HeaderInfo.variation`)
//!   * a `VariationList` (private field): obtained from the library's own public parser `AttrValue::parse`
//!     (which needs a `scursor::ReadCursor`, a crate the harness does not depend on)
use crate::app::attr::{AttrDataType, AttrValue, VariationList};
use crate::app::{Sequence, Variation};

pub fn sequence(x: u8) -> Sequence {
    Sequence::new(x)
}

pub fn variation_lookup(group: u8, var: u8) -> Option<Variation> {
    Variation::lookup(group, var)
}

/// `pairs` = the octets of a g0v255 payload (variation, properties)*; `buf` receives the encoded attribute
/// (data type code, length, payload) and must outlive the result.  `None`: odd length or more than 510 octets.
pub fn variation_list<'a>(pairs: &[u8], buf: &'a mut Vec<u8>) -> Option<VariationList<'a>> {
    buf.clear();
    if pairs.len() <= 255 {
        buf.push(AttrDataType::AttrList.into());
        buf.push(pairs.len() as u8);
    } else if pairs.len() <= 511 {
        buf.push(AttrDataType::ExtAttrList.into());
        buf.push((pairs.len() - 256) as u8);
    } else {
        return None;
    }
    buf.extend_from_slice(pairs);
    let mut cursor = scursor::ReadCursor::new(buf.as_slice());
    match AttrValue::parse(&mut cursor) {
        Ok(AttrValue::AttrList(x)) => Some(x),
        _ => None,
    }
}
