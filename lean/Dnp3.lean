-- root of the `Dnp3` library: generated tables, models, proofs, property theorems
import Dnp3.Gen.All
import Dnp3.Props.All
import Dnp3.Driver.Link
import Dnp3.Driver.Transport
import Dnp3.Driver.Outstation
import Dnp3.Model.OutstationTrace
import Dnp3.Driver.Convert
import Dnp3.Driver.Parse
import Dnp3.Driver.Ffi
import Dnp3.Driver.Db
import Dnp3.Driver.Master
import Dnp3.Model.MasterTrace
import Dnp3.Model.Pair
import Dnp3.Driver.Pair
import Dnp3.Driver.Attr
import Dnp3.Driver.File70
import Dnp3.Driver.FfiMeas
