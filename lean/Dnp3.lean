-- root of the `Dnp3` library: generated tables, models, proofs, property theorems
import Dnp3.Gen.All
import Dnp3.Model.LinkReader
import Dnp3.Driver.Link
