import Dnp3.Driver.Link
import Dnp3.Driver.Transport
import Dnp3.Driver.Outstation
import Dnp3.Driver.Convert
import Dnp3.Driver.Parse
import Dnp3.Driver.Ffi
import Dnp3.Driver.Db
import Dnp3.Driver.Master
import Dnp3.Driver.Pair
import Dnp3.Driver.Attr
import Dnp3.Driver.File70
import Dnp3.Driver.FfiMeas
open Dnp3 Dnp3.Driver

partial def loop {σ : Type} (h : IO.FS.Stream) (out : IO.FS.Stream) (step : σ → String → σ × List String) (s : σ) : IO Unit := do
  let line ← h.getLine
  if line.isEmpty then return ()
  if line.startsWith "#" then
    out.putStr line
    return (← loop h out step s)
  if line.startsWith "@" then
    return (← loop h out step s)
  let (s', outs) := step s line
  for o in outs do out.putStrLn o
  loop h out step s'

def main (args : List String) : IO UInt32 := do
  let stdin ← IO.getStdin
  let stdout ← IO.getStdout
  match args with
  | ["link"] => loop stdin stdout linkStep (Reader.new .close .stream 2048); return 0
  | ["transport"] => loop stdin stdout transportStep TState.init; return 0
  | ["outstation"] => loop stdin stdout outstationStep {}; return 0
  | ["convert"] => loop stdin stdout convertStep (CState.init 100 2048 false); return 0
  | ["master"] => loop stdin stdout masterStep {}; return 0
  | ["parse"] => loop stdin stdout parseStep (); return 0
  | ["ffi"] => loop stdin stdout ffiStep (); return 0
  | ["ffimeas"] => loop stdin stdout ffimeasStep (); return 0
  | ["pair"] => loop stdin stdout pairStep {}; return 0
  | ["db"] => loop stdin stdout Dnp3.Driver.DbEngine.dbStep ({} : Dnp3.Driver.DbEngine.DbState); return 0
  | ["attr"] => loop stdin stdout Dnp3.Driver.AttrEngine.attrStep ({} : Dnp3.Driver.AttrEngine.AState); return 0
  | ["file70"] => loop stdin stdout Dnp3.Driver.File70Engine.file70Step ({} : Dnp3.Driver.File70Engine.FState); return 0
  | _ => IO.eprintln "usage: dnp3model <engine>"; return 2
