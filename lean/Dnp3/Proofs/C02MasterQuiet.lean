import Dnp3.Proofs.C02Master
/-!
# C02 — everything the master session model does around a fragment is "quiet"

`Quiet a b`: the accumulator `b` extends the outputs of `a` by outputs that are neither handler deliveries
(`IsDelivery`) nor application-layer CONFIRMs (`confirmsOf`).  The scheduler (`nextTask`), the start of a task
(`beginTask`: its request has a function code other than 0), the end of a task / of the session, the message and
timer handlers and the main loop `resolve` are all quiet.  Hence (`step_quiet`, `step_rx_quiet`) the deliveries and
confirms of one `Master.step` are exactly those of the fragment handler `onFragment`, in the same order, and precede
everything else the step emits.
-/
namespace Dnp3.Proofs.C02MasterQuiet
open Dnp3 Dnp3.Master Dnp3.Proofs.Master Dnp3.Proofs.C02Master

/-- an output that is neither a delivery nor a CONFIRM -/
def QuietOut (o : MOut) : Prop := confirmsOf [o] = [] ∧ ¬ IsDelivery o

/-- `b` extends the outputs of `a` by quiet outputs -/
def Quiet (a b : Acc) : Prop := ∃ l, b.2 = a.2 ++ l ∧ ∀ o ∈ l, QuietOut o

theorem Quiet.refl (a : Acc) : Quiet a a := ⟨[], by simp, by simp⟩

theorem Quiet.trans {a b c : Acc} (h1 : Quiet a b) (h2 : Quiet b c) : Quiet a c := by
  obtain ⟨l1, e1, q1⟩ := h1
  obtain ⟨l2, e2, q2⟩ := h2
  refine ⟨l1 ++ l2, by rw [e2, e1, List.append_assoc], ?_⟩
  intro o ho
  rcases List.mem_append.mp ho with h | h
  · exact q1 o h
  · exact q2 o h

theorem Quiet.of_outs {a b : Acc} (h : b.2 = a.2) : Quiet a b := ⟨[], by simp [h], by simp⟩

theorem Quiet.emit (a : Acc) (o : MOut) (h : QuietOut o) : Quiet a (emit a o) :=
  ⟨[o], rfl, by intro x hx; simp only [List.mem_singleton] at hx; subst hx; exact h⟩

theorem quietOut_of_noTx (o : MOut) (h : NoTx o) (hd : ¬ IsDelivery o) : QuietOut o := by
  refine ⟨?_, hd⟩
  cases o <;> simp_all [confirmsOf, NoTx]

theorem Quiet.modAssoc (a : Acc) (addr : Nat) (f : Assoc → Assoc) : Quiet a (modAssoc a addr f) := .of_outs rfl
theorem Quiet.setMode (a : Acc) (m : Mode) : Quiet a (setMode a m) := .of_outs rfl
theorem Quiet.rotate (a : Acc) (addr : Nat) : Quiet a (rotate a addr) := .of_outs rfl

theorem Quiet.complete (a : Acc) (uid : Nat) (o : Outcome) : Quiet a (complete a uid o) := by
  unfold Master.complete
  exact Quiet.trans (.of_outs rfl) (Quiet.emit _ _ (quietOut_of_noTx _ (by intro d b h; cases h) (by simp [IsDelivery])))

theorem Quiet.taskOnError (a : Acc) (dest : Nat) (t : Task) (e : TaskErr) : Quiet a (taskOnError a dest t e) := by
  unfold Master.taskOnError
  repeat' split
  all_goals first | exact Quiet.modAssoc _ _ _ | exact Quiet.complete _ _ _ | exact Quiet.refl _

theorem Quiet.foldl {α : Type} (f : Acc → α → Acc) (hf : ∀ a x, Quiet a (f a x)) (l : List α) :
    ∀ a, Quiet a (l.foldl f a) := by
  induction l with
  | nil => intro a; exact .refl a
  | cons x xs ih => intro a; exact (hf a x).trans (ih _)

theorem Quiet.tsReportError (a : Acc) (dest : Nat) (uid : Option Nat) (o : Outcome) : Quiet a (tsReportError a dest uid o) := by
  unfold Master.tsReportError
  split
  · exact Quiet.modAssoc _ _ _
  · exact Quiet.complete _ _ _

theorem Quiet.startTask (a : Acc) (dest : Nat) (t : Task) : Quiet a (startTask a dest t).1 := by
  unfold Master.startTask
  split
  · split
    · exact .refl _
    · exact Quiet.tsReportError _ _ _ _
  · exact .refl _

theorem Quiet.priorityTask (fuel : Nat) : ∀ (a : Acc) (addr : Nat), Quiet a (priorityTask fuel a addr).1 := by
  induction fuel with
  | zero => intro a addr; exact .refl _
  | succ n ih =>
    intro a addr
    unfold Master.priorityTask
    cases hx : a.1.getAssoc addr with
    | none => exact .refl _
    | some x =>
      simp only
      cases hq : x.queue with
      | nil => exact .refl _
      | cons t rest =>
        simp only
        have hb := Quiet.startTask (Master.modAssoc a addr fun y => { y with queue := rest }) addr t
        cases hs : Master.startTask (Master.modAssoc a addr fun y => { y with queue := rest }) addr t with
        | mk b ot =>
          rw [hs] at hb
          cases ot with
          | some tk' => exact (Quiet.modAssoc _ _ _).trans hb
          | none => exact ((Quiet.modAssoc _ _ _).trans hb).trans (ih b addr)

theorem Quiet.assocNextTask (fuel : Nat) : ∀ (a : Acc) (addr : Nat), Quiet a (assocNextTask fuel a addr).1 := by
  induction fuel with
  | zero =>
    intro a addr
    exact Quiet.emit _ _ (quietOut_of_noTx _ (by intro d b h; cases h) (by simp [IsDelivery]))
  | succ n ih =>
    intro a addr
    unfold Master.assocNextTask
    cases hx : a.1.getAssoc addr with
    | none => exact .refl _
    | some x =>
      simp only
      cases hn : x.getNextTask a.1.now with
      | none => exact .refl _
      | notBefore t' => exact .refl _
      | now tk =>
        simp only
        have hb := Quiet.startTask a addr tk
        cases hs : Master.startTask a addr tk with
        | mk b ot =>
          rw [hs] at hb
          cases ot with
          | some tk' => exact hb
          | none => exact hb.trans (ih b addr)

theorem Quiet.phase1 (ring : List Nat) : ∀ a : Acc, Quiet a (phase1 ring a).1 := by
  induction ring with
  | nil => intro a; exact .refl _
  | cons addr rest ih =>
    intro a
    unfold Master.phase1
    cases hx : a.1.getAssoc addr with
    | none => exact ih a
    | some x =>
      simp only
      have hp := Quiet.priorityTask (x.queue.length + 1) a addr
      cases hs : Master.priorityTask (x.queue.length + 1) a addr with
      | mk b ot =>
        rw [hs] at hp
        cases ot with
        | some t => exact hp.trans (Quiet.rotate _ _)
        | none => exact hp.trans (ih b)

theorem Quiet.phase2 (ring : List Nat) : ∀ (e : Option Nat) (a : Acc), Quiet a (phase2 ring e a).1 := by
  induction ring with
  | nil => intro e a; exact .refl _
  | cons addr rest ih =>
    intro e a
    unfold Master.phase2
    have hp := Quiet.assocNextTask 8 a addr
    cases hs : Master.assocNextTask 8 a addr with
    | mk b nx =>
      rw [hs] at hp
      cases nx with
      | now t => exact hp.trans (Quiet.rotate _ _)
      | notBefore t => exact hp.trans (ih _ b)
      | none => exact hp.trans (ih _ b)

theorem Quiet.nextTask (a : Acc) : Quiet a (nextTask a).1 := by
  unfold Master.nextTask
  have hp := Quiet.phase1 a.1.ring a
  cases hs : Master.phase1 a.1.ring a with
  | mk b ox =>
    rw [hs] at hp
    cases ox with
    | some x => exact hp
    | none => exact hp.trans (Quiet.phase2 _ _ _)

theorem Quiet.emitNoTx (a : Acc) (o : MOut) (h : NoTx o) (hd : ¬ IsDelivery o) : Quiet a (Master.emit a o) :=
  Quiet.emit a o (quietOut_of_noTx o h hd)

theorem Quiet.endSession (a : Acc) (why : StopWhy) : Quiet a (endSession a why) := by
  unfold Master.endSession
  have hf : ∀ (l : List Assoc) (b : Acc), Quiet b (l.foldl (fun a x =>
      let a := x.queue.foldl (fun a t => Master.taskOnError a x.addr t why.err) a
      Master.modAssoc a x.addr fun y => { y with queue := [], auto := {}, integrityDone := false, lastUnsol := none }) b) := by
    intro l
    apply Quiet.foldl
    intro c x
    exact (Quiet.foldl _ (fun c t => Quiet.taskOnError c x.addr t why.err) _ c).trans (Quiet.modAssoc _ _ _)
  have h := hf a.1.assocs a
  cases why
  · exact h.trans ((Quiet.emitNoTx _ _ (by intro d b h; cases h) (by simp [IsDelivery])).trans (Quiet.setMode _ _))
  · exact h.trans ((Quiet.emitNoTx _ _ (by intro d b h; cases h) (by simp [IsDelivery])).trans (Quiet.setMode _ _))
  · exact h.trans (((Quiet.emitNoTx _ _ (by intro d b h; cases h) (by simp [IsDelivery])).trans
      (Quiet.emitNoTx _ _ (by intro d b h; cases h) (by simp [IsDelivery]))).trans (Quiet.setMode _ _))

theorem Quiet.notifyResult (a : Acc) (dest : Nat) (tt : TaskType) (fc : Nat) (res : Except TaskErr Nat) :
    Quiet a (notifyResult a dest tt fc res) := by
  unfold Master.notifyResult
  split
  · apply Quiet.emitNoTx
    · intro d b h; cases res <;> cases h
    · cases res <;> simp [IsDelivery]
  · exact .refl _

theorem Quiet.readComplete (a : Acc) (dest : Nat) (t : ReadTask) : Quiet a (readComplete a dest t) := by
  unfold Master.readComplete
  split
  all_goals first | exact Quiet.modAssoc _ _ _ | exact Quiet.complete _ _ _

theorem Quiet.finishRead (a : Acc) (dest : Nat) (t : ReadTask) (res : Except TaskErr Nat) :
    Quiet a (finishRead a dest t res) := by
  unfold Master.finishRead
  split
  · split
    · exact Quiet.readComplete _ _ _
    · exact Quiet.taskOnError _ _ _ _
  · exact Quiet.taskOnError _ _ _ _

theorem Quiet.sendRequest (a : Acc) (dest func : Nat) (objs : List Nat) (hf : func ≠ 0) :
    Quiet a (sendRequest a dest func objs).1 := by
  unfold Master.sendRequest
  split
  · exact .refl _
  · dsimp only
    split
    · exact Quiet.modAssoc _ _ _
    · exact (Quiet.modAssoc _ _ _).trans (Quiet.emit _ _ ⟨confirmsOf_tx_request _ _ _ _ hf, by simp [IsDelivery]⟩)

theorem Quiet.runSingle (a : Acc) (dest : Nat) (t : NonReadTask) (tt : TaskType) (fc0 : Nat) :
    Quiet a (runSingle a dest t tt fc0).acc := by
  have h := Quiet.sendRequest a dest t.function t.objects (function_ne_zero t)
  unfold Master.runSingle
  generalize Master.sendRequest a dest t.function t.objects = p at h
  obtain ⟨a', res⟩ := p
  cases res with
  | error e => exact h.trans (Quiet.taskOnError _ _ _ _)
  | ok seq =>
    simp only
    split
    · exact h
    · exact h.trans (Quiet.setMode _ _)

theorem Quiet.beginTask (a : Acc) (dest : Nat) (t : Task) : Quiet a (beginTask a dest t).acc := by
  unfold Master.beginTask
  split
  · exact .refl _
  · rename_i x _
    cases t with
    | linkStatus uid =>
      exact (Quiet.emitNoTx _ _ (by intro d b h; cases h) (by simp [IsDelivery])).trans (Quiet.setMode _ _)
    | read rt =>
      simp only
      have h0 := Quiet.emitNoTx a (.taskStart dest rt.taskType 1 x.seq) (by intro d b h; cases h) (by simp [IsDelivery])
      have h := Quiet.sendRequest (Master.emit a (.taskStart dest rt.taskType 1 x.seq)) dest 1 (classHeaders rt.classes) (by decide)
      generalize Master.sendRequest (Master.emit a (.taskStart dest rt.taskType 1 x.seq)) dest 1 (classHeaders rt.classes) = p at h ⊢
      obtain ⟨b, res⟩ := p
      cases res with
      | error e => exact (h0.trans h).trans (Quiet.finishRead b dest rt (.error e))
      | ok seq => exact (h0.trans h).trans (Quiet.setMode b _)
    | nonRead nt =>
      simp only
      exact (Quiet.emitNoTx _ _ (by intro d b h; cases h) (by simp [IsDelivery])).trans (Quiet.runSingle _ _ _ _ _)

/-- the main loop of `run` is quiet -/
theorem Quiet.resolve (fuel : Nat) : ∀ st : Step, Quiet st.acc (resolve fuel st) := by
  induction fuel with
  | zero =>
    intro st
    unfold Master.resolve
    cases st <;> exact Quiet.emitNoTx _ _ (by intro d b h; cases h) (by simp [IsDelivery])
  | succ n ih =>
    intro st
    unfold Master.resolve
    cases st with
    | waiting a => exact .refl _
    | stop a why => exact Quiet.endSession _ _
    | appDone a dest tt fc res =>
      simp only [Step.acc]
      have hn := Quiet.notifyResult a dest tt fc res
      cases res with
      | ok v => exact hn.trans (ih (.loop _))
      | error e =>
        simp only
        split
        · exact hn.trans (Quiet.endSession _ _)
        · exact hn.trans (ih (.loop _))
    | linkDone a uid res =>
      simp only [Step.acc]
      have hc : Quiet a (match uid with
          | some u => Master.complete a u (match res with | none => .ok | some e => .task e)
          | none => a) := by
        cases uid
        · exact .refl _
        · exact Quiet.complete _ _ _
      split
      · exact hc.trans (Quiet.endSession _ _)
      · exact hc.trans (ih (.loop _))
    | loop a =>
      simp only [Step.acc]
      have hn := Quiet.nextTask a
      generalize Master.nextTask a = p at hn ⊢
      obtain ⟨b, nx⟩ := p
      cases nx with
      | none => exact hn.trans (Quiet.setMode _ _)
      | notBefore t =>
        simp only
        split
        · exact (hn.trans (Quiet.setMode _ _)).trans (ih (.loop _))
        · exact hn.trans (Quiet.setMode _ _)
      | now x =>
        obtain ⟨dest, task⟩ := x
        simp only
        exact (hn.trans (Quiet.beginTask _ _ _)).trans (ih _)


theorem Quiet.onTime (a : Acc) : Quiet a (onTime a).acc := by
  unfold Master.onTime
  dsimp only
  split
  · split <;> exact .refl _
  · split
    · simp only [Step.acc]; exact Quiet.finishRead _ _ _ _
    · exact .refl _
  · split
    · simp only [Step.acc]; exact Quiet.taskOnError _ _ _ _
    · exact .refl _
  · split <;> exact .refl _
  · exact .refl _

theorem Quiet.onLinkMsg (a : Acc) (src : Nat) : Quiet a (onLinkMsg a src).acc := by
  unfold Master.onLinkMsg
  split <;> first | exact .refl _ | exact .of_outs rfl

theorem Quiet.onEof (a : Acc) : Quiet a (onEof a).acc := by
  unfold Master.onEof
  split
  · simp only [Step.acc]; exact Quiet.finishRead _ _ _ _
  · simp only [Step.acc]; exact Quiet.taskOnError _ _ _ _
  · exact .refl _
  · exact .refl _
  · exact .refl _

theorem Quiet.processMessage (a : Acc) (c : Bool) (m : Msg) : Quiet a (processMessage a c m).1 := by
  unfold Master.processMessage
  cases m with
  | enable on => exact .of_outs rfl
  | addAssoc addr cfg =>
    simp only
    split
    · exact Quiet.emitNoTx _ _ (by intro d b h; cases h) (by simp [IsDelivery])
    · exact (Quiet.of_outs (b := (_, a.2)) rfl).trans (Quiet.emitNoTx _ _ (by intro d b h; cases h) (by simp [IsDelivery]))
  | removeAssoc addr =>
    simp only
    refine Quiet.trans (b := match a.1.getAssoc addr with
      | some x => x.queue.foldl (fun a t => Master.taskOnError a addr t .shutdown) a
      | none => a) ?_ (.of_outs rfl)
    split
    · exact Quiet.foldl _ (fun c t => Quiet.taskOnError c addr t .shutdown) _ a
    · exact .refl _
  | queueTask addr t =>
    simp only
    split
    · exact Quiet.taskOnError _ _ _ _
    · split
      · exact Quiet.taskOnError _ _ _ _
      · split
        · exact Quiet.modAssoc _ _ _
        · exact Quiet.taskOnError _ _ _ _
  | addPoll addr period classes =>
    simp only
    split
    · exact Quiet.emitNoTx _ _ (by intro d b h; cases h) (by simp [IsDelivery])
    · exact (Quiet.modAssoc _ _ _).trans (Quiet.emitNoTx _ _ (by intro d b h; cases h) (by simp [IsDelivery]))
  | removePoll addr id => exact Quiet.modAssoc _ _ _
  | demand addr id => exact Quiet.modAssoc _ _ _

theorem Quiet.stopErr (a : Acc) (why : StopWhy) :
    Quiet a (match a.1.mode with
      | .waitRead dest t _ _ _ =>
        Step.appDone (Master.finishRead a dest t (.error why.err)) dest t.taskType 1 (.error why.err)
      | .waitNonRead dest t _ fc0 _ =>
        Step.appDone (Master.taskOnError a dest (.nonRead t) why.err) dest t.taskType fc0 (.error why.err)
      | .waitLink _ uid _ => Step.linkDone a uid (some why.err)
      | .idle _ => Step.stop a why
      | .offline => if why = StopWhy.shutdown then Step.waiting (Master.setMode (Master.emit a .taskExit) .exited) else Step.waiting a
      | .exited => Step.waiting a).acc := by
  split
  · simp only [Step.acc]; exact Quiet.finishRead _ _ _ _
  · simp only [Step.acc]; exact Quiet.taskOnError _ _ _ _
  · exact .refl _
  · exact .refl _
  · split
    · exact (Quiet.emitNoTx _ _ (by intro d b h; cases h) (by simp [IsDelivery])).trans (Quiet.setMode _ _)
    · exact .refl _
  · exact .refl _

theorem Quiet.onMessage (a : Acc) (m : Option Msg) : Quiet a (onMessage a m).acc := by
  unfold Master.onMessage
  simp only
  cases m with
  | none => exact Quiet.stopErr a .shutdown
  | some m =>
    simp only
    split
    · exact .refl _
    · exact Quiet.processMessage _ _ _
    · have hp := Quiet.processMessage a true m
      generalize Master.processMessage a true m = p at hp ⊢
      obtain ⟨b, stop⟩ := p
      cases stop with
      | true => exact hp.trans (Quiet.stopErr b .disabled)
      | false =>
        simp only
        split
        · exact hp
        · split <;> exact hp
        · exact hp

theorem Quiet.checkShutdown (a : Acc) : Quiet a (checkShutdown a) := by
  unfold Master.checkShutdown
  split
  · split
    · exact .refl _
    · exact (Quiet.onMessage a none).trans (Quiet.resolve _ _)
  · exact .refl _

/-- **one step of the master session model on anything but a received application fragment emits neither a
    delivery nor a CONFIRM** -/
theorem step_quiet (s : MState) (inp : MInput) (hin : ∀ src dst data, inp ≠ .rx src dst data) :
    Quiet (s, []) (Master.step s inp) := by
  unfold Master.step
  cases inp with
  | rx src dst data => exact absurd rfl (hin src dst data)
  | clock t => exact .of_outs rfl
  | tick ms =>
    exact ((Quiet.of_outs (b := ({ s with now := s.now + ms }, [])) rfl).trans
      ((Quiet.onTime _).trans (Quiet.resolve _ _))).trans (Quiet.checkShutdown _)
  | rxLink src dst ctrl =>
    simp only
    split
    · exact .refl _
    · split
      · exact .refl _
      · exact .refl _
      · split
        · exact ((Quiet.onLinkMsg _ _).trans (Quiet.resolve _ _)).trans (Quiet.checkShutdown _)
        · split
          · exact (((Quiet.emitNoTx _ _ (by intro d b h; cases h) (by simp [IsDelivery])).trans (Quiet.onLinkMsg _ _)).trans
              (Quiet.resolve _ _)).trans (Quiet.checkShutdown _)
          · exact .refl _
  | msg m => exact ((Quiet.onMessage _ _).trans (Quiet.resolve _ _)).trans (Quiet.checkShutdown _)
  | user addr t =>
    exact ((Quiet.of_outs (b := ({ s with live := s.live + 1 }, [])) rfl).trans
      ((Quiet.onMessage _ _).trans (Quiet.resolve _ _))).trans (Quiet.checkShutdown _)
  | eof => exact ((Quiet.onEof _).trans (Quiet.resolve _ _)).trans (Quiet.checkShutdown _)
  | connect =>
    simp only
    split
    · split
      · exact (Quiet.resolve _ (.loop (s, []))).trans (Quiet.checkShutdown _)
      · exact .refl _
    · exact .refl _
  | dropHandles => exact (Quiet.of_outs (b := ({ s with shutdownReq := true }, [])) rfl).trans (Quiet.checkShutdown _)

/-- **one step on a received application fragment**: either the fragment is dropped before the session sees it
    (nothing happens), or the step's outputs are those of the fragment handler `onFragment` followed by quiet ones -/
theorem step_rx_quiet (s : MState) (src dst : Nat) (frag : List Nat) :
    Master.step s (.rx src dst frag) = (s, []) ∨
    Quiet (onFragment (s, []) src frag).acc (Master.step s (.rx src dst frag)) := by
  unfold Master.step
  simp only
  split
  · exact .inl rfl
  · exact .inr ((Quiet.resolve _ _).trans (Quiet.checkShutdown _))

/-- … and it is not dropped when it is addressed to the master, comes from a unicast address, is not empty and
    fits the receive buffer -/
theorem step_rx_not_dropped_quiet (s : MState) (src : Nat) (frag : List Nat)
    (hsrc : src < 0xFFF0) (hne : frag.isEmpty = false) (hlen : frag.length ≤ 2048) :
    Quiet (onFragment (s, []) src frag).acc (Master.step s (.rx src masterAddr frag)) := by
  unfold Master.step
  have hg : ¬ (masterAddr ≠ masterAddr ∨ src ≥ 0xFFF0 ∨ frag.isEmpty = true ∨ frag.length > 2048) := by
    rw [hne]
    simp only [ne_eq, not_true_eq_false, false_or, Bool.false_eq_true, not_or]
    omega
  simp only [hg, if_false]
  exact (Quiet.resolve _ _).trans (Quiet.checkShutdown _)

/-- the deliveries and the confirms among a list of outputs that extends another one quietly are the same -/
theorem confirmsOf_quiet (l : List MOut) (q : ∀ o ∈ l, QuietOut o) : confirmsOf l = [] := by
  induction l with
  | nil => rfl
  | cons o l ih =>
    have h1 := (q o (List.mem_cons_self ..)).1
    have h2 := ih (fun x hx => q x (List.mem_cons_of_mem _ hx))
    have : confirmsOf (o :: l) = confirmsOf [o] ++ confirmsOf l := confirmsOf_append [o] l
    rw [this, h1, h2]; rfl

theorem Quiet.confirms {a b : Acc} (h : Quiet a b) : confirmsOf b.2 = confirmsOf a.2 := by
  obtain ⟨l, e, q⟩ := h
  rw [e, confirmsOf_append, confirmsOf_quiet l q, List.append_nil]

theorem Quiet.delivery {a b : Acc} (h : Quiet a b) (o : MOut) (ho : o ∈ b.2) (hd : IsDelivery o) : o ∈ a.2 := by
  obtain ⟨l, e, q⟩ := h
  rw [e] at ho
  rcases List.mem_append.mp ho with h | h
  · exact h
  · exact absurd hd (q o h).2

/-- **the confirms of one step of the master session model**: none, unless the input is an application fragment
    that reaches the session and parses as a response — then exactly `expectedConfirms` (the READ rule, the
    non-READ rule or the unsolicited rule of C15 `confirm_exactly_when`) -/
theorem step_confirms (s : MState) (inp : MInput) :
    confirmsOf (Master.step s inp).2 =
      (match inp with
       | .rx src dst frag =>
         if dst ≠ masterAddr ∨ src ≥ 0xFFF0 ∨ frag.isEmpty = true ∨ frag.length > 2048 then []
         else (match parseResponse frag with
           | some r => expectedConfirms s src r
           | none => [])
       | _ => []) := by
  by_cases hin : ∀ src dst data, inp ≠ .rx src dst data
  · have h := (step_quiet s inp hin).confirms
    rw [h]
    cases inp <;> first | rfl | exact absurd rfl (hin _ _ _)
  · have : ∃ src dst data, inp = .rx src dst data := by
      apply Classical.byContradiction
      intro hn
      exact hin (fun src dst data e => hn ⟨src, dst, data, e⟩)
    obtain ⟨src, dst, frag, rfl⟩ := this
    simp only
    split
    · rename_i hg
      unfold Master.step
      simp only [hg, if_true]
      rfl
    · rename_i hg
      have hq : Quiet (onFragment (s, []) src frag).acc (Master.step s (.rx src dst frag)) := by
        unfold Master.step
        simp only [hg, if_false]
        exact (Quiet.resolve _ _).trans (Quiet.checkShutdown _)
      rw [hq.confirms]
      cases hp : parseResponse frag with
      | some r => exact confirm_exactly_when s src frag r hp
      | none =>
        simp only
        have : confirmsOf (Step.outs (onFragment (s, []) src frag)) = [] := by
          unfold onFragment
          cases hm : s.mode <;>
            simp only [hp, Step.outs, Step.acc, finishRead_confirms, taskOnError_confirms] <;> rfl
        exact this

end Dnp3.Proofs.C02MasterQuiet
