import Dnp3.Proofs.OutstationC03A
import Dnp3.Proofs.C02Static
import Dnp3.Proofs.NoPanicOutstationDb
import Dnp3.Model.Pair
/-!
# C02 — states reachable in the pair model; the class-0 database hypotheses hold in all of them

* `Pair.ReachableVia ok …` / `Pair.Reachable …`: the states `Pair.step` reaches from `Pair.start …` over
  inputs satisfying `ok` (over any inputs).
* `step_keeps` / `reachable_keeps`: an induction principle for `Pair.step`: a predicate on pair states that
  every activation of an endpoint keeps (`mstep`, `ostep`) and that does not look at the wire, the
  virtual time or the master's clock base is kept by every op (`PairInv`).
* `step_dbInv`: a predicate on databases kept by the six operations the outstation session applies on
  its own (`select`, `writeResponse`, `writeUnsolicited`, `clearWritten`, `reset`, `update`) is kept by
  `Outstation.step` for every input; an `add` input needs the predicate to be kept by that `add`.
* `reachable_outstation`: the outstation component of a reachable pair state is `Outstation.Reachable`.
* `reachable_class0_hyps`: the class-0 hypotheses (`StaticSorted`, `PairDb`) hold of the outstation
  database of every pair state reachable by ops that add binary / analog inputs only (`AddsBinAn`).
-/
namespace Dnp3.Pair
open Dnp3

/-- the states `Pair.step` reaches from `Pair.start …` over inputs satisfying `ok` -/
inductive ReachableVia (ok : PInput → Prop) (ocfg : OCfg) (evMax : Nat) (env : OEnv) (txSize : Nat)
    (acfg : Master.ACfg) (base : Option Nat) (dm2o do2m : Nat) : PState → Prop where
  | start : ReachableVia ok ocfg evMax env txSize acfg base dm2o do2m
      (Pair.start ocfg evMax env txSize acfg base dm2o do2m).1
  | step (s : PState) (i : PInput) : ok i → ReachableVia ok ocfg evMax env txSize acfg base dm2o do2m s →
      ReachableVia ok ocfg evMax env txSize acfg base dm2o do2m (Pair.step s i).1

/-- the states reachable from `Pair.start …` by `Pair.step` over ANY inputs -/
abbrev Reachable (ocfg : OCfg) (evMax : Nat) (env : OEnv) (txSize : Nat)
    (acfg : Master.ACfg) (base : Option Nat) (dm2o do2m : Nat) : PState → Prop :=
  ReachableVia (fun _ => True) ocfg evMax env txSize acfg base dm2o do2m

/-- the op adds points as binary / analog inputs only (every other op is unrestricted) -/
def AddsBinAn : PInput → Prop
  | .add t _ _ => t = .binary ∨ t = .analog
  | .addMany t _ _ _ => t = .binary ∨ t = .analog
  | _ => True

theorem ReachableVia.mono {ok ok' : PInput → Prop} (h : ∀ i, ok i → ok' i) {ocfg : OCfg} {evMax : Nat} {env : OEnv}
    {txSize : Nat} {acfg : Master.ACfg} {base : Option Nat} {dm2o do2m : Nat} {s : PState}
    (hr : ReachableVia ok ocfg evMax env txSize acfg base dm2o do2m s) :
    ReachableVia ok' ocfg evMax env txSize acfg base dm2o do2m s := by
  induction hr with
  | start => exact .start
  | step s i hi _ ih => exact .step s i (h i hi) ih

/-- the state after a run of ops all satisfying `ok` is reachable -/
theorem ReachableVia.run {ok : PInput → Prop} {ocfg : OCfg} {evMax : Nat} {env : OEnv}
    {txSize : Nat} {acfg : Master.ACfg} {base : Option Nat} {dm2o do2m : Nat} (ops : List PInput) :
    ∀ {s : PState}, ReachableVia ok ocfg evMax env txSize acfg base dm2o do2m s → (∀ op ∈ ops, ok op) →
      ReachableVia ok ocfg evMax env txSize acfg base dm2o do2m (Pair.run s ops).1 := by
  induction ops with
  | nil => intro s h _; exact h
  | cons i is ih =>
    intro s h hok
    exact ih (.step s i (hok i (List.mem_cons_self ..)) h) (fun o ho => hok o (List.mem_cons_of_mem _ ho))

end Dnp3.Pair

namespace Dnp3.Proofs.C02Reach
open Dnp3 Dnp3.DbM Dnp3.DbProofs Dnp3.Pair Dnp3.Proofs.Skel Dnp3.Proofs.C03 Dnp3.Proofs.C02Static

/-! ## an induction principle for `Pair.step` -/

/-- which `add` inputs of the outstation an op of the pair model produces -/
def addsOf : PInput → OInput → Prop
  | .add t idx cls, i => i = .add t idx cls
  | .addMany t start count cls, i => ∃ k, k < count ∧ i = .add t (start + k) cls
  | _, _ => False

/-- `Q` is kept by every activation of the master, by every activation of the outstation on an input
    satisfying `okO`, and does not depend on the wire / virtual time / clock base -/
structure PairInv (okO : OInput → Prop) (Q : PState → Prop) : Prop where
  m : ∀ (s : PState) (i : Master.MInput), Q s → Q (mstep s i).1
  o : ∀ (s : PState) (i : OInput), okO i → Q s → Q (ostep s i).1
  same : ∀ (s s' : PState), s'.m = s.m → s'.o = s.o → s'.env = s.env → Q s → Q s'

/-- every outstation input except `add` -/
structure OkBase (okO : OInput → Prop) : Prop where
  rx : ∀ src dst data, okO (.rx src dst data)
  tick : ∀ ms, okO (.tick ms)
  txn : ∀ items, okO (.txn items)
  cut : okO .cut
  script : ∀ f, okO (.setScript f)

section
variable {okO : OInput → Prop} {Q : PState → Prop}

theorem enqM_keeps (K : PairInv okO Q) (outs : List Master.MOut) : ∀ s : PState, Q s → Q (enqM s outs) := by
  unfold enqM
  induction outs with
  | nil => intro s h; exact h
  | cons o outs ih =>
    intro s h
    simp only [List.foldl_cons]
    apply ih
    cases o <;> first | exact h | exact K.same s _ rfl rfl rfl h

theorem enqO_keeps (K : PairInv okO Q) (outs : List OOut) : ∀ s : PState, Q s → Q (enqO s outs) := by
  unfold enqO
  induction outs with
  | nil => intro s h; exact h
  | cons o outs ih =>
    intro s h
    simp only [List.foldl_cons]
    apply ih
    cases o <;> first | exact h | exact K.same s _ rfl rfl rfl h

theorem foldO_keeps (K : PairInv okO Q) (B : OkBase okO) (items : List Item) : ∀ (p : PState × List OOut), Q p.1 →
    Q (items.foldl (fun (p : PState × List OOut) it =>
      match it.p with
      | .frag src dst data => let (s', x) := ostep p.1 (.rx src dst data); (s', p.2 ++ x)
      | .link .. => p) p).1 := by
  induction items with
  | nil => intro p h; exact h
  | cons it items ih =>
    intro p h
    simp only [List.foldl_cons]
    cases hp : it.p with
    | frag src dst data =>
      simp only []
      exact ih ((ostep p.1 (.rx src dst data)).1, p.2 ++ (ostep p.1 (.rx src dst data)).2) (K.o p.1 _ (B.rx ..) h)
    | link c d sr =>
      simp only []
      exact ih p h

theorem foldM_keeps (K : PairInv okO Q) (items : List Item) : ∀ (p : PState × List Master.MOut), Q p.1 →
    Q (items.foldl (fun (p : PState × List Master.MOut) it =>
      match it.p with
      | .frag src dst data => let (s', x) := mstep p.1 (.rx src dst data); (s', p.2 ++ x)
      | .link c dst src => let (s', x) := mstep p.1 (.rxLink src dst c); (s', p.2 ++ x)) p).1 := by
  induction items with
  | nil => intro p h; exact h
  | cons it items ih =>
    intro p h
    simp only [List.foldl_cons]
    cases hp : it.p with
    | frag src dst data =>
      simp only []
      exact ih ((mstep p.1 (.rx src dst data)).1, p.2 ++ (mstep p.1 (.rx src dst data)).2) (K.m p.1 (.rx src dst data) h)
    | link c d sr =>
      simp only []
      exact ih ((mstep p.1 (.rxLink sr d c)).1, p.2 ++ (mstep p.1 (.rxLink sr d c)).2) (K.m p.1 (.rxLink sr d c) h)

theorem deliverItems_keeps (K : PairInv okO Q) (B : OkBase okO) (s : PState) (toO : Bool) (items : List Item)
    (h : Q s) : Q (deliverItems s toO items).1 := by
  unfold deliverItems
  cases toO with
  | true =>
    simp only [if_true]
    have := foldO_keeps K B items (s, []) h
    generalize (items.foldl (fun (p : PState × List OOut) it =>
      match it.p with
      | .frag src dst data => let (s', x) := ostep p.1 (.rx src dst data); (s', p.2 ++ x)
      | .link .. => p) (s, [])) = r at this
    obtain ⟨s1, outs⟩ := r
    exact enqO_keeps K outs s1 this
  | false =>
    simp only [Bool.false_eq_true, if_false]
    have := foldM_keeps K items (s, []) h
    generalize (items.foldl (fun (p : PState × List Master.MOut) it =>
      match it.p with
      | .frag src dst data => let (s', x) := mstep p.1 (.rx src dst data); (s', p.2 ++ x)
      | .link c dst src => let (s', x) := mstep p.1 (.rxLink src dst c); (s', p.2 ++ x)) (s, [])) = r at this
    obtain ⟨s1, outs⟩ := r
    exact enqM_keeps K outs s1 this

theorem pump_keeps (K : PairInv okO Q) (B : OkBase okO) (fuel : Nat) : ∀ (s : PState) (g : List Group), Q s →
    Q (pump fuel s g).1 := by
  induction fuel with
  | zero => intro s g h; exact h
  | succ n ih =>
    intro s g h
    unfold pump
    simp only []
    split
    · exact ih _ _ (deliverItems_keeps K B _ true _ (K.same s _ rfl rfl rfl h))
    · split
      · exact ih _ _ (deliverItems_keeps K B _ false _ (K.same s _ rfl rfl rfl h))
      · exact h

theorem forceDeliver_keeps (K : PairInv okO Q) (B : OkBase okO) (s : PState) (toO : Bool) (n : Option Nat) (h : Q s) :
    Q (forceDeliver s toO n).1 := by
  cases toO with
  | true =>
    let c := match n with | none => s.m2o.octets | some n => min s.m2o.octets (s.m2o.consumed + n)
    let pc := popCovered c s.m2o.q
    let s1 : PState := { s with m2o := { s.m2o with q := pc.2.1, consumed := pc.2.2 } }
    have e : forceDeliver s true n = deliverItems s1 true pc.1 := rfl
    rw [e]
    exact deliverItems_keeps K B s1 true pc.1 (K.same s _ rfl rfl rfl h)
  | false =>
    let c := match n with | none => s.o2m.octets | some n => min s.o2m.octets (s.o2m.consumed + n)
    let pc := popCovered c s.o2m.q
    let s1 : PState := { s with o2m := { s.o2m with q := pc.2.1, consumed := pc.2.2 } }
    have e : forceDeliver s false n = deliverItems s1 false pc.1 := rfl
    rw [e]
    exact deliverItems_keeps K B s1 false pc.1 (K.same s _ rfl rfl rfl h)

theorem advance_keeps (K : PairInv okO Q) (B : OkBase okO) (s : PState) (d : Nat) (h : Q s) : Q (advance s d).1 := by
  let s0 : PState := { s with now := s.now + d }
  let s1 := (mstep s0 (.tick d)).1
  let mo := (mstep s0 (.tick d)).2
  let s2 := enqM s1 mo
  let s3 := (ostep s2 (.tick d)).1
  let oo := (ostep s2 (.tick d)).2
  let s4 := enqO s3 oo
  have e : (advance s d).1 = s4 := rfl
  rw [e]
  exact enqO_keeps K oo s3 (K.o _ _ (B.tick d) (enqM_keeps K mo s1 (K.m _ _ (K.same s s0 rfl rfl rfl h))))

theorem tickLoop_keeps (K : PairInv okO Q) (B : OkBase okO) (fuel : Nat) :
    ∀ (s : PState) (target : Nat) (g : List Group), Q s → Q (tickLoop fuel s target g).1 := by
  induction fuel with
  | zero => intro s target g h; exact h
  | succ n ih =>
    intro s target g h
    unfold tickLoop
    simp only []
    split
    · exact ih _ _ _ (pump_keeps K B _ _ _ (advance_keeps K B _ _ h))
    · split
      · exact pump_keeps K B _ _ _ (advance_keeps K B _ _ h)
      · exact h

theorem foldAdd_keeps (K : PairInv okO Q) (t : PtType) (start cls : Nat) (l : List Nat)
    (hl : ∀ k ∈ l, okO (.add t (start + k) cls)) : ∀ (p : PState × List OOut), Q p.1 →
    Q (l.foldl (fun (p : PState × List OOut) i =>
      let (s', x) := ostep p.1 (.add t (start + i) cls)
      (s', p.2 ++ x)) p).1 := by
  induction l with
  | nil => intro p h; exact h
  | cons i l ih =>
    intro p h
    simp only [List.foldl_cons]
    exact ih (fun k hk => hl k (List.mem_cons_of_mem _ hk))
      ((ostep p.1 (.add t (start + i) cls)).1, p.2 ++ (ostep p.1 (.add t (start + i) cls)).2)
      (K.o p.1 _ (hl i (List.mem_cons_self ..)) h)

/-- **every op keeps `Q`**, provided the `add` inputs it hands to the outstation satisfy `okO` -/
theorem step_keeps (K : PairInv okO Q) (B : OkBase okO) (s : PState) (inp : PInput)
    (hadd : ∀ i, addsOf inp i → okO i) (h : Q s) : Q (Pair.step s inp).1 := by
  cases inp with
  | add t idx cls =>
    exact pump_keeps K B _ _ _ (enqO_keeps K _ _ (K.o s _ (hadd _ rfl) h))
  | addMany t start count cls =>
    have := foldAdd_keeps K t start cls (List.range count)
      (fun k hk => hadd _ ⟨k, List.mem_range.mp hk, rfl⟩) (s, []) h
    have e : Pair.step s (.addMany t start count cls) =
        pump pumpFuel (enqO ((List.range count).foldl (fun (p : PState × List OOut) i =>
            let (s', x) := ostep p.1 (.add t (start + i) cls)
            (s', p.2 ++ x)) (s, [])).1
          ((List.range count).foldl (fun (p : PState × List OOut) i =>
            let (s', x) := ostep p.1 (.add t (start + i) cls)
            (s', p.2 ++ x)) (s, [])).2)
          [.o ((List.range count).foldl (fun (p : PState × List OOut) i =>
            let (s', x) := ostep p.1 (.add t (start + i) cls)
            (s', p.2 ++ x)) (s, [])).2] := rfl
    rw [e]
    exact pump_keeps K B _ _ _ (enqO_keeps K _ _ this)
  | txn items => exact pump_keeps K B _ _ _ (enqO_keeps K _ _ (K.o s _ (B.txn items) h))
  | script f => exact K.o s _ (B.script f) h
  | user t => exact pump_keeps K B _ _ _ (enqM_keeps K _ _ (K.m s (.user outstationAddr t) h))
  | msg m => exact pump_keeps K B _ _ _ (enqM_keeps K _ _ (K.m s (.msg m) h))
  | tick ms => exact tickLoop_keeps K B _ _ _ _ h
  | setDelay toO ms => cases toO <;> exact K.same s _ rfl rfl rfl h
  | setHold toO on =>
    cases on with
    | true => cases toO <;> exact K.same s _ rfl rfl rfl h
    | false =>
      cases toO with
      | true =>
        have e : Pair.step s (.setHold true false) =
          pump pumpFuel { s with m2o := release s.m2o s.now } [] := rfl
        rw [e]
        exact pump_keeps K B _ _ _ (K.same s _ rfl rfl rfl h)
      | false =>
        have e : Pair.step s (.setHold false false) =
          pump pumpFuel { s with o2m := release s.o2m s.now } [] := rfl
        rw [e]
        exact pump_keeps K B _ _ _ (K.same s _ rfl rfl rfl h)
  | deliver toO n =>
    have e : Pair.step s (.deliver toO n) = pump pumpFuel (forceDeliver s toO n).1 (forceDeliver s toO n).2 := rfl
    rw [e]
    exact pump_keeps K B _ _ _ (forceDeliver_keeps K B s toO n h)
  | cut =>
    let s0 : PState := { s with m2o := s.m2o.clear, o2m := s.o2m.clear }
    let s1 := (mstep s0 .eof).1
    let mo := (mstep s0 .eof).2
    let s2 := (ostep s1 .cut).1
    let oo := (ostep s1 .cut).2
    let s3 := enqO s2 oo
    let s4 := (mstep s3 .connect).1
    let mo2 := (mstep s3 .connect).2
    have e : Pair.step s .cut = pump pumpFuel (enqM s4 mo2) ([.m mo] ++ ([.o oo] ++ [.m mo2])) := rfl
    rw [e]
    exact pump_keeps K B _ _ _ (enqM_keeps K _ _ (K.m _ _ (enqO_keeps K _ _ (K.o _ _ B.cut (K.m _ _
      (K.same s s0 rfl rfl rfl h))))))
  | mclock b => exact K.same s _ rfl rfl rfl h
  | inject toO src dst data =>
    have e : Pair.step s (.inject toO src dst data) =
        if (if toO then s.m2o else s.o2m).consumed ≠ 0 then (s, [.line "bad-op"]) else
          pump pumpFuel (deliverItems s toO [⟨some s.now, 0, .frag src dst data⟩]).1
            (deliverItems s toO [⟨some s.now, 0, .frag src dst data⟩]).2 := rfl
    rw [e]
    by_cases hc : (if toO then s.m2o else s.o2m).consumed ≠ 0
    · rw [if_pos hc]; exact h
    · rw [if_neg hc]; exact pump_keeps K B _ _ _ (deliverItems_keeps K B s toO _ h)

/-- the start-up of the pair keeps `Q` from the state in which the two tasks have just been created -/
theorem start_keeps (K : PairInv okO Q) (B : OkBase okO) (ocfg : OCfg) (evMax : Nat) (env : OEnv) (txSize : Nat)
    (acfg : Master.ACfg) (base : Option Nat) (dm2o do2m : Nat)
    (h : Q { m := Master.start txSize, o := (Outstation.start ocfg evMax).1, env := env, base := base,
             m2o := { delay := dm2o }, o2m := { delay := do2m } }) :
    Q (Pair.start ocfg evMax env txSize acfg base dm2o do2m).1 := by
  let o := (Outstation.start ocfg evMax).1
  let oo := (Outstation.start ocfg evMax).2
  let s0 : PState := { m := Master.start txSize, o := o, env := env, base := base,
                       m2o := { delay := dm2o }, o2m := { delay := do2m } }
  let s1 := enqO s0 oo
  let s2 := (mstep s1 .connect).1
  let m1 := (mstep s1 .connect).2
  let s3 := enqM s2 m1
  let s4 := (mstep s3 (.msg (.addAssoc outstationAddr acfg))).1
  let m2 := (mstep s3 (.msg (.addAssoc outstationAddr acfg))).2
  have e : Pair.start ocfg evMax env txSize acfg base dm2o do2m =
      pump pumpFuel (enqM s4 m2) ([.o oo] ++ ([.m m1] ++ [.m m2])) := rfl
  rw [e]
  exact pump_keeps K B _ _ _ (enqM_keeps K _ _ (K.m _ _ (enqM_keeps K _ _ (K.m _ _ (enqO_keeps K _ _ h)))))

/-- **induction over the reachable states of the pair model** -/
theorem reachable_keeps (K : PairInv okO Q) (B : OkBase okO) {ok : PInput → Prop}
    (hok : ∀ inp, ok inp → ∀ i, addsOf inp i → okO i)
    {ocfg : OCfg} {evMax : Nat} {env : OEnv} {txSize : Nat} {acfg : Master.ACfg} {base : Option Nat} {dm2o do2m : Nat}
    (h0 : Q { m := Master.start txSize, o := (Outstation.start ocfg evMax).1, env := env, base := base,
              m2o := { delay := dm2o }, o2m := { delay := do2m } })
    {s : PState} (hr : ReachableVia ok ocfg evMax env txSize acfg base dm2o do2m s) : Q s := by
  induction hr with
  | start => exact start_keeps K B ocfg evMax env txSize acfg base dm2o do2m h0
  | step s i hi _ ih => exact step_keeps K B s i (hok i hi) ih

end

/-! ## the outstation component of a reachable pair state -/

/-- the outstation component is a state of an outstation trace from construction, under the environment the
    pair was started with -/
theorem reachable_outstation {ocfg : OCfg} {evMax : Nat} {env : OEnv} {txSize : Nat} {acfg : Master.ACfg}
    {base : Option Nat} {dm2o do2m : Nat} {s : PState}
    (hr : Pair.Reachable ocfg evMax env txSize acfg base dm2o do2m s) :
    s.env = env ∧ Outstation.Reachable ocfg evMax env s.o := by
  refine reachable_keeps (okO := fun _ => True) (Q := fun s => s.env = env ∧ Outstation.Reachable ocfg evMax env s.o)
    ?_ ⟨fun _ _ _ => trivial, fun _ => trivial, fun _ => trivial, trivial, fun _ => trivial⟩
    (fun _ _ _ _ => trivial) ⟨rfl, .start⟩ hr
  refine ⟨fun s i h => h, fun s i _ h => ⟨h.1, ?_⟩, fun s s' _ ho he h => ⟨he.trans h.1, ho ▸ h.2⟩⟩
  have : (ostep s i).1.o = (Outstation.step env s.o i).1 := by
    show (Outstation.step s.env s.o i).1 = _
    rw [h.1]
  rw [this]
  exact .step s.o i h.2

/-! ## database invariants of the outstation session -/

/-- a predicate on databases kept by the six operations the session applies on its own -/
structure DbInv (I : Db → Prop) : Prop where
  select : ∀ (db : Db) (h : ReadHdr), I db → I (db.select h).1
  write : ∀ (db : Db) (cap : Nat), I db → I (db.writeResponse cap).1
  unsol : ∀ (db : Db) (c1 c2 c3 : Bool) (cap : Nat), I db → I (db.writeUnsolicited c1 c2 c3 cap).1
  clear : ∀ db : Db, I db → I db.clearWritten.1
  reset : ∀ db : Db, I db → I db.reset
  update : ∀ (db : Db) (t : PtType) (idx : Nat) (v : Int) (f tm : Nat), I db → I (db.update t idx v f tm).1

section
variable {I : Db → Prop}

theorem DbInv.noRelease (K : DbInv I) {db0 db : Db} (h : NoRelease db0 db) (h0 : I db0) : I db := by
  induction h with
  | refl => exact h0
  | select db hd _ ih => exact K.select db hd ih
  | writeResponse db cap _ ih => exact K.write db cap ih
  | writeUnsolicited db c1 c2 c3 cap _ ih => exact K.unsol db c1 c2 c3 cap ih
  | reset db _ ih => exact K.reset db ih

theorem DbInv.star (K : DbInv I) {pf : Option Frag} {a a' : Acc} (h : Star (EvDb pf) a a') (h0 : I a.1.db) :
    I a'.1.db := by
  induction h with
  | refl => exact h0
  | tail _ r ih =>
    rcases r.2 with ⟨hn, _⟩ | ⟨_, he, _⟩
    · exact K.noRelease hn ih
    · rw [he]; exact K.clear _ ih

theorem DbInv.txnFold (K : DbInv I) (items : List TxnItem) : ∀ (p : OState × List OOut), I p.1.db →
    I (items.foldl (fun (p : OState × List OOut) it =>
      let (db, u) := match it with
        | .bin idx v flags time => p.1.db.update .binary idx (if v then 1 else 0) flags time
        | .an idx v flags time => p.1.db.update .analog idx v flags time
      ({ p.1 with db := db }, p.2 ++ [.line (updLine u)])) p).1.db := by
  induction items with
  | nil => intro p h; exact h
  | cons it items ih =>
    intro p h
    simp only [List.foldl_cons]
    apply ih
    cases it with
    | bin idx v flags time => exact K.update _ _ _ _ _ _ h
    | an idx v flags time => exact K.update _ _ _ _ _ _ h

/-- **one step of the outstation session model keeps a database invariant**: any input; for an `add` input
    the invariant has to be kept by that `Db.add` -/
theorem step_dbInv {I : Db → Prop} (K : DbInv I) (env : OEnv) (s : OState) (inp : OInput)
    (hadd : ∀ t idx cls, inp = .add t idx cls → I s.db → I (s.db.add t idx cls).1)
    (h : I s.db) : I (Outstation.step env s inp).1.db := by
  rcases clear_only_on_confirm env s inp with ⟨f, _, e⟩ | e | ⟨pf, s0, o0, hi, hr⟩
  · rw [e]; exact h
  · rw [e]; exact h
  · refine K.star hr ?_
    cases hi with
    | rx src dst data b hb => exact h
    | tick ms => exact h
    | txn items => exact K.txnFold items (s, []) h
    | add t idx cls => exact hadd t idx cls rfl h
    | cut => exact K.reset _ h

end

/-! ## the class-0 hypotheses -/

/-! ### `selCap` never changes; indices stay below 65536 -/

theorem pushSel_selCap (db : Db) (it : SelItem) : (db.pushSel it).1.selCap = db.selCap := by
  unfold Db.pushSel; split <;> rfl

theorem selectStatic_selCap (db : Db) (t : PtType) (var : Option Nat) (range : Option (Nat × Nat)) :
    (db.selectStatic t var range).1.selCap = db.selCap := by
  unfold Db.selectStatic
  split
  · rfl
  · rw [pushSel_selCap]; rfl

theorem selectClass0_selCap (db : Db) : db.selectClass0.1.selCap = db.selCap := by
  rw [selectClass0_foldl]
  have key : ∀ (l : List PtType) (p : Db × Nat), (l.foldl czStep p).1.selCap = p.1.selCap := by
    intro l
    induction l with
    | nil => intro p; rfl
    | cons t l ih =>
      intro p
      simp only [List.foldl_cons]
      rw [ih]
      unfold czStep
      split
      · exact selectStatic_selCap _ _ _ _
      · rfl
  exact key _ _

theorem select_selCap (db : Db) (h : ReadHdr) : (db.select h).1.selCap = db.selCap := by
  unfold Db.select
  split
  · exact selectClass0_selCap db
  · rfl
  · rfl
  · rfl
  · exact selectStatic_selCap db _ _ _
  · split
    · rfl
    · exact pushSel_selCap db _
  · rfl
  · split <;> rfl
  · split
    · rfl
    · split
      · split <;> rfl
      · rfl
  · rfl
  · rfl
  · rfl

theorem writeResponse_selCap (db : Db) (cap : Nat) : (db.writeResponse cap).1.selCap = db.selCap := by
  obtain ⟨_, _, _, _, _, _, _, _, _, _, _, _, h13, _⟩ := writeEvents_spec db cap
  unfold Db.writeResponse
  simp only []
  split <;> exact h13

theorem writeUnsolicited_selCap (db : Db) (c1 c2 c3 : Bool) (cap : Nat) :
    (db.writeUnsolicited c1 c2 c3 cap).1.selCap = db.selCap := by
  unfold Db.writeUnsolicited
  simp only []
  split
  · rfl
  · obtain ⟨_, _, _, _, _, _, _, _, _, _, _, _, h13, _⟩ := writeEvents_spec
      { db.reset with events := (selectEvents (fun r => (c1 && r.cls == 1) || (c2 && r.cls == 2) || (c3 && r.cls == 3)) none none db.reset.events).1 } cap
    exact h13

theorem clearWritten_selCap (db : Db) : db.clearWritten.1.selCap = db.selCap := by
  unfold Db.clearWritten
  simp only []
  split <;> rfl

theorem insert_selCap (db : Db) (idx cls : Nat) (t : PtType) (m : Meas) (dv : Nat) :
    (db.insert idx cls t m dv).1.selCap = db.selCap := by
  rcases insert_cases db idx cls t m dv with ⟨_, he⟩ | ⟨_, _, _, _, _, he⟩ | ⟨_, _, he⟩ <;> rw [he]

theorem updateOpt_selCap (db : Db) (t : PtType) (idx : Nat) (m : Meas) (o : UpdOpts) :
    (db.updateOpt t idx m o).1.selCap = db.selCap := by
  unfold Db.updateOpt
  cases pmLookup (db.getMutMap t) idx with
  | none => rfl
  | some p =>
    simp only []
    split
    · split
      · rfl
      · have h2 := insert_selCap (db.setMutMap t (pmSet (db.getMutMap t) idx
          { (if o.updateStatic = true then { p with current := m } else p) with lastEvent := m })) idx p.cls t m p.evar
        split <;> rename_i heq <;> (rw [heq] at h2; exact h2)
    · rfl

theorem add_selCap (db : Db) (t : PtType) (idx cls : Nat) : (db.add t idx cls).1.selCap = db.selCap := by
  unfold Db.add Db.addCfg
  split <;> rfl

theorem step_selCap (db : Db) (op : DbOp) : (DbProofs.step db op).selCap = db.selCap := by
  cases op with
  | add t idx cls => exact add_selCap db t idx cls
  | update t idx v f tm => unfold DbProofs.step Db.update; exact updateOpt_selCap ..
  | select hd => exact select_selCap db hd
  | write cap => exact writeResponse_selCap db cap
  | unsol c1 c2 c3 cap => exact writeUnsolicited_selCap db c1 c2 c3 cap
  | clear => exact clearWritten_selCap db
  | reset => rfl

/-- every index of every map is a u16 -/
def KeysLt (db : Db) : Prop := ∀ t, ∀ p ∈ db.map t, p.1 < 65536

theorem CfgSame.keysLt {db db' : Db} (h : CfgSame db db') (hk : KeysLt db) : KeysLt db' := by
  intro t p hp
  have : (p.1, p.2.svar) ∈ (db'.map t).map (fun x => (x.1, x.2.svar)) := List.mem_map.mpr ⟨p, hp, rfl⟩
  rw [h.1 t] at this
  obtain ⟨q, hq, e⟩ := List.mem_map.mp this
  have e1 : q.1 = p.1 := (Prod.mk.inj e).1
  rw [← e1]
  exact hk t q hq

theorem add_keysLt (db : Db) (hs : StaticSorted db) (t : PtType) (idx cls : Nat) (hk : KeysLt db) :
    KeysLt (db.add t idx cls).1 := by
  unfold Db.add Db.addCfg
  simp only [Db.getMutMap_eq', Db.setMutMap_eq']
  cases h : pmInsert (db.map t) (idx % 65536)
      { current := defaultMeas t, selected := defaultMeas t, lastEvent := defaultMeas t,
        cls := normClass cls, svar := addStaticVar t, evar := addEventVar t, deadband := idx / 65536 } with
  | none => exact hk
  | some m =>
    simp only []
    have hmem := (pmInsert_spec _ _ _ _ h (hs t)).2
    intro u p hp
    rw [Db.map_setMap'] at hp
    split at hp
    · rcases (hmem p).mp hp with rfl | hpm
      · exact Nat.mod_lt _ (by decide)
      · exact hk t p hpm
    · exact hk u p hp

theorem keysLt_step (db : Db) (op : DbOp) (hs : StaticSorted db) (hk : KeysLt db) : KeysLt (DbProofs.step db op) := by
  cases op with
  | add t idx cls => exact add_keysLt db hs t idx cls hk
  | update t idx v f tm => exact CfgSame.keysLt (update_cfg db hs t idx v f tm) hk
  | select hd => exact CfgSame.keysLt (select_cfg db hd) hk
  | write cap =>
    obtain ⟨_, h2, h3, _⟩ := writeResponse_static db hs cap
    exact CfgSame.keysLt (CfgSame.of_selView h2 h3) hk
  | unsol c1 c2 c3 cap =>
    obtain ⟨h1, h2⟩ := writeUnsolicited_maps db c1 c2 c3 cap
    exact CfgSame.keysLt (CfgSame.of_maps h1 h2) hk
  | clear =>
    obtain ⟨_, _, _, _, _, _, _, _, h9, h10⟩ := clear_spec db
    exact CfgSame.keysLt (CfgSame.of_maps h9 h10) hk
  | reset => exact CfgSame.keysLt (CfgSame.of_maps (db := db) (db' := db.reset) rfl rfl) hk

/-- sorted maps, the five facts of `PairDb`, room for the two class-0 selections, u16 indices -/
def Class0Db (db : Db) : Prop := StaticSorted db ∧ PairDb db ∧ 2 ≤ db.selCap ∧ KeysLt db

theorem class0Db_step (db : Db) (op : DbOp) (hop : ∀ t idx cls, op = .add t idx cls → t = .binary ∨ t = .analog)
    (h : Class0Db db) : Class0Db (DbProofs.step db op) :=
  ⟨sorted_step db op h.1, pairDb_step db op hop h.1 h.2.1, by rw [step_selCap]; exact h.2.2.1,
    keysLt_step db op h.1 h.2.2.2⟩

theorem class0Db_inv : DbInv Class0Db where
  select db hd h := class0Db_step db (.select hd) (fun _ _ _ e => by cases e) h
  write db cap h := class0Db_step db (.write cap) (fun _ _ _ e => by cases e) h
  unsol db c1 c2 c3 cap h := class0Db_step db (.unsol c1 c2 c3 cap) (fun _ _ _ e => by cases e) h
  clear db h := class0Db_step db .clear (fun _ _ _ e => by cases e) h
  reset db h := class0Db_step db .reset (fun _ _ _ e => by cases e) h
  update db t idx v f tm h := class0Db_step db (.update t idx v f tm) (fun _ _ _ e => by cases e) h

theorem class0Db_add (db : Db) (t : PtType) (idx cls : Nat) (ht : t = .binary ∨ t = .analog) (h : Class0Db db) :
    Class0Db (db.add t idx cls).1 :=
  class0Db_step db (.add t idx cls) (fun _ _ _ e => by cases e; exact ht) h

theorem class0Db_new (n : Nat) (sel : Option Nat) : Class0Db (Db.new (legacyEv n) sel) := by
  refine ⟨new_sorted _ sel, class0_hyps_reachable n sel [] (fun _ h => by cases h), ?_, ?_⟩
  · unfold Db.new Db.newCfg
    cases sel with
    | none => simp [defaultMaxReadHeaders]
    | some k => simp only [defaultMaxReadHeaders]; omega
  · intro t p hp
    have : (Db.new (legacyEv n) sel).map t = [] := by cases t <;> rfl
    rw [this] at hp; cases hp

/-- the start-up pass of the outstation task keeps the class-0 hypotheses of the fresh database -/
theorem class0Db_start (ocfg : OCfg) (n : Nat) : Class0Db (Outstation.start ocfg (legacyEv n)).1.db := by
  have hr := Dnp3.Proofs.Skel.start_reach ocfg (legacyEv n)
  exact class0Db_inv.star (Reach.evDb hr) (class0Db_new n none)

/-- the outstation inputs that add a point add a binary / analog input -/
def OAddsBinAn : OInput → Prop
  | .add t _ _ => t = .binary ∨ t = .analog
  | _ => True

/-- **one step of the outstation session model keeps the class-0 hypotheses**, whatever the input, as long
    as it does not add a point of another type than binary / analog input -/
theorem step_class0Db (env : OEnv) (s : OState) (inp : OInput) (hinp : OAddsBinAn inp) (h : Class0Db s.db) :
    Class0Db (Outstation.step env s inp).1.db :=
  step_dbInv class0Db_inv env s inp (fun t idx cls e _ => class0Db_add s.db t idx cls (by subst e; exact hinp) h) h

/-- **the class-0 hypotheses hold of the outstation database of every pair state reachable by ops that add
    binary / analog inputs only** (event buffer configuration `legacyEv n`: the `pair` engine's) -/
theorem reachable_class0Db {ocfg : OCfg} {n : Nat} {env : OEnv} {txSize : Nat} {acfg : Master.ACfg}
    {base : Option Nat} {dm2o do2m : Nat} {s : PState}
    (hr : ReachableVia AddsBinAn ocfg (legacyEv n) env txSize acfg base dm2o do2m s) : Class0Db s.o.db := by
  refine reachable_keeps (okO := OAddsBinAn) (Q := fun s => Class0Db s.o.db)
    ⟨fun s i h => h, fun s i hi h => step_class0Db s.env s.o i hi h, fun s s' _ ho _ h => ho ▸ h⟩
    ⟨fun _ _ _ => trivial, fun _ => trivial, fun _ => trivial, trivial, fun _ => trivial⟩
    ?_ (class0Db_start ocfg n) hr
  intro inp hinp i hi
  cases inp with
  | add t idx cls => cases hi; exact hinp
  | addMany t start count cls => obtain ⟨k, _, rfl⟩ := hi; exact hinp
  | _ => cases hi

end Dnp3.Proofs.C02Reach
