import Dnp3.Model.OutstationTrace
/-!
# IIN octets built by `getResponseIin` — bit-level facts (used by C13)

`Db.*` is treated as opaque throughout: nothing here unfolds a `Db` function.
-/
namespace Dnp3.Proofs.Iin
open Dnp3

-- safety net: the database interface is opaque in every proof of this development
attribute [local irreducible] Db.new Db.add Db.update Db.readSupported Db.select Db.writeResponse
  Db.writeUnsolicited Db.clearWritten Db.reset Db.unwrittenClasses Db.isOverflown

theorem and_two_pow_ne_zero (a k : Nat) : (a &&& 2 ^ k ≠ 0) ↔ a.testBit k = true := by
  constructor
  · intro h
    cases hb : a.testBit k with
    | true => rfl
    | false =>
      exfalso; apply h
      apply Nat.eq_of_testBit_eq
      intro i
      simp only [Nat.testBit_and, Nat.zero_testBit, Nat.testBit_two_pow]
      by_cases hik : k = i
      · subst hik; simp [hb]
      · simp [hik]
  · intro h h0
    have : (a &&& 2 ^ k).testBit k = true := by
      simp [Nat.testBit_and, h]
    rw [h0] at this
    simp at this

theorem and1 (a : Nat) : (a &&& 1 ≠ 0) ↔ a.testBit 0 = true := and_two_pow_ne_zero a 0
theorem and2 (a : Nat) : (a &&& 2 ≠ 0) ↔ a.testBit 1 = true := and_two_pow_ne_zero a 1
theorem and4 (a : Nat) : (a &&& 4 ≠ 0) ↔ a.testBit 2 = true := and_two_pow_ne_zero a 2
theorem and8 (a : Nat) : (a &&& 8 ≠ 0) ↔ a.testBit 3 = true := and_two_pow_ne_zero a 3

/-- IIN1 as a function of its eight sources (bit 0 … bit 7) -/
def iin1Of (bc c1 c2 c3 needTime localCtl trouble restart : Bool) : Nat :=
  (if bc then 0x01 else 0) + (if c1 then 0x02 else 0) + (if c2 then 0x04 else 0) + (if c3 then 0x08 else 0) +
  (if needTime then 0x10 else 0) + (if localCtl then 0x20 else 0) + (if trouble then 0x40 else 0) +
  (if restart then 0x80 else 0)

/-- IIN2 as a function of its two sources (bit 3, bit 5) -/
def iin2Of (overflow corrupt : Bool) : Nat :=
  (if overflow then 0x08 else 0) + (if corrupt then 0x20 else 0)

theorem iin1Of_bits (b0 b1 b2 b3 b4 b5 b6 b7 : Bool) :
    (iin1Of b0 b1 b2 b3 b4 b5 b6 b7).testBit 0 = b0 ∧ (iin1Of b0 b1 b2 b3 b4 b5 b6 b7).testBit 1 = b1 ∧
    (iin1Of b0 b1 b2 b3 b4 b5 b6 b7).testBit 2 = b2 ∧ (iin1Of b0 b1 b2 b3 b4 b5 b6 b7).testBit 3 = b3 ∧
    (iin1Of b0 b1 b2 b3 b4 b5 b6 b7).testBit 4 = b4 ∧ (iin1Of b0 b1 b2 b3 b4 b5 b6 b7).testBit 5 = b5 ∧
    (iin1Of b0 b1 b2 b3 b4 b5 b6 b7).testBit 6 = b6 ∧ (iin1Of b0 b1 b2 b3 b4 b5 b6 b7).testBit 7 = b7 ∧
    iin1Of b0 b1 b2 b3 b4 b5 b6 b7 < 256 := by
  revert b0 b1 b2 b3 b4 b5 b6 b7; decide

theorem iin2Of_bits (o c : Bool) :
    (iin2Of o c).testBit 3 = o ∧ (iin2Of o c).testBit 5 = c ∧
    (∀ i, i ≠ 3 → i ≠ 5 → (iin2Of o c).testBit i = false) := by
  refine ⟨by revert o c; decide, by revert o c; decide, ?_⟩
  intro i h3 h5
  by_cases h : i < 6
  · have : i = 0 ∨ i = 1 ∨ i = 2 ∨ i = 4 := by omega
    rcases this with rfl | rfl | rfl | rfl <;> revert o c <;> decide
  · apply Nat.testBit_lt_two_pow
    have : iin2Of o c < 64 := by revert o c; decide
    have : 2 ^ 6 ≤ 2 ^ i := Nat.pow_le_pow_right (by decide) (by omega)
    omega

/-- the OR-chain of `getResponseIin` equals `iin1Of` -/
theorem or_chain1 (b0 b1 b2 b3 b4 b5 b6 b7 : Bool) :
    ((((if b7 then 0x80 else 0) ||| (if b1 then 0x02 else 0) ||| (if b2 then 0x04 else 0) |||
      (if b3 then 0x08 else 0)) ||| (if b0 then 0x01 else 0)) ||| (if b4 then 0x10 else 0) |||
      (if b5 then 0x20 else 0) ||| (if b6 then 0x40 else 0) : Nat) = iin1Of b0 b1 b2 b3 b4 b5 b6 b7 := by
  revert b0 b1 b2 b3 b4 b5 b6 b7; decide

theorem or_chain2 (o c : Bool) :
    (((if o then 0x08 else 0) ||| (if c then 0x20 else 0)) : Nat) = iin2Of o c := by
  revert o c; decide

/-- the state `getResponseIin` leaves: a reported broadcast is forgotten unless it demands a confirm -/
def afterIin (s : OState) : OState :=
  match s.lastBroadcast with
  | some m => if m ≠ 1 then { s with lastBroadcast := none } else s
  | none => s

/-- Exact value of `getResponseIin`, for any database. -/
theorem getResponseIin_eq (s : OState) (c1 c2 c3 : Bool) (h : s.db.unwrittenClasses = some (c1, c2, c3)) :
    getResponseIin s = some (afterIin s,
      iin1Of s.lastBroadcast.isSome c1 c2 c3 (s.script.appIin.testBit 0) (s.script.appIin.testBit 1)
        (s.script.appIin.testBit 2) s.restart,
      iin2Of s.db.isOverflown (s.script.appIin.testBit 3)) := by
  have e1 := and1 s.script.appIin
  have e2 := and2 s.script.appIin
  have e4 := and4 s.script.appIin
  have e8 := and8 s.script.appIin
  unfold getResponseIin afterIin
  rw [h]
  rw [← or_chain1, ← or_chain2]
  cases hb : s.lastBroadcast with
  | none =>
    simp only [Option.isSome_none, Bool.false_eq_true, if_false, Nat.or_zero, e1, e2, e4, e8]
  | some m =>
    by_cases hm : m = 1
    · subst hm
      simp only [Option.isSome_some, if_true, ne_eq, not_true_eq_false, if_false, e1, e2, e4, e8]
    · simp only [Option.isSome_some, if_true, ne_eq, hm, not_false_eq_true, e1, e2, e4, e8]

theorem getResponseIin_none (s : OState) (h : s.db.unwrittenClasses = none) : getResponseIin s = none := by
  unfold getResponseIin; rw [h]

theorem getResponseIin_some (s s' : OState) (i1 i2 : Nat) (h : getResponseIin s = some (s', i1, i2)) :
    ∃ c1 c2 c3, s.db.unwrittenClasses = some (c1, c2, c3) ∧ s' = afterIin s ∧
      i1 = iin1Of s.lastBroadcast.isSome c1 c2 c3 (s.script.appIin.testBit 0) (s.script.appIin.testBit 1)
        (s.script.appIin.testBit 2) s.restart ∧
      i2 = iin2Of s.db.isOverflown (s.script.appIin.testBit 3) := by
  cases hu : s.db.unwrittenClasses with
  | none => rw [getResponseIin_none s hu] at h; cases h
  | some c =>
    obtain ⟨c1, c2, c3⟩ := c
    rw [getResponseIin_eq s c1 c2 c3 hu] at h
    injection h with h
    injection h with h1 h2
    injection h2 with h2 h3
    exact ⟨c1, c2, c3, rfl, h1.symm, h2.symm, h3.symm⟩

end Dnp3.Proofs.Iin
