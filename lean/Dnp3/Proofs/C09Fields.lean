import Dnp3.Model.Fields
namespace Dnp3.App
open Dnp3.Gen

theorem writeLE_length (w v : Nat) : (writeLE w v).length = w := by
  induction w generalizing v with
  | zero => rfl
  | succ w ih => simp [writeLE, ih]

theorem readLE_writeLE (w v : Nat) (rest : List Nat) (h : v < 256 ^ w) :
    readLE w (writeLE w v ++ rest) = some (v, rest) := by
  induction w generalizing v with
  | zero => simp [Nat.pow_zero] at h; subst h; rfl
  | succ w ih =>
    have h2 : v / 256 < 256 ^ w := by
      apply Nat.div_lt_of_lt_mul; rw [Nat.pow_succ] at h; omega
    simp only [writeLE, List.cons_append, readLE, ih _ h2]
    congr 2; omega

theorem writeFields_length (fs : List Field) (vs : List Nat) (h : wellTyped fs vs) :
    (writeFields fs vs).length = fieldsWidth fs := by
  induction fs generalizing vs with
  | nil => cases vs <;> simp [writeFields, fieldsWidth]
  | cons f fs ih =>
    cases vs with
    | nil => simp [wellTyped] at h
    | cons v vs =>
      simp only [wellTyped] at h
      simp only [writeFields, List.length_append, writeLE_length, ih vs h.2, fieldsWidth, List.map_cons, List.sum_cons]

theorem readFields_writeFields (fs : List Field) (vs rest : List Nat) (h : wellTyped fs vs) :
    readFields fs (writeFields fs vs ++ rest) = some (vs, rest) := by
  induction fs generalizing vs with
  | nil => cases vs <;> simp_all [wellTyped, writeFields, readFields]
  | cons f fs ih =>
    cases vs with
    | nil => simp [wellTyped] at h
    | cons v vs =>
      simp only [wellTyped] at h
      simp only [writeFields, List.append_assoc, readFields, readLE_writeLE _ _ _ h.1, ih vs h.2]

end Dnp3.App
