import Dnp3.Proofs.OutstationFrame
/-!
# Control skeleton of the outstation session as a small-step relation

`Ev pf a a'` — one primitive event of the session takes accumulator `a` to `a'`, where `pf` is the
fragment that was pending when the step began.  `dispatch_reach`: whatever `dispatch`/`settle`
compute is reachable by a chain of such events.  Properties are then proved per event.
-/
namespace Dnp3.Proofs.Skel
open Dnp3 Dnp3.Proofs.Frame Dnp3.Proofs.Iin

-- safety net: the database interface is opaque in every proof of this development
attribute [local irreducible] Db.new Db.add Db.update Db.readSupported Db.select Db.writeResponse
  Db.writeUnsolicited Db.clearWritten Db.reset Db.unwrittenClasses Db.isOverflown

/-- fields a READ / echo preparation leaves alone (all but `db`, `solBuf`, `select`) -/
def keepRd (s : OState) :=
  (s.cfg, s.script, s.now, s.mode, s.restart, s.en1, s.en2, s.en3, s.lastReq, s.unsol, s.unsolSeq, s.deferred,
   s.lastRecorded, s.lastBroadcast, s.unsolBuf, s.frameId, s.nextLinkStatus, s.pending, s.notified,
   s.unsolReported)

/-- first half of `handleRequestFromIdle`: what `result` is (the `Bool` beside the request record is
    the echo flag: `true` only for a repeated non-READ request) -/
inductive IdleStage1 (a : Acc) (f : Frag) (ctrl : AppCtrl) (func : Nat) (objs : Except Nat (List ObjHdr))
    (raw : List Nat) : Acc → Option (LastReq × Bool) → Prop
  | confirm : func = 0 → IdleStage1 a f ctrl func objs raw a none
  | bcast (m : Nat) (a1 : Acc) : func ≠ 0 → f.broadcast = some m →
      processBroadcast a f m ctrl func objs raw = some a1 → IdleStage1 a f ctrl func objs raw a1 none
  | nonRead (hs : List ObjHdr) (a1 : Acc) (r : Option Resp) : func ≠ 0 → func ≠ 1 → f.broadcast = none →
      objs = .ok hs → handleNonRead a func ctrl.seq f.id hs raw = some (a1, r) →
      IdleStage1 a f ctrl func objs raw a1 (some (⟨ctrl.seq, f.data, r, none⟩, false))
  | prep (s1 : OState) (lr : LastReq) : keepRd s1 = keepRd a.1 → func ≠ 0 → f.broadcast = none →
      IdleStage1 a f ctrl func objs raw (s1, a.2) (some (lr, false))
  | echo (s1 : OState) (last : Option Resp) : keepRd s1 = keepRd a.1 → func ≠ 0 → func ≠ 1 → f.broadcast = none →
      (s1 = a.1 ∨ ∃ sel, a.1.select = some sel ∧ func = 3 ∧ sel.seq = ctrl.seq ∧
        (sel.frameId + 1) % 4294967296 = f.id ∧ sel.objects = raw ∧
        s1 = { a.1 with select := some { sel with frameId := f.id } }) →
      IdleStage1 a f ctrl func objs raw (s1, a.2)
        (some (⟨ctrl.seq, f.data, last, a.1.lastReq.bind (·.series)⟩, true))

/-- second half: store `lastReq`, transmit the response if there is one (an echo goes out verbatim
    through `repeatSolicited` and the record is stored as it is) -/
def IdleStage2 (a1 : Acc) (lr : Option (LastReq × Bool)) (f : Frag) (a' : Acc) : Prop :=
  match lr with
  | none => a' = a1
  | some (lr, false) =>
    (lr.response = none ∧ ∃ lr', a' = ({ a1.1 with lastReq := some lr' }, a1.2)) ∨
    (∃ r a2 r2 lr', lr.response = some r ∧ writeSolicited a1 f.src r = some (a2, r2) ∧
      a' = ({ a2.1 with lastReq := some lr' }, a2.2))
  | some (lr, true) =>
    (lr.response = none ∧ a' = ({ a1.1 with lastReq := some lr }, a1.2)) ∨
    (∃ r, lr.response = some r ∧
      a' = ({ (repeatSolicited a1 f.src r).1 with lastReq := some lr }, (repeatSolicited a1 f.src r).2))

/-- `result` of `handleRequestFromIdle` (verbatim) -/
def idleStage1 (a : Acc) (f : Frag) (ctrl : AppCtrl) (func : Nat)
    (objects : Except Nat (List ObjHdr)) (raw : List Nat) : Option (Acc × Option (LastReq × Bool)) :=
  let seq := ctrl.seq
  match classify a.1 f ctrl func objects with
    | .malformed e => some (a, some (⟨seq, f.data, some (emptySolicited seq e), none⟩, false))
    | .newRead hs | .repeatRead _ hs =>
      let (db, iin2) := dbSelectAll a.1.db hs
      let (s, r, series) := formatReadResponse { a.1 with db := db } true seq iin2
      some ((s, a.2), some (⟨seq, f.data, some r, series⟩, false))
    | .newNonRead hs =>
      match handleNonRead a func seq f.id hs raw with
      | none => none
      | some (a, r) => some (a, some (⟨seq, f.data, r, none⟩, false))
    | .repeatNonRead last =>
      let s := a.1
      let s := match s.select with
        | some sel =>
          if func = 3 ∧ sel.seq = seq ∧ (sel.frameId + 1) % 4294967296 = f.id ∧ sel.objects = raw then
            { s with select := some { sel with frameId := f.id } }
          else s
        | none => s
      some ((s, a.2), some (⟨seq, f.data, last, s.lastReq.bind (·.series)⟩, true))
    | .broadcast mode =>
      match processBroadcast a f mode ctrl func objects raw with
      | none => none
      | some a => some (a, none)
    | .solConfirm _ | .unsolConfirm _ => some (a, none)

/-- the rest of `handleRequestFromIdle` (verbatim) -/
def idleStage2 (f : Frag) (result : Option (Acc × Option (LastReq × Bool))) : Option (Acc × Option Series) :=
  match result with
  | none => none
  | some (a, none) => some (a, none)
  | some (a, some (lr, echo)) =>
    match lr.response with
    | none => some (({ a.1 with lastReq := some lr }, a.2), lr.series)
    | some r =>
      if echo then
        let a := repeatSolicited a f.src r
        some (({ a.1 with lastReq := some lr }, a.2), lr.series)
      else
      match writeSolicited a f.src r with
      | none => none
      | some (a, r) =>
        let series := if r.ctrl.con ∧ lr.series.isNone then some ⟨r.ctrl.seq, true⟩ else lr.series
        some (({ a.1 with lastReq := some { lr with response := some r, series := series } }, a.2), series)

theorem handleRequestFromIdle_eq (a : Acc) (f : Frag) (ctrl : AppCtrl) (func : Nat)
    (objs : Except Nat (List ObjHdr)) (raw : List Nat) :
    handleRequestFromIdle a f ctrl func objs raw = idleStage2 f (idleStage1 a f ctrl func objs raw) := rfl

theorem idleStage1_cases (a : Acc) (f : Frag) (ctrl : AppCtrl) (func : Nat)
    (objs : Except Nat (List ObjHdr)) (raw : List Nat) (a1 : Acc) (lr : Option (LastReq × Bool))
    (heq : idleStage1 a f ctrl func objs raw = some (a1, lr)) : IdleStage1 a f ctrl func objs raw a1 lr := by
  unfold idleStage1 at heq
  have cf := classify_facts a.1 f ctrl func objs
  split at heq
  · rename_i e hc; rw [hc] at cf; simp only [ClassifyFacts] at cf; cases heq
    exact .prep a.1 _ rfl cf.1 cf.2.1
  · rename_i hs hc; rw [hc] at cf; simp only [ClassifyFacts] at cf; cases heq
    exact .prep _ _ rfl (by omega) cf.2.1
  · rename_i rr hs hc; rw [hc] at cf; simp only [ClassifyFacts] at cf; cases heq
    exact .prep _ _ rfl (by omega) cf.2.1
  · rename_i hs hc; rw [hc] at cf; simp only [ClassifyFacts] at cf
    dsimp only at heq
    split at heq
    · cases heq
    · rename_i a2 r hn
      cases heq
      exact .nonRead hs _ r cf.1 cf.2.1 cf.2.2.1 cf.2.2.2 hn
  · rename_i last hc; rw [hc] at cf; simp only [ClassifyFacts] at cf
    dsimp only at heq
    cases hsel : a.1.select with
    | none =>
      rw [hsel] at heq; cases heq
      exact .echo _ last rfl cf.1 cf.2.1 cf.2.2 (Or.inl rfl)
    | some sel =>
      rw [hsel] at heq
      dsimp only at heq
      by_cases hcond : func = 3 ∧ sel.seq = ctrl.seq ∧ (sel.frameId + 1) % 4294967296 = f.id ∧ sel.objects = raw
      · rw [if_pos hcond] at heq; cases heq
        exact .echo _ last rfl cf.1 cf.2.1 cf.2.2
          (Or.inr ⟨sel, hsel, hcond.1, hcond.2.1, hcond.2.2.1, hcond.2.2.2, rfl⟩)
      · rw [if_neg hcond] at heq; cases heq
        exact .echo _ last rfl cf.1 cf.2.1 cf.2.2 (Or.inl rfl)
  · rename_i m hc; rw [hc] at cf; simp only [ClassifyFacts] at cf
    dsimp only at heq
    split at heq
    · cases heq
    · rename_i a2 hp
      cases heq
      exact .bcast m _ cf.1 cf.2 hp
  · rename_i hc; rw [hc] at cf; simp only [ClassifyFacts] at cf; cases heq; exact .confirm cf.1
  · rename_i hc; rw [hc] at cf; simp only [ClassifyFacts] at cf; cases heq; exact .confirm cf.1

theorem idleStage2_cases (f : Frag) (a1 : Acc) (lr : Option (LastReq × Bool)) (a' : Acc) (ser : Option Series)
    (h : idleStage2 f (some (a1, lr)) = some (a', ser)) : IdleStage2 a1 lr f a' := by
  unfold idleStage2 at h
  cases lr with
  | none => cases h; rfl
  | some p =>
    obtain ⟨lr, echo⟩ := p
    cases echo with
    | false =>
      dsimp only at h
      split at h
      · rename_i hr
        cases h
        exact Or.inl ⟨hr, _, rfl⟩
      · rename_i r hr
        simp only [Bool.false_eq_true, if_false] at h
        split at h
        · cases h
        · rename_i a2 r2 hw
          cases h
          exact Or.inr ⟨r, a2, r2, _, hr, hw, rfl⟩
    | true =>
      dsimp only at h
      split at h
      · rename_i hr
        cases h
        exact Or.inl ⟨hr, rfl⟩
      · rename_i r hr
        simp only [if_true] at h
        cases h
        exact Or.inr ⟨r, hr, rfl⟩

theorem handleRequestFromIdle_cases (a : Acc) (f : Frag) (ctrl : AppCtrl) (func : Nat)
    (objs : Except Nat (List ObjHdr)) (raw : List Nat) (a' : Acc) (ser : Option Series)
    (h : handleRequestFromIdle a f ctrl func objs raw = some (a', ser)) :
    ∃ a1 lr, IdleStage1 a f ctrl func objs raw a1 lr ∧ IdleStage2 a1 lr f a' := by
  rw [handleRequestFromIdle_eq] at h
  cases h1 : idleStage1 a f ctrl func objs raw with
  | none => rw [h1] at h; cases h
  | some p =>
    obtain ⟨a1, lr⟩ := p
    rw [h1] at h
    exact ⟨a1, lr, idleStage1_cases _ _ _ _ _ _ _ _ h1, idleStage2_cases _ _ _ _ _ h⟩

/-! ## the event relation -/

inductive Star {α : Type} (R : α → α → Prop) : α → α → Prop
  | refl (a : α) : Star R a a
  | tail {a b c : α} : Star R a b → R b c → Star R a c

theorem Star.trans {α : Type} {R : α → α → Prop} {a b c : α} (h1 : Star R a b) (h2 : Star R b c) : Star R a c := by
  induction h2 with
  | refl => exact h1
  | tail _ r ih => exact .tail ih r

theorem Star.single {α : Type} {R : α → α → Prop} {a b : α} (h : R a b) : Star R a b := .tail (.refl a) h

/-- an invariant-style relation that is reflexive, transitive and contains `R` contains `Star R` -/
theorem Star.lift {α : Type} {R Q : α → α → Prop} (hrefl : ∀ a, Q a a)
    (htrans : ∀ a b c, Q a b → Q b c → Q a c) (hR : ∀ a b, R a b → Q a b) {a b : α} (h : Star R a b) : Q a b := by
  induction h with
  | refl => exact hrefl _
  | tail _ r ih => exact htrans _ _ _ ih (hR _ _ r)

/-- housekeeping updates: `notified`, `nextLinkStatus`, `lastReq`; `pending` may be consumed -/
def House (s s' : OState) : Prop :=
  ∃ n l lr p, (p = s.pending ∨ p = none) ∧
    s' = { s with notified := n, nextLinkStatus := l, lastReq := lr, pending := p }

theorem House.refl (s : OState) : House s s := ⟨_, _, _, _, Or.inl rfl, rfl⟩

theorem House.trans {s1 s2 s3 : OState} (h1 : House s1 s2) (h2 : House s2 s3) : House s1 s3 := by
  obtain ⟨n1, l1, lr1, p1, hp1, e1⟩ := h1
  obtain ⟨n2, l2, lr2, p2, hp2, e2⟩ := h2
  subst e1
  subst e2
  refine ⟨n2, l2, lr2, p2, ?_, rfl⟩
  rcases hp2 with h | h
  · subst h; exact hp1
  · exact Or.inr h

theorem House.notified (s : OState) (b : Bool) : House s { s with notified := b } := ⟨_, _, _, _, Or.inl rfl, rfl⟩
theorem House.pendNone (s : OState) : House s { s with pending := none } := ⟨_, _, _, _, Or.inr rfl, rfl⟩
theorem House.link (s : OState) : House s (onLinkActivity s) := ⟨_, _, _, _, Or.inl rfl, rfl⟩
theorem House.lastReq (s : OState) (lr : Option LastReq) : House s { s with lastReq := lr } :=
  ⟨_, _, _, _, Or.inl rfl, rfl⟩

/-- the request the step is about: parsed from the fragment pending when the step began -/
def ReqOf (pf : Option Frag) (f : Frag) (ctrl : AppCtrl) (func : Nat) (objs : Except Nat (List ObjHdr))
    (raw : List Nat) : Prop :=
  pf = some f ∧ parseRequest f.data = .request ctrl func objs raw

def Cb.plain : Cb → Bool
  | .modelFuelExhausted | .solNewRequest | .solTimeout _ | .solWrongSeq .. | .unexpectedConfirm .. => true
  | _ => false

/-- one primitive event of the session -/
inductive Ev (pf : Option Frag) : Acc → Acc → Prop
  | house (a : Acc) (s' : OState) : House a.1 s' → Ev pf a (s', a.2)
  | plainCb (a : Acc) (c : Cb) : Cb.plain c = true → Ev pf a (emitCb a c)
  | die (a : Acc) : Ev pf a (emit ({ a.1 with mode := .dead }, a.2) .panic)
  | wsol (a : Acc) (dst : Nat) (r : Resp) (a' : Acc) (r' : Resp) :
      writeSolicited a dst r = some (a', r') → Ev pf a a'
  | rsol (a : Acc) (dst : Nat) (r : Resp) : Ev pf a (repeatSolicited a dst r)
  | dbReset (a : Acc) : Ev pf a ({ a.1 with db := a.1.db.reset }, a.2)
  | clrDeferred (a : Acc) : Ev pf a ({ a.1 with deferred := none }, a.2)
  | reqIdle (a : Acc) (f : Frag) (ctrl : AppCtrl) (func : Nat) (objs : Except Nat (List ObjHdr)) (raw : List Nat)
      (a' : Acc) (ser : Option Series) : ReqOf pf f ctrl func objs raw →
      handleRequestFromIdle a f ctrl func objs raw = some (a', ser) → Ev pf a a'
  | enterSol (a : Acc) (sr : Series) (c : SolCont) : Ev pf a (enterSolWait a sr c)
  | setSolWait (a : Acc) (sr : Series) (dl : Nat) (c : SolCont) :
      Ev pf a ({ a.1 with mode := .solWait sr dl c }, a.2)
  | chkStart (a a' : Acc) : checkUnsolicited a = some (.inl a') → Ev pf a a'
  | chkIdle (a a' : Acc) (n : NextIdle) : checkUnsolicited a = some (.inr (a', n)) → Ev pf a a'
  | defWait (a : Acc) (n : NextIdle) (a' : Acc) : handleDeferredRead a n = some (.inl a') → Ev pf a a'
  | defDone (a : Acc) (n : NextIdle) (a' : Acc) : handleDeferredRead a n = some (.inr a') → Ev pf a a'
  | finishPass (a : Acc) (n : NextIdle) : Ev pf a (finishPass a n)
  | solConf (a : Acc) (sr : Series) (dl : Nat) (c : SolCont) (f : Frag) (ctrl : AppCtrl) (objs : Except Nat (List ObjHdr))
      (raw : List Nat) : a.1.mode = .solWait sr dl c → ReqOf pf f ctrl 0 objs raw → ctrl.uns = false →
      ctrl.seq = sr.ecsn →
      Ev pf a (clearWrittenEvents ({ a.1 with lastBroadcast := none }, a.2 ++ [.cb (.solConfirmed sr.ecsn)]))
  | fmtRead (a : Acc) (fir : Bool) (seq iin2 : Nat) : Ev pf a ((formatReadResponse a.1 fir seq iin2).1, a.2)
  | unsolConf (a : Acc) (resp : Resp) (isNull : Bool) (retries : Option Nat) (dl : Nat) (f : Frag) (ctrl : AppCtrl)
      (objs : Except Nat (List ObjHdr)) (raw : List Nat) :
      a.1.mode = .unsolWait resp isNull retries dl → ReqOf pf f ctrl 0 objs raw → ctrl.uns = true →
      ctrl.seq = resp.ctrl.seq →
      Ev pf a (afterUnsolSeries (emitCb ({ a.1 with lastBroadcast := if a.1.unsolReported then none else a.1.lastBroadcast }, a.2)
        (.unsolConfirmed resp.ctrl.seq)) isNull true).1
  | uwSolConfirm (a : Acc) (resp : Resp) (isNull : Bool) (retries : Option Nat) (dl : Nat) (f : Frag) (ctrl : AppCtrl)
      (objs : Except Nat (List ObjHdr)) (raw : List Nat) :
      a.1.mode = .unsolWait resp isNull retries dl → ReqOf pf f ctrl 0 objs raw → ctrl.uns = false →
      Ev pf a (if a.1.lastBroadcast = some 1 then ({ a.1 with lastBroadcast := none }, a.2) else a)
  | bcast (a : Acc) (f : Frag) (m : Nat) (ctrl : AppCtrl) (func : Nat) (objs : Except Nat (List ObjHdr)) (raw : List Nat)
      (a' : Acc) : ReqOf pf f ctrl func objs raw → func ≠ 0 → f.broadcast = some m →
      processBroadcast a f m ctrl func objs raw = some a' → Ev pf a a'
  | uwBcastSeen (a : Acc) (resp : Resp) (isNull : Bool) (retries : Option Nat) (dl : Nat) (f : Frag) (m : Nat)
      (ctrl : AppCtrl) (func : Nat) (objs : Except Nat (List ObjHdr)) (raw : List Nat) :
      a.1.mode = .unsolWait resp isNull retries dl → ReqOf pf f ctrl func objs raw → func ≠ 0 →
      f.broadcast = some m → a.1.lastBroadcast = some m →
      Ev pf a ({ a.1 with unsolReported := false }, a.2)
  | nonRead (a : Acc) (f : Frag) (ctrl : AppCtrl) (func : Nat) (hs : List ObjHdr) (raw : List Nat)
      (a' : Acc) (r : Option Resp) : ReqOf pf f ctrl func (.ok hs) raw → func ≠ 0 → func ≠ 1 → f.broadcast = none →
      handleNonRead a func ctrl.seq f.id hs raw = some (a', r) → Ev pf a a'
  | uwDisable (a : Acc) (resp : Resp) (isNull : Bool) (retries : Option Nat) (dl : Nat) (f : Frag) (ctrl : AppCtrl)
      (hs : List ObjHdr) (raw : List Nat) :
      a.1.mode = .unsolWait resp isNull retries dl → ReqOf pf f ctrl 21 (.ok hs) raw →
      Ev pf a (afterUnsolSeries a isNull false).1
  | deferSet (a : Acc) (f : Frag) (ctrl : AppCtrl) (hs : List ObjHdr) (raw : List Nat) :
      ReqOf pf f ctrl 1 (.ok hs) raw → f.broadcast = none → Ev pf a (deferredSet a.1 f ctrl.seq hs, a.2)
  | uwTimeoutEnd (a : Acc) (resp : Resp) (isNull : Bool) (retries : Option Nat) (dl : Nat) :
      a.1.mode = .unsolWait resp isNull retries dl → (a.1.deferred.isSome = true ∨ retries = some 0) →
      Ev pf a (afterUnsolSeries (emitCb a (.unsolTimeout resp.ctrl.seq false)) isNull false).1
  | uwRetry (a : Acc) (resp : Resp) (isNull : Bool) (retries retries' : Option Nat) (dl : Nat) :
      a.1.mode = .unsolWait resp isNull retries dl → a.1.deferred = none →
      ((retries = none ∧ retries' = none) ∨ ∃ n, retries = some (n + 1) ∧ retries' = some n) →
      Ev pf a ({ (repeatUnsolicited (emitCb a (.unsolTimeout resp.ctrl.seq true)) resp).1 with
                  mode := .unsolWait resp isNull retries' (a.1.now + a.1.cfg.ctimeout) },
               (repeatUnsolicited (emitCb a (.unsolTimeout resp.ctrl.seq true)) resp).2)

abbrev Reach (pf : Option Frag) (a0 a : Acc) : Prop := Star (Ev pf) a0 a

/-- every fragment the session looks at in this step is the one that was pending at its start -/
def PendOk (pf : Option Frag) (a : Acc) : Prop := a.1.pending = none ∨ a.1.pending = pf

/-! ## base frame of every event: `cfg`, `now`, `frameId`, `script.appIin` fixed; `pending` kept or consumed -/

/-- `kS` without `pending` -/
def kB (s : OState) := (s.cfg, s.now, s.frameId, s.script.appIin)

def Base (a a' : Acc) : Prop :=
  kB a'.1 = kB a.1 ∧ (a'.1.pending = a.1.pending ∨ a'.1.pending = none) ∧ ∃ l, a'.2 = a.2 ++ l

theorem Base.refl (a : Acc) : Base a a := ⟨rfl, Or.inl rfl, [], by simp⟩

theorem Base.trans {a b c : Acc} (h1 : Base a b) (h2 : Base b c) : Base a c := by
  obtain ⟨k1, p1, l1, e1⟩ := h1
  obtain ⟨k2, p2, l2, e2⟩ := h2
  refine ⟨k2.trans k1, ?_, l1 ++ l2, by rw [e2, e1, List.append_assoc]⟩
  rcases p2 with h | h
  · rw [h]; exact p1
  · exact Or.inr h

theorem Base.ofFrame {P : OOut → Prop} {a a' : Acc} (h : Frame kS P a a') : Base a a' := by
  obtain ⟨hk, l, e, _⟩ := h
  simp only [kS, Prod.mk.injEq] at hk
  refine ⟨?_, Or.inl hk.2.1, l, e⟩
  simp only [kB, Prod.mk.injEq]
  exact ⟨hk.1, hk.2.2.1, hk.2.2.2.1, hk.2.2.2.2⟩

theorem kS_of_kR' (s s' : OState) (h : kR' s' = kR' s) : kS s' = kS s := by
  simp only [kR', Prod.mk.injEq] at h; exact h.1

theorem kS_of_keepBC (s s' : OState) (h : keepBC s' = keepBC s) : kS s' = kS s := by
  simp only [keepBC, kS, Prod.mk.injEq] at h ⊢
  simp [h]

theorem kS_of_keepRd (s s' : OState) (h : keepRd s' = keepRd s) : kS s' = kS s := by
  simp only [keepRd, kS, Prod.mk.injEq] at h ⊢
  simp [h]

theorem Base.ofHouse {a : Acc} {s' : OState} (h : House a.1 s') : Base a (s', a.2) := by
  obtain ⟨n, l, lr, p, hp, e⟩ := h
  subst e
  refine ⟨rfl, ?_, [], by simp⟩
  rcases hp with h | h
  · exact Or.inl h
  · exact Or.inr h

theorem IdleStage2.base {a1 : Acc} {lr : Option (LastReq × Bool)} {f : Frag} {a' : Acc} (h : IdleStage2 a1 lr f a') :
    Base a1 a' := by
  cases lr with
  | none => cases h; exact Base.refl _
  | some p =>
    obtain ⟨lr, echo⟩ := p
    cases echo with
    | false =>
      rcases h with ⟨_, lr', e⟩ | ⟨r, a2, r2, lr', _, hw, e⟩
      · subst e; exact Base.ofHouse (House.lastReq _ _)
      · subst e
        exact Base.trans (Base.ofFrame ((writeSolicited_frame _ _ _ _ _ hw).weaken kS_of_kR))
          (Base.ofHouse (House.lastReq _ _))
    | true =>
      rcases h with ⟨_, e⟩ | ⟨r, _, e⟩
      · subst e; exact Base.ofHouse (House.lastReq _ _)
      · subst e
        exact Base.trans (Base.ofFrame ((repeatSolicited_frame _ _ _).weaken kS_of_kR))
          (Base.ofHouse (House.lastReq _ _))

theorem IdleStage1.base {a : Acc} {f : Frag} {ctrl : AppCtrl} {func : Nat} {objs : Except Nat (List ObjHdr)}
    {raw : List Nat} {a1 : Acc} {lr : Option (LastReq × Bool)} (h : IdleStage1 a f ctrl func objs raw a1 lr) :
    Base a a1 := by
  cases h with
  | confirm => exact Base.refl _
  | bcast m a1 _ _ hp => exact Base.ofFrame ((processBroadcast_frame _ _ _ _ _ _ _ _ hp).1.weaken kS_of_keepBC)
  | nonRead hs a1 r _ _ _ _ hn => exact Base.ofFrame ((handleNonRead_frame _ _ _ _ _ _ _ _ hn).weaken kS_of_keepNR)
  | prep s1 lr hk _ _ => exact Base.ofFrame (P := fun _ => True) (Frame.state _ _ _ _ (kS_of_keepRd _ _ hk))
  | echo s1 last hk _ _ _ _ => exact Base.ofFrame (P := fun _ => True) (Frame.state _ _ _ _ (kS_of_keepRd _ _ hk))

theorem Ev.base {pf : Option Frag} {a a' : Acc} (h : Ev pf a a') : Base a a' := by
  cases h with
  | house s' hh => exact Base.ofHouse hh
  | plainCb c _ => exact ⟨rfl, Or.inl rfl, _, rfl⟩
  | die => exact ⟨rfl, Or.inl rfl, _, rfl⟩
  | wsol dst r a' r' hw => exact Base.ofFrame ((writeSolicited_frame _ _ _ _ _ hw).weaken kS_of_kR)
  | rsol dst r => exact ⟨rfl, Or.inl rfl, _, rfl⟩
  | dbReset => exact ⟨rfl, Or.inl rfl, [], by simp⟩
  | clrDeferred => exact ⟨rfl, Or.inl rfl, [], by simp⟩
  | reqIdle f ctrl func objs raw a' ser _ hh =>
    obtain ⟨a1, lr, s1, s2⟩ := handleRequestFromIdle_cases _ _ _ _ _ _ _ _ hh
    exact Base.trans s1.base s2.base
  | enterSol sr c => exact ⟨rfl, Or.inl rfl, _, rfl⟩
  | setSolWait sr dl c => exact ⟨rfl, Or.inl rfl, [], by simp⟩
  | chkStart a' hc => exact Base.ofFrame ((checkUnsolicited_frame_inl _ _ hc).weaken kS_of_kR)
  | chkIdle a' n hc => exact Base.ofFrame ((checkUnsolicited_frame_inr _ _ _ hc).weaken kS_of_kR)
  | defWait n a' hd => exact Base.ofFrame ((handleDeferredRead_frame_inl _ _ _ hd).weaken kS_of_kR)
  | defDone n a' hd => exact Base.ofFrame ((handleDeferredRead_frame_inr _ _ _ hd).weaken kS_of_kR)
  | finishPass n => exact Base.ofFrame ((finishPass_frame _ _).weaken kS_of_kR)
  | solConf sr dl c f ctrl objs raw _ _ _ _ =>
    refine Base.trans (b := ({ a.1 with lastBroadcast := none }, a.2 ++ [.cb (.solConfirmed sr.ecsn)])) ?_ ?_
    · exact ⟨rfl, Or.inl rfl, _, rfl⟩
    · exact Base.ofFrame ((clearWrittenEvents_frame _).weaken kS_of_kR)
  | fmtRead fir seq iin2 => exact ⟨rfl, Or.inl rfl, [], by simp⟩
  | unsolConf resp isNull retries dl f ctrl objs raw _ _ _ _ =>
    refine Base.trans (b := emitCb ({ a.1 with lastBroadcast := if a.1.unsolReported then none else a.1.lastBroadcast }, a.2)
      (.unsolConfirmed resp.ctrl.seq)) ?_ ?_
    · exact ⟨rfl, Or.inl rfl, _, rfl⟩
    · exact Base.ofFrame ((afterUnsolSeries_frame _ _ _).weaken kS_of_kR')
  | uwSolConfirm resp isNull retries dl f ctrl objs raw _ _ _ =>
    split
    · exact ⟨rfl, Or.inl rfl, [], by simp⟩
    · exact Base.refl _
  | bcast f m ctrl func objs raw a' _ _ _ hp =>
    exact Base.ofFrame ((processBroadcast_frame _ _ _ _ _ _ _ _ hp).1.weaken kS_of_keepBC)
  | uwBcastSeen resp isNull retries dl f m ctrl func objs raw _ _ _ _ _ => exact ⟨rfl, Or.inl rfl, [], by simp⟩
  | nonRead f ctrl func hs raw a' r _ _ _ _ hn =>
    exact Base.ofFrame ((handleNonRead_frame _ _ _ _ _ _ _ _ hn).weaken kS_of_keepNR)
  | uwDisable resp isNull retries dl f ctrl hs raw _ _ =>
    exact Base.ofFrame ((afterUnsolSeries_frame _ _ _).weaken kS_of_kR')
  | deferSet f ctrl hs raw _ _ => exact ⟨rfl, Or.inl rfl, [], by simp⟩
  | uwTimeoutEnd resp isNull retries dl _ _ =>
    refine Base.trans (b := emitCb a (.unsolTimeout resp.ctrl.seq false)) ⟨rfl, Or.inl rfl, _, rfl⟩ ?_
    exact Base.ofFrame ((afterUnsolSeries_frame _ _ _).weaken kS_of_kR')
  | uwRetry resp isNull retries retries' dl _ _ _ =>
    exact ⟨rfl, Or.inl rfl, [.cb (.unsolTimeout resp.ctrl.seq true),
      .tx a.1.cfg.master ((writeAt a.1.unsolBuf 0 (respHeader resp)).take (max 4 resp.size))],
      by simp [repeatUnsolicited, emitCb, emit]⟩

theorem Reach.base {pf : Option Frag} {a a' : Acc} (h : Reach pf a a') : Base a a' :=
  Star.lift Base.refl (fun _ _ _ => Base.trans) (fun _ _ => Ev.base) h

theorem PendOk.ofBase {pf : Option Frag} {a a' : Acc} (hb : Base a a') (h : PendOk pf a) : PendOk pf a' := by
  rcases hb.2.1 with e | e
  · unfold PendOk; rw [e]; exact h
  · exact Or.inl e

/-! ## `popRequest` -/

theorem popRequest_house (s : OState) : House s (popRequest s).1 := by
  unfold popRequest
  split
  · exact House.refl _
  · split
    · exact House.pendNone _
    · split
      · exact House.refl _
      · exact House.refl _
      · exact House.refl _

theorem popRequest_request (s : OState) (f : Frag) (ctrl : AppCtrl) (func : Nat) (objs : Except Nat (List ObjHdr))
    (raw : List Nat) (h : (popRequest s).2 = .request f ctrl func objs raw) :
    s.pending = some f ∧ parseRequest f.data = .request ctrl func objs raw ∧ (popRequest s).1 = s ∧
    (s.cfg.anymaster = true ∨ f.src = s.cfg.master) := by
  cases hp : s.pending with
  | none => simp only [popRequest, hp] at h; cases h
  | some f' =>
    by_cases hm : (!s.cfg.anymaster) = true ∧ f'.src ≠ s.cfg.master
    · simp only [popRequest, hp] at h; rw [if_pos hm] at h; cases h
    · cases hq : parseRequest f'.data with
      | insufficient => simp only [popRequest, hp, hq] at h; rw [if_neg hm] at h; cases h
      | headerError seq => simp only [popRequest, hp, hq] at h; rw [if_neg hm] at h; cases h
      | request c fn o r =>
        simp only [popRequest, hp, hq] at h ⊢
        rw [if_neg hm] at h ⊢
        cases h
        refine ⟨rfl, hq, rfl, ?_⟩
        cases ha : s.cfg.anymaster with
        | true => exact Or.inl rfl
        | false =>
          right
          simp only [ha, Bool.not_false, true_and, Classical.not_not] at hm
          exact hm

/-- an error fragment is reported only for the configured master (or any master), with the broadcast
    flag of the fragment; the state is untouched -/
theorem popRequest_error (s : OState) (src : Nat) (bc : Bool) (seq : Option Nat)
    (h : (popRequest s).2 = .error src bc seq) :
    ∃ f, s.pending = some f ∧ src = f.src ∧ bc = f.broadcast.isSome ∧ (popRequest s).1 = s ∧
      (s.cfg.anymaster = true ∨ f.src = s.cfg.master) ∧
      ((parseRequest f.data = .insufficient ∧ seq = none) ∨
       ∃ q, parseRequest f.data = .headerError q ∧ seq = some q) := by
  cases hp : s.pending with
  | none => simp only [popRequest, hp] at h; cases h
  | some f' =>
    by_cases hm : (!s.cfg.anymaster) = true ∧ f'.src ≠ s.cfg.master
    · simp only [popRequest, hp] at h; rw [if_pos hm] at h; cases h
    · have hma : s.cfg.anymaster = true ∨ f'.src = s.cfg.master := by
        cases ha : s.cfg.anymaster with
        | true => exact Or.inl rfl
        | false =>
          right
          simp only [ha, Bool.not_false, true_and, Classical.not_not] at hm
          exact hm
      cases hq : parseRequest f'.data with
      | insufficient =>
        simp only [popRequest, hp, hq] at h ⊢
        rw [if_neg hm] at h ⊢
        cases h
        exact ⟨f', rfl, rfl, rfl, rfl, hma, Or.inl ⟨hq, rfl⟩⟩
      | headerError q =>
        simp only [popRequest, hp, hq] at h ⊢
        rw [if_neg hm] at h ⊢
        cases h
        exact ⟨f', rfl, rfl, rfl, rfl, hma, Or.inr ⟨q, hq, rfl⟩⟩
      | request c fn o r => simp only [popRequest, hp, hq] at h; rw [if_neg hm] at h; cases h

/-- every fragment of a foreign master is dropped unanswered, whatever it parses to -/
theorem popRequest_foreign (s : OState) (f : Frag) (hp : s.pending = some f)
    (hm : s.cfg.anymaster = false ∧ f.src ≠ s.cfg.master) :
    popRequest s = ({ s with pending := none }, .nothing) := by
  simp only [popRequest, hp]
  rw [if_pos ⟨by rw [hm.1]; rfl, hm.2⟩]

/-! ## the skeleton theorems -/

/-- a property of whatever a continuation returns -/
def All (P : Acc → Prop) (r : StepRes) : Prop := P (finishStep r)

section
variable {pf : Option Frag} {a0 : Acc}

theorem die_reach {a : Acc} (h : Reach pf a0 a) : All (Reach pf a0) (die a) :=
  Star.tail h (Ev.die a)

theorem afterDeferred_reach (k : Acc → StepRes) (hk : ∀ a', Reach pf a0 a' → All (Reach pf a0) (k a'))
    (a : Acc) (next : NextIdle) (h : Reach pf a0 a) : All (Reach pf a0) (afterDeferred k a next) := by
  unfold afterDeferred
  have h1 := Star.tail h (Ev.finishPass a next)
  dsimp only
  split
  · exact hk _ h1
  · exact h1

theorem afterUnsol_reach (k : Acc → StepRes) (hk : ∀ a', Reach pf a0 a' → All (Reach pf a0) (k a'))
    (a : Acc) (next : NextIdle) (h : Reach pf a0 a) : All (Reach pf a0) (afterUnsol k a next) := by
  unfold afterUnsol
  split
  · exact die_reach h
  · rename_i a' hd
    exact Star.tail h (Ev.defWait a next a' hd)
  · rename_i a' hd
    exact afterDeferred_reach k hk _ _ (Star.tail h (Ev.defDone a next a' hd))

theorem afterRequest_reach (k : Acc → StepRes) (hk : ∀ a', Reach pf a0 a' → All (Reach pf a0) (k a'))
    (a : Acc) (h : Reach pf a0 a) : All (Reach pf a0) (afterRequest k a) := by
  unfold afterRequest
  split
  · exact die_reach h
  · rename_i a' hc
    exact Star.tail h (Ev.chkStart a a' hc)
  · rename_i a' next hc
    exact afterUnsol_reach k hk _ _ (Star.tail h (Ev.chkIdle a a' next hc))

theorem runPass_reach (hp0 : PendOk pf a0) (fuel : Nat) (a : Acc) (h : Reach pf a0 a) :
    All (Reach pf a0) (runPass fuel a) := by
  induction fuel generalizing a with
  | zero =>
    unfold runPass
    exact Star.tail h (Ev.plainCb a .modelFuelExhausted rfl)
  | succ fuel ih =>
    unfold runPass
    dsimp only
    have h1 : Reach pf a0 ({ a.1 with notified := false }, a.2) :=
      Star.tail h (Ev.house a _ (House.notified _ _))
    have hpo : PendOk pf ({ a.1 with notified := false }, a.2) := PendOk.ofBase h1.base hp0
    generalize hpop : popRequest { a.1 with notified := false } = sp at *
    obtain ⟨s, p⟩ := sp
    have hh : House { a.1 with notified := false } s := by
      have := popRequest_house { a.1 with notified := false }; rw [hpop] at this; exact this
    have h2 : Reach pf a0 ({ s with pending := none }, a.2) :=
      Star.tail h1 (Ev.house _ _ (House.trans hh (House.pendNone _)))
    have h3 : Reach pf a0 (onLinkActivity { s with pending := none }, a.2) :=
      Star.tail h1 (Ev.house _ _ (House.trans hh (House.trans (House.pendNone _) (House.link _))))
    cases p with
    | nothing => exact afterRequest_reach _ ih _ h2
    | error src bc seq =>
      dsimp only
      split
      · exact die_reach h3
      · rename_i a' hw
        refine afterRequest_reach _ ih _ ?_
        unfold writeErrorResponse at hw
        split at hw
        · cases hw; exact h3
        · split at hw
          · cases hw; exact h3
          · split at hw
            · cases hw
            · rename_i a2 r2 hws
              cases hw
              exact Star.tail h3 (Ev.wsol _ _ _ _ _ hws)
    | request f ctrl func objs raw =>
      dsimp only
      have hr := popRequest_request { a.1 with notified := false } f ctrl func objs raw (by rw [hpop])
      have hreq : ReqOf pf f ctrl func objs raw := by
        refine ⟨?_, hr.2.1⟩
        rcases hpo with e | e
        · rw [hr.1] at e; cases e
        · rw [← e]; exact hr.1
      split
      · exact die_reach h3
      · rename_i a' sr hq
        exact Star.tail (Star.tail h3 (Ev.reqIdle _ f ctrl func objs raw a' _ hreq hq)) (Ev.enterSol _ _ _)
      · rename_i a' hq
        exact afterRequest_reach _ ih _ (Star.tail h3 (Ev.reqIdle _ f ctrl func objs raw a' _ hreq hq))

end

section
variable {pf : Option Frag} {a0 : Acc}

theorem House.mode {s s' : OState} (h : House s s') : s'.mode = s.mode := by
  obtain ⟨_, _, _, _, _, e⟩ := h; subst e; rfl

theorem House.deferred {s s' : OState} (h : House s s') : s'.deferred = s.deferred := by
  obtain ⟨_, _, _, _, _, e⟩ := h; subst e; rfl

theorem resumeAfterSol_reach (hp0 : PendOk pf a0) (a : Acc) (cont : SolCont) (h : Reach pf a0 a) :
    All (Reach pf a0) (resumeAfterSol a cont) := by
  unfold resumeAfterSol
  split
  · exact afterRequest_reach _ (fun a' h' => runPass_reach hp0 _ a' h') _ h
  · exact afterDeferred_reach _ (fun a' h' => runPass_reach hp0 _ a' h') _ _ (Star.tail h (Ev.clrDeferred a))

theorem abortSeries_reach (hp0 : PendOk pf a0) (a : Acc) (cont : SolCont) (h : Reach pf a0 a) :
    All (Reach pf a0) (abortSeries a cont) := by
  unfold abortSeries
  exact resumeAfterSol_reach hp0 _ _ (Star.tail h (Ev.dbReset a))

theorem solWaitTimeout_reach (hp0 : PendOk pf a0) (a : Acc) (sr : Series) (cont : SolCont) (h : Reach pf a0 a) :
    All (Reach pf a0) (solWaitTimeout a sr cont) := by
  unfold solWaitTimeout
  exact abortSeries_reach hp0 _ _ (Star.tail h (Ev.plainCb a _ rfl))

theorem solWaitOnFragment_reach (hp0 : PendOk pf a0) (a : Acc) (sr : Series) (dl : Nat) (cont : SolCont)
    (hm : a.1.mode = .solWait sr dl cont) (h : Reach pf a0 a) :
    All (Reach pf a0) (solWaitOnFragment a sr dl cont) := by
  unfold solWaitOnFragment
  dsimp only
  have hpo : PendOk pf a := PendOk.ofBase h.base hp0
  generalize hpop : popRequest a.1 = sp at *
  obtain ⟨s, p⟩ := sp
  have hh : House a.1 s := by
    have := popRequest_house a.1; rw [hpop] at this; exact this
  have newReq : ∀ a1 : Acc, Reach pf a0 a1 →
      All (Reach pf a0) (abortSeries (emitCb a1 .solNewRequest) cont) := fun a1 h1 =>
    abortSeries_reach hp0 _ _ (Star.tail h1 (Ev.plainCb a1 _ rfl))
  have h3 : Reach pf a0 (onLinkActivity s, a.2) := Star.tail h (Ev.house _ _ (House.trans hh (House.link _)))
  cases p with
  | nothing => exact Star.tail h (Ev.house _ _ (House.trans hh (House.pendNone _)))
  | error src bc seq => exact newReq _ h3
  | request f ctrl func objs raw =>
    dsimp only
    have hr := popRequest_request a.1 f ctrl func objs raw (by rw [hpop])
    have hreq : ReqOf pf f ctrl func objs raw := by
      refine ⟨?_, hr.2.1⟩
      rcases hpo with e | e
      · rw [hr.1] at e; cases e
      · rw [← e]; exact hr.1
    have cf := classify_facts (onLinkActivity s) f ctrl func objs
    have h4 : Reach pf a0 ({ onLinkActivity s with pending := none }, a.2) :=
      Star.tail h (Ev.house _ _ (House.trans hh (House.trans (House.link _) (House.pendNone _))))
    split
    · exact newReq _ h3
    · exact newReq _ h3
    · exact newReq _ h3
    · exact newReq _ h3
    · exact newReq _ h3
    · -- repeatRead
      rename_i resp hs hc
      split
      · exact Star.tail (Star.tail h4 (Ev.rsol _ _ _)) (Ev.setSolWait _ _ _ _)
      · exact Star.tail h4 (Ev.setSolWait _ _ _ _)
    · exact Star.tail h4 (Ev.plainCb _ _ rfl)
    · rename_i seq hc
      rw [hc] at cf
      simp only [ClassifyFacts] at cf
      split
      · exact Star.tail h4 (Ev.plainCb _ _ rfl)
      · rename_i hseq
        have hseq' : seq = sr.ecsn := Classical.not_not.1 hseq
        have hm4 : ({ onLinkActivity s with pending := none } : OState).mode = .solWait sr dl cont := by
          have : s.mode = a.1.mode := hh.mode
          show s.mode = _
          rw [this, hm]
        have hreq0 : ReqOf pf f ctrl 0 objs raw := by rw [← cf.1]; exact hreq
        have h5 := Star.tail h4 (Ev.solConf _ sr dl cont f ctrl objs raw hm4 hreq0 cf.2.1
          (by rw [← cf.2.2]; exact hseq'))
        split
        · exact resumeAfterSol_reach hp0 _ _ h5
        · have h6 := Star.tail h5 (Ev.fmtRead _ false (seq4Next sr.ecsn) 0)
          split
          · exact die_reach h5
          · rename_i a7 r7 hw
            have h7 := Star.tail h6 (Ev.wsol _ _ _ _ _ hw)
            have h8 := Star.tail h7 (Ev.house a7 _ (House.lastReq a7.1
              (a7.1.lastReq.map (fun lr => { lr with response := some r7 }))))
            split
            · exact resumeAfterSol_reach hp0 _ _ h8
            · exact Star.tail h8 (Ev.setSolWait _ _ _ _)

end

section
variable {pf : Option Frag} {a0 : Acc}

theorem finishUnsol_reach (hp0 : PendOk pf a0) (a : Acc) (isNull c : Bool)
    (h : Reach pf a0 (afterUnsolSeries a isNull c).1) : All (Reach pf a0) (finishUnsol a isNull c) := by
  unfold finishUnsol
  exact afterUnsol_reach _ (fun a' h' => runPass_reach hp0 _ a' h') _ _ h

theorem handleNonRead_mode (a : Acc) (func seq fid : Nat) (hs : List ObjHdr) (raw : List Nat)
    (a' : Acc) (r : Option Resp) (h : handleNonRead a func seq fid hs raw = some (a', r)) :
    a'.1.mode = a.1.mode := by
  have := (handleNonRead_frame a func seq fid hs raw a' r h).1
  simp only [keepNR, Prod.mk.injEq] at this
  exact this.2.2.2.1

theorem writeSolicited_mode (a : Acc) (dst : Nat) (r : Resp) (a' : Acc) (r' : Resp)
    (h : writeSolicited a dst r = some (a', r')) : a'.1.mode = a.1.mode := by
  have := (writeSolicited_keep a dst r a' r' h).1
  simp only [keepWS, Prod.mk.injEq] at this
  exact this.2.2.2.1

theorem unsolWaitOnFragment_reach (hp0 : PendOk pf a0) (a : Acc) (resp : Resp) (isNull : Bool)
    (retries : Option Nat) (dl : Nat) (hm : a.1.mode = .unsolWait resp isNull retries dl) (h : Reach pf a0 a) :
    All (Reach pf a0) (unsolWaitOnFragment a resp isNull) := by
  unfold unsolWaitOnFragment
  dsimp only
  have hpo : PendOk pf a := PendOk.ofBase h.base hp0
  generalize hpop : popRequest a.1 = sp at *
  obtain ⟨s, p⟩ := sp
  have hh : House a.1 s := by
    have := popRequest_house a.1; rw [hpop] at this; exact this
  have h1 : Reach pf a0 ({ s with pending := none }, a.2) :=
    Star.tail h (Ev.house _ _ (House.trans hh (House.pendNone _)))
  cases p with
  | nothing => exact h1
  | error src bc seq =>
    dsimp only
    split
    · exact die_reach h1
    · rename_i a' hw
      have h2 := Star.tail h1 (Ev.clrDeferred _)
      unfold writeErrorResponse at hw
      split at hw
      · cases hw; exact h2
      · split at hw
        · cases hw; exact h2
        · split at hw
          · cases hw
          · rename_i a2 r2 hws
            cases hw
            exact Star.tail h2 (Ev.wsol _ _ _ _ _ hws)
  | request f ctrl func objs raw =>
    dsimp only
    have hr := popRequest_request a.1 f ctrl func objs raw (by rw [hpop])
    have hreq : ReqOf pf f ctrl func objs raw := by
      refine ⟨?_, hr.2.1⟩
      rcases hpo with e | e
      · rw [hr.1] at e; cases e
      · rw [← e]; exact hr.1
    have hh2 : House a.1 (onLinkActivity { s with pending := none }) :=
      House.trans hh (House.trans (House.pendNone _) (House.link _))
    have h2 : Reach pf a0 (onLinkActivity { s with pending := none }, a.2) := Star.tail h (Ev.house _ _ hh2)
    have hm2 : (onLinkActivity { s with pending := none }).mode = .unsolWait resp isNull retries dl := by
      rw [hh2.mode, hm]
    have cf := classify_facts (onLinkActivity { s with pending := none }) f ctrl func objs
    have h3 := Star.tail h2 (Ev.clrDeferred _)
    split
    · -- unsolConfirm
      rename_i seq hc
      rw [hc] at cf
      simp only [ClassifyFacts] at cf
      split
      · rename_i hseq
        subst hseq
        have hreq0 : ReqOf pf f ctrl 0 objs raw := by rw [← cf.1]; exact hreq
        apply finishUnsol_reach hp0
        exact Star.tail h2 (Ev.unsolConf _ resp isNull retries dl f ctrl objs raw hm2 hreq0 cf.2.1 cf.2.2.symm)
      · exact h2
    · -- solConfirm
      rename_i seq hc
      rw [hc] at cf
      simp only [ClassifyFacts] at cf
      have hreq0 : ReqOf pf f ctrl 0 objs raw := by rw [← cf.1]; exact hreq
      exact Star.tail h2 (Ev.uwSolConfirm _ resp isNull retries dl f ctrl objs raw hm2 hreq0 cf.2.1)
    · -- broadcast
      rename_i m hc
      rw [hc] at cf
      simp only [ClassifyFacts] at cf
      split
      · exact die_reach h2
      · rename_i a' hp
        have h4 := Star.tail h3 (Ev.bcast _ f m ctrl func objs raw a' hreq cf.1 cf.2 hp)
        have hf4 := processBroadcast_frame _ _ _ _ _ _ _ _ hp
        have hm4 : a'.1.mode = .unsolWait resp isNull retries dl := by
          have hk := hf4.1.1
          simp only [keepBC, Prod.mk.injEq] at hk
          rw [hk.2.2.2.1]; exact hm2
        exact Star.tail h4 (Ev.uwBcastSeen _ resp isNull retries dl f m ctrl func objs raw hm4 hreq cf.1 cf.2 hf4.2)
    · -- malformed
      split
      · exact die_reach h2
      · rename_i a' r' hw
        exact Star.tail h3 (Ev.wsol _ _ _ _ _ hw)
    · -- newNonRead
      rename_i hs hc
      rw [hc] at cf
      simp only [ClassifyFacts] at cf
      split
      · exact die_reach h2
      · rename_i a4 r4 hn
        have hreq' : ReqOf pf f ctrl func (.ok hs) raw := by rw [← cf.2.2.2]; exact hreq
        have h4 := Star.tail h3 (Ev.nonRead _ f ctrl func hs raw a4 r4 hreq' cf.1 cf.2.1 cf.2.2.1 hn)
        have hm4 : a4.1.mode = .unsolWait resp isNull retries dl := by
          rw [handleNonRead_mode _ _ _ _ _ _ _ _ hn]; exact hm2
        split
        · exact die_reach h4
        · rename_i a5 r5 hwr
          have h5 : Reach pf a0 a5 ∧ a5.1.mode = .unsolWait resp isNull retries dl := by
            split at hwr
            · cases hwr; exact ⟨h4, hm4⟩
            · split at hwr
              · cases hwr
              · rename_i a6 r6 hws
                cases hwr
                exact ⟨Star.tail h4 (Ev.wsol _ _ _ _ _ hws), by rw [writeSolicited_mode _ _ _ _ _ hws]; exact hm4⟩
          have h6 := Star.tail h5.1 (Ev.house _ _ (House.lastReq _ (some ⟨ctrl.seq, f.data, r5, none⟩)))
          split
          · rename_i h21
            apply finishUnsol_reach hp0
            have hreq21 : ReqOf pf f ctrl 21 (.ok hs) raw := by rw [← h21]; exact hreq'
            exact Star.tail h6 (Ev.uwDisable _ resp isNull retries dl f ctrl hs raw h5.2 hreq21)
          · exact h6
    · -- newRead
      rename_i hs hc
      rw [hc] at cf
      simp only [ClassifyFacts] at cf
      have hreq' : ReqOf pf f ctrl 1 (.ok hs) raw := by rw [← cf.1, ← cf.2.2]; exact hreq
      exact Star.tail h2 (Ev.deferSet _ f ctrl hs raw hreq' cf.2.1)
    · -- repeatRead
      rename_i rr hs hc
      rw [hc] at cf
      simp only [ClassifyFacts] at cf
      have hreq' : ReqOf pf f ctrl 1 (.ok hs) raw := by rw [← cf.1, ← cf.2.2]; exact hreq
      exact Star.tail h2 (Ev.deferSet _ f ctrl hs raw hreq' cf.2.1)
    · -- repeatNonRead
      split
      · exact Star.tail (Star.tail h2 (Ev.rsol _ _ _)) (Ev.clrDeferred _)
      · exact Star.tail h2 (Ev.clrDeferred _)

theorem unsolWaitTimeout_reach (hp0 : PendOk pf a0) (a : Acc) (resp : Resp) (isNull : Bool)
    (retries : Option Nat) (dl : Nat) (hm : a.1.mode = .unsolWait resp isNull retries dl) (h : Reach pf a0 a) :
    All (Reach pf a0) (unsolWaitTimeout a resp isNull retries) := by
  unfold unsolWaitTimeout
  cases hd : a.1.deferred with
  | some d =>
    simp only [Option.isSome_some, if_true, Bool.not_false]
    apply finishUnsol_reach hp0
    exact Star.tail h (Ev.uwTimeoutEnd a resp isNull retries dl hm (Or.inl (by rw [hd]; rfl)))
  | none =>
    simp only [Option.isSome_none, Bool.false_eq_true, if_false]
    match retries, hm with
    | none, hm =>
      simp only [Bool.not_true, Bool.false_eq_true, if_false]
      exact Star.tail h (Ev.uwRetry a resp isNull none none dl hm hd (Or.inl ⟨rfl, rfl⟩))
    | some 0, hm =>
      simp only [Bool.not_false, if_true]
      apply finishUnsol_reach hp0
      exact Star.tail h (Ev.uwTimeoutEnd a resp isNull (some 0) dl hm (Or.inr rfl))
    | some (n+1), hm =>
      simp only [Bool.not_true, Bool.false_eq_true, if_false]
      exact Star.tail h (Ev.uwRetry a resp isNull (some (n+1)) (some n) dl hm hd (Or.inr ⟨n, rfl, rfl⟩))

theorem dispatch_reach (hp0 : PendOk pf a0) (a : Acc) (h : Reach pf a0 a) :
    All (Reach pf a0) (dispatch a) := by
  unfold dispatch
  split
  · exact h
  · split
    · exact runPass_reach hp0 _ _ h
    · exact h
  · rename_i sr dl cont hm
    split
    · exact solWaitOnFragment_reach hp0 a sr dl cont hm h
    · split
      · exact solWaitTimeout_reach hp0 _ _ _ h
      · exact h
  · rename_i resp isNull retries dl hm
    split
    · exact unsolWaitOnFragment_reach hp0 a resp isNull retries dl hm h
    · split
      · exact unsolWaitTimeout_reach hp0 a resp isNull retries dl hm h
      · exact h

theorem settle_reach (hp0 : PendOk pf a0) (n : Nat) (r : StepRes) (h : All (Reach pf a0) r) :
    All (Reach pf a0) (settle n r) := by
  induction n generalizing r with
  | zero => exact h
  | succ n ih =>
    unfold settle
    cases r with
    | panicked a => exact h
    | blocked a =>
      dsimp only
      split <;> split <;> first | exact ih _ (dispatch_reach hp0 a h) | exact h

end

/-! ## `Outstation.step` in terms of events -/

/-- the body of `Outstation.step` for a task that is alive (verbatim).  The step lemmas below are
    proved about it and transferred to `Outstation.step` by `step_alive_eq` / `step_dead_cases`, whose
    proofs cover both the model revision in which a dead task still sees clock ticks and the one in
    which `step` is the identity once the task is dead. -/
def stepBody (env : OEnv) (s : OState) (inp : OInput) : OState × List OOut :=
  match inp with
  | .setScript f => ({ s with script := f s.script }, [])
  | .rx src dst data =>
    if s.mode matches .dead then (s, []) else
    let bc : Option (Option Nat) :=
      if dst = env.outstation then some none
      else if dst = 0xFFFC then (if env.selfaddr then some none else none)
      else if dst = 0xFFFF then some (some 0)
      else if dst = 0xFFFE then some (some 1)
      else if dst = 0xFFFD then some (some 2)
      else none
    match bc with
    | none => (s, [])
    | some b =>
      if src ≥ 0xFFF0 ∨ data.isEmpty ∨ data.length > env.rx then (s, []) else
      if b.isSome ∧ data.length > 249 then (s, []) else
      let f : Frag := ⟨s.frameId, src, b, data⟩
      let s := { s with frameId := (s.frameId + 1) % 4294967296, pending := some f }
      finishStep (settle 8 (dispatch (s, [])))
  | .tick ms =>
    let s := { s with now := s.now + ms }
    finishStep (settle 8 (dispatch (s, [])))
  | .txn items =>
    let (s, outs) := items.foldl (fun (p : OState × List OOut) it =>
      let (db, u) := match it with
        | .bin idx v flags time => p.1.db.update .binary idx (if v then 1 else 0) flags time
        | .an idx v flags time => p.1.db.update .analog idx v flags time
      ({ p.1 with db := db }, p.2 ++ [.line (updLine u)])) (s, [])
    finishStep (settle 8 (dispatch ({ s with notified := true }, outs)))
  | .add t idx cls =>
    let (db, ok) := s.db.add t idx cls
    finishStep (settle 8 (dispatch ({ s with db := db, notified := true }, [.line s!"add {if ok then 1 else 0}"])))
  | .cut =>
    if s.mode matches .dead then (s, []) else
    let s := { s with db := s.db.reset, lastReq := none, select := none, deferred := none, pending := none,
                      mode := .idle .noSleep }
    finishStep (settle 8 (runPass passFuel (s, [.line "session link stdio UnexpectedEof"])))

set_option linter.unusedVariables false in
/-- for a live task `step` is `stepBody` -/
theorem step_alive_eq (env : OEnv) (s : OState) (inp : OInput) (h : s.mode ≠ .dead) :
    Outstation.step env s inp = stepBody env s inp := by
  first
    | rfl
    | (unfold Outstation.step stepBody
       cases hm : s.mode with
       | dead => exact absurd hm h
       | idle n => simp only [Bool.false_eq_true, if_false]; rfl
       | solWait a b c => simp only [Bool.false_eq_true, if_false]; rfl
       | unsolWait a b c d => simp only [Bool.false_eq_true, if_false]; rfl)

set_option linter.unusedVariables false in
/-- for a dead task `step` does nothing (apart from recording a script change), or is `stepBody` -/
theorem step_dead_cases (env : OEnv) (s : OState) (inp : OInput) (h : s.mode = .dead) :
    (∃ f, inp = .setScript f ∧ Outstation.step env s inp = ({ s with script := f s.script }, [])) ∨
    Outstation.step env s inp = (s, []) ∨ Outstation.step env s inp = stepBody env s inp := by
  first
    | exact Or.inr (Or.inr rfl)
    | (have key : Outstation.step env s inp =
           (match inp with | .setScript f => { s with script := f s.script } | _ => s, []) := by
         unfold Outstation.step
         rw [h]
         simp only [if_true]
         cases inp <;> rfl
       cases inp with
       | setScript f => left; exact ⟨f, rfl, key⟩
       | rx src dst data => right; left; exact key
       | tick ms => right; left; exact key
       | txn items => right; left; exact key
       | add t idx cls => right; left; exact key
       | cut => right; left; exact key)

/-- the database part of a `.txn` input (verbatim) -/
def txnFold (s : OState) (items : List TxnItem) : OState × List OOut :=
  items.foldl (fun (p : OState × List OOut) it =>
      let (db, u) := match it with
        | .bin idx v flags time => p.1.db.update .binary idx (if v then 1 else 0) flags time
        | .an idx v flags time => p.1.db.update .analog idx v flags time
      ({ p.1 with db := db }, p.2 ++ [.line (updLine u)])) (s, [])

/-- everything but the database -/
def keepDb (s : OState) :=
  (s.cfg, s.script, s.now, s.mode, s.restart, s.en1, s.en2, s.en3, s.lastReq, s.select, s.unsol, s.unsolSeq,
   s.deferred, s.lastRecorded, s.lastBroadcast, s.solBuf, s.unsolBuf, s.frameId, s.nextLinkStatus, s.pending,
   s.notified, s.unsolReported)

theorem txnFold_frame (s : OState) (items : List TxnItem) :
    keepDb (txnFold s items).1 = keepDb s ∧ ∀ o ∈ (txnFold s items).2, OOut.kind o = .line := by
  unfold txnFold
  have : ∀ (p : OState × List OOut), (∀ o ∈ p.2, OOut.kind o = .line) →
      keepDb (items.foldl (fun (p : OState × List OOut) it =>
        let (db, u) := match it with
          | .bin idx v flags time => p.1.db.update .binary idx (if v then 1 else 0) flags time
          | .an idx v flags time => p.1.db.update .analog idx v flags time
        ({ p.1 with db := db }, p.2 ++ [.line (updLine u)])) p).1 = keepDb p.1 ∧
      ∀ o ∈ (items.foldl (fun (p : OState × List OOut) it =>
        let (db, u) := match it with
          | .bin idx v flags time => p.1.db.update .binary idx (if v then 1 else 0) flags time
          | .an idx v flags time => p.1.db.update .analog idx v flags time
        ({ p.1 with db := db }, p.2 ++ [.line (updLine u)])) p).2, OOut.kind o = .line := by
    induction items with
    | nil => intro p hp; exact ⟨rfl, hp⟩
    | cons it rest ih =>
      intro p hp
      simp only [List.foldl_cons]
      have := ih (let (db, u) := match it with
          | .bin idx v flags time => p.1.db.update .binary idx (if v then 1 else 0) flags time
          | .an idx v flags time => p.1.db.update .analog idx v flags time
        ({ p.1 with db := db }, p.2 ++ [.line (updLine u)])) (by
          intro o ho
          simp only [List.mem_append, List.mem_singleton] at ho
          rcases ho with ho | ho
          · exact hp o ho
          · subst ho; rfl)
      exact ⟨this.1.trans rfl, this.2⟩
  exact this (s, []) (by simp)

/-- the state a `.rx` input leaves before the session looks at it -/
def rxState (s : OState) (f : Frag) : OState :=
  { s with frameId := (s.frameId + 1) % 4294967296, pending := some f }

/-- which destination addresses reach this outstation, and as which kind of broadcast (verbatim) -/
def rxBroadcast (env : OEnv) (dst : Nat) : Option (Option Nat) :=
  if dst = env.outstation then some none
  else if dst = 0xFFFC then (if env.selfaddr then some none else none)
  else if dst = 0xFFFF then some (some 0)
  else if dst = 0xFFFE then some (some 1)
  else if dst = 0xFFFD then some (some 2)
  else none

theorem step_rx (env : OEnv) (s : OState) (src dst : Nat) (data : List Nat) :
    stepBody env s (.rx src dst data) = (s, []) ∨
    ∃ b, rxBroadcast env dst = some b ∧
      Reach (some ⟨s.frameId, src, b, data⟩) (rxState s ⟨s.frameId, src, b, data⟩, [])
      (stepBody env s (.rx src dst data)) := by
  unfold stepBody
  dsimp only
  repeat' split
  all_goals first
    | exact Or.inl rfl
    | (rename_i b hb _ _
       right
       refine ⟨b, hb, ?_⟩
       have hp : PendOk (some ⟨s.frameId, src, b, data⟩) (rxState s ⟨s.frameId, src, b, data⟩, []) := Or.inr rfl
       exact settle_reach hp 8 _ (dispatch_reach hp _ (Star.refl _)))

theorem step_tick (env : OEnv) (s : OState) (ms : Nat) :
    Reach s.pending ({ s with now := s.now + ms }, []) (stepBody env s (.tick ms)) := by
  unfold stepBody
  have hp : PendOk s.pending ({ s with now := s.now + ms }, []) := Or.inr rfl
  exact settle_reach hp 8 _ (dispatch_reach hp _ (Star.refl _))

theorem step_txn (env : OEnv) (s : OState) (items : List TxnItem) :
    Reach s.pending ({ (txnFold s items).1 with notified := true }, (txnFold s items).2)
      (stepBody env s (.txn items)) := by
  unfold stepBody
  have hk := (txnFold_frame s items).1
  have hp : PendOk s.pending ({ (txnFold s items).1 with notified := true }, (txnFold s items).2) := by
    right
    simp only [keepDb, Prod.mk.injEq] at hk
    exact hk.2.2.2.2.2.2.2.2.2.2.2.2.2.2.2.2.2.2.2.1
  exact settle_reach hp 8 _ (dispatch_reach hp _ (Star.refl _))

theorem step_add (env : OEnv) (s : OState) (t : PtType) (idx cls : Nat) :
    Reach s.pending ({ s with db := (s.db.add t idx cls).1, notified := true },
        [.line s!"add {if (s.db.add t idx cls).2 then 1 else 0}"])
      (stepBody env s (.add t idx cls)) := by
  unfold stepBody
  have hp : PendOk s.pending ({ s with db := (s.db.add t idx cls).1, notified := true },
        [.line s!"add {if (s.db.add t idx cls).2 then 1 else 0}"]) := Or.inr rfl
  exact settle_reach hp 8 _ (dispatch_reach hp _ (Star.refl _))

/-- the state a disconnect leaves before the new session's first pass -/
def cutState (s : OState) : OState :=
  { s with db := s.db.reset, lastReq := none, select := none, deferred := none, pending := none,
           mode := .idle .noSleep }

theorem step_cut (env : OEnv) (s : OState) :
    stepBody env s .cut = (s, []) ∨
    Reach none (cutState s, [.line "session link stdio UnexpectedEof"]) (stepBody env s .cut) := by
  unfold stepBody
  dsimp only
  split
  · exact Or.inl rfl
  · right
    have hp : PendOk none (cutState s, [.line "session link stdio UnexpectedEof"]) := Or.inl rfl
    exact settle_reach hp 8 _ (runPass_reach hp _ _ (Star.refl _))

theorem start_reach (cfg : OCfg) (evMax : Nat) :
    Reach none (OState.init cfg evMax, []) (Outstation.start cfg evMax) := by
  unfold Outstation.start
  have hp : PendOk none (OState.init cfg evMax, []) := Or.inl rfl
  exact settle_reach hp 8 _ (runPass_reach hp _ _ (Star.refl _))

/-! ## all inputs at once -/

/-- what a step starts from: the fragment it will look at, the state and the outputs before the
    session machinery runs -/
inductive StepInit (env : OEnv) (s : OState) : OInput → Option Frag → OState → List OOut → Prop
  | rx (src dst : Nat) (data : List Nat) (b : Option Nat) : rxBroadcast env dst = some b →
      StepInit env s (.rx src dst data) (some ⟨s.frameId, src, b, data⟩) (rxState s ⟨s.frameId, src, b, data⟩) []
  | tick (ms : Nat) : StepInit env s (.tick ms) s.pending { s with now := s.now + ms } []
  | txn (items : List TxnItem) :
      StepInit env s (.txn items) s.pending { (txnFold s items).1 with notified := true } (txnFold s items).2
  | add (t : PtType) (idx cls : Nat) :
      StepInit env s (.add t idx cls) s.pending { s with db := (s.db.add t idx cls).1, notified := true }
        [.line s!"add {if (s.db.add t idx cls).2 then 1 else 0}"]
  | cut : StepInit env s .cut none (cutState s) [.line "session link stdio UnexpectedEof"]

/-- fields no step prologue touches -/
def keepInit (s : OState) :=
  (s.cfg, s.restart, s.en1, s.en2, s.en3, s.unsol, s.unsolSeq, s.lastBroadcast, s.script, s.unsolReported)

theorem StepInit.keep {env : OEnv} {s : OState} {inp : OInput} {pf : Option Frag} {s0 : OState} {o0 : List OOut}
    (h : StepInit env s inp pf s0 o0) : keepInit s0 = keepInit s ∧ ∀ o ∈ o0, OOut.kind o = .line := by
  cases h with
  | rx => exact ⟨rfl, by simp⟩
  | tick => exact ⟨rfl, by simp⟩
  | txn items =>
    have hf := txnFold_frame s items
    refine ⟨?_, hf.2⟩
    have := hf.1
    simp only [keepDb, Prod.mk.injEq] at this
    simp only [keepInit, Prod.mk.injEq]
    simp [this]
  | add => exact ⟨rfl, by simp [OOut.kind]⟩
  | cut => exact ⟨rfl, by simp [OOut.kind]⟩

/-- every step either does nothing to the session (dropped frame, dead task, script change) or runs the
    session machinery from a `StepInit` start -/
theorem stepBody_reach (env : OEnv) (s : OState) (inp : OInput) :
    (∃ f, inp = .setScript f ∧ stepBody env s inp = ({ s with script := f s.script }, [])) ∨
    (stepBody env s inp = (s, []) ∧ (inp matches .rx .. | .cut)) ∨
    ∃ pf s0 o0, StepInit env s inp pf s0 o0 ∧ Reach pf (s0, o0) (stepBody env s inp) := by
  cases inp with
  | setScript f => left; exact ⟨f, rfl, rfl⟩
  | rx src dst data =>
    rcases step_rx env s src dst data with e | ⟨b, hb, hr⟩
    · right; left; exact ⟨e, rfl⟩
    · right; right; exact ⟨_, _, _, .rx src dst data b hb, hr⟩
  | tick ms => right; right; exact ⟨_, _, _, .tick ms, step_tick env s ms⟩
  | txn items => right; right; exact ⟨_, _, _, .txn items, step_txn env s items⟩
  | add t idx cls => right; right; exact ⟨_, _, _, .add t idx cls, step_add env s t idx cls⟩
  | cut =>
    rcases step_cut env s with e | hr
    · right; left; exact ⟨e, rfl⟩
    · right; right; exact ⟨_, _, _, .cut, hr⟩

/-- the fragment a step examines: the one just received (if addressed to this outstation), else
    whatever was still pending; none for a disconnect / script change / dropped frame -/
def StepFrag (env : OEnv) (s : OState) (inp : OInput) (pf : Option Frag) : Prop :=
  match inp with
  | .rx src dst data => pf = none ∨ ∃ b, rxBroadcast env dst = some b ∧ pf = some ⟨s.frameId, src, b, data⟩
  | .tick _ | .txn _ | .add .. => pf = s.pending
  | .cut | .setScript _ => pf = none

theorem StepInit.frag {env : OEnv} {s : OState} {inp : OInput} {pf : Option Frag} {s0 : OState} {o0 : List OOut}
    (h : StepInit env s inp pf s0 o0) : StepFrag env s inp pf := by
  cases h with
  | rx src dst data b hb => exact Or.inr ⟨b, hb, rfl⟩
  | tick => rfl
  | txn => rfl
  | add => rfl
  | cut => rfl

/-- a step prologue keeps `mode` and `deferred`, except that a disconnect resets them -/
theorem StepInit.mode {env : OEnv} {s : OState} {inp : OInput} {pf : Option Frag} {s0 : OState} {o0 : List OOut}
    (h : StepInit env s inp pf s0 o0) :
    (s0.mode = s.mode ∧ s0.deferred = s.deferred ∧ inp ≠ .cut) ∨
    (inp = .cut ∧ s0.mode = .idle .noSleep ∧ s0.deferred = none) := by
  cases h with
  | rx => exact Or.inl ⟨rfl, rfl, by simp⟩
  | tick => exact Or.inl ⟨rfl, rfl, by simp⟩
  | txn items =>
    have := (txnFold_frame s items).1
    simp only [keepDb, Prod.mk.injEq] at this
    exact Or.inl ⟨this.2.2.2.1, this.2.2.2.2.2.2.2.2.2.2.2.2.1, by simp⟩
  | add => exact Or.inl ⟨rfl, rfl, by simp⟩
  | cut => exact Or.inr ⟨rfl, rfl, rfl⟩

/-- every input other than a disconnect / script change / dropped frame is: prologue, then `dispatch`, then `settle` -/
theorem stepBody_dispatch (env : OEnv) (s : OState) (inp : OInput) :
    (∃ f, inp = .setScript f ∧ stepBody env s inp = ({ s with script := f s.script }, [])) ∨
    (stepBody env s inp = (s, []) ∧ (inp matches .rx .. | .cut)) ∨
    inp = .cut ∨
    ∃ pf s0 o0, StepInit env s inp pf s0 o0 ∧ inp ≠ .cut ∧
      stepBody env s inp = finishStep (settle 8 (dispatch (s0, o0))) := by
  cases inp with
  | setScript f => left; exact ⟨f, rfl, rfl⟩
  | rx src dst data =>
    unfold stepBody
    dsimp only
    repeat' split
    all_goals first
      | exact Or.inr (Or.inl ⟨rfl, rfl⟩)
      | (rename_i b hb _ _
         right; right; right
         exact ⟨_, _, _, StepInit.rx src dst data b hb, by simp, rfl⟩)
  | tick ms => right; right; right; exact ⟨_, _, _, .tick ms, by simp, rfl⟩
  | txn items => right; right; right; exact ⟨_, _, _, .txn items, by simp, rfl⟩
  | add t idx cls => right; right; right; exact ⟨_, _, _, .add t idx cls, by simp, rfl⟩
  | cut => right; right; left; rfl

theorem step_cases (env : OEnv) (s : OState) (inp : OInput) :
    (∃ f, inp = .setScript f ∧ Outstation.step env s inp = ({ s with script := f s.script }, [])) ∨
    Outstation.step env s inp = (s, []) ∨ Outstation.step env s inp = stepBody env s inp := by
  by_cases hd : s.mode = .dead
  · exact step_dead_cases env s inp hd
  · exact Or.inr (Or.inr (step_alive_eq env s inp hd))

/-- every step either does nothing to the session (dropped frame, dead task, script change) or runs the
    session machinery from a `StepInit` start -/
theorem step_reach (env : OEnv) (s : OState) (inp : OInput) :
    (∃ f, inp = .setScript f ∧ Outstation.step env s inp = ({ s with script := f s.script }, [])) ∨
    Outstation.step env s inp = (s, []) ∨
    ∃ pf s0 o0, StepInit env s inp pf s0 o0 ∧ Reach pf (s0, o0) (Outstation.step env s inp) := by
  rcases step_cases env s inp with h | h | e
  · exact Or.inl h
  · exact Or.inr (Or.inl h)
  · rw [e]
    rcases stepBody_reach env s inp with h | ⟨h, _⟩ | h
    · exact Or.inl h
    · exact Or.inr (Or.inl h)
    · exact Or.inr (Or.inr h)

/-- every input other than a disconnect / script change / dropped frame is: prologue, then `dispatch`, then `settle` -/
theorem step_dispatch (env : OEnv) (s : OState) (inp : OInput) :
    (∃ f, inp = .setScript f ∧ Outstation.step env s inp = ({ s with script := f s.script }, [])) ∨
    Outstation.step env s inp = (s, []) ∨
    inp = .cut ∨
    ∃ pf s0 o0, StepInit env s inp pf s0 o0 ∧ inp ≠ .cut ∧
      Outstation.step env s inp = finishStep (settle 8 (dispatch (s0, o0))) := by
  rcases step_cases env s inp with h | h | e
  · exact Or.inl h
  · exact Or.inr (Or.inl h)
  · rw [e]
    rcases stepBody_dispatch env s inp with h | ⟨h, _⟩ | h | h
    · exact Or.inl h
    · exact Or.inr (Or.inl h)
    · exact Or.inr (Or.inr (Or.inl h))
    · exact Or.inr (Or.inr (Or.inr h))

theorem step_tick_eq (env : OEnv) (s : OState) (ms : Nat) (hm : s.mode ≠ .dead) :
    Outstation.step env s (.tick ms) = finishStep (settle 8 (dispatch ({ s with now := s.now + ms }, []))) := by
  rw [step_alive_eq env s _ hm]; rfl

theorem step_txn_eq (env : OEnv) (s : OState) (items : List TxnItem) (hm : s.mode ≠ .dead) :
    Outstation.step env s (.txn items) =
      finishStep (settle 8 (dispatch ({ (txnFold s items).1 with notified := true }, (txnFold s items).2))) := by
  rw [step_alive_eq env s _ hm]; rfl

end Dnp3.Proofs.Skel
