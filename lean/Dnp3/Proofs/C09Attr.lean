import Dnp3.Proofs.C09AttrValue
import Dnp3.Proofs.C09AttrWriter
import Dnp3.Proofs.C09AttrWalk
/-!
# C09, device attributes: composition of the value, writer and walk theorems

`C09AttrValue` (value grammar), `C09AttrWriter` (`write_all` against its capacity-free
specification) and `C09AttrWalk` (tie to the object-header walk of `Model/ObjectGrammar`) are
combined here into the statements about whole response fragments and series.
-/
namespace Dnp3.Proofs.C09Attr
open Dnp3 Dnp3.Attr Dnp3.App Dnp3.Gen.Attrs
open Dnp3.Proofs.C09AttrValue Dnp3.Proofs.C09AttrWriter Dnp3.Proofs.C09AttrWalk

/-- what a decoded group-0 object must be, given the attribute database: either the attribute
    stored under (set, variation) with its stored value, or (variation 255) the list of all the
    set's variations with their writable flags, in the database's order -/
def Denotes (m : SetMap) (o : Obj) : Prop :=
  o.set < 256 ∧ o.var < 256 ∧ o.var ≠ 0 ∧ o.var ≠ 254 ∧
  if o.var = listVariation then
    ∃ es raw, m.entries o.set = some es ∧ o.value = .list raw ∧ iterList raw = es.map (fun e => (e.var, e.writable))
  else ∃ e, m.get o.set o.var = some e ∧ o.value = e.value

/-- an object image that the library's parser turns back into an object the database denotes -/
def Good (m : SetMap) (img : List Nat) : Prop :=
  ∃ (o : Obj) (vimg : List Nat), img = objHeader o.set o.var ++ vimg ∧ Denotes m o ∧
    ∀ rest, parseValue (vimg ++ rest) = .ok (o.value, rest)

theorem find?_mem_entries {m : SetMap} {set : Nat} {es : List Entry} (h : m.entries set = some es) : (set, es) ∈ m := by
  unfold SetMap.entries at h
  cases hf : m.find? (·.1 == set) with
  | none => rw [hf] at h; cases h
  | some p =>
    rw [hf] at h
    have hp := List.mem_of_find?_eq_some hf
    have hk := List.find?_some hf
    simp only [Option.map_some, Option.some.injEq] at h
    have : p = (set, es) := by
      cases p with
      | mk a b =>
        simp only [beq_iff_eq] at hk
        simp only at h
        subst hk; subst h; rfl
    rw [← this]; exact hp

/-- an entry found by `get` belongs to the set, carries the asked variation, which is not reserved -/
theorem get_mem {m : SetMap} {set var : Nat} {e : Entry} (h : m.get set var = some e) :
    ∃ es, (set, es) ∈ m ∧ e ∈ es ∧ e.var = var ∧ reservedVars.contains var = false := by
  unfold SetMap.get at h
  split at h
  · cases h
  · rename_i hr
    cases he : m.entries set with
    | none => rw [he] at h; cases h
    | some es =>
      rw [he] at h
      simp only at h
      refine ⟨es, find?_mem_entries he, List.mem_of_find?_eq_some h, ?_, by simpa using hr⟩
      have := List.find?_some h
      simpa using this

theorem listVariation_ne : listVariation ≠ 0 ∧ listVariation ≠ 254 ∧ listVariation < 256 := by decide

theorem not_reserved {var : Nat} (h : reservedVars.contains var = false) : var ≠ 0 ∧ var ≠ 254 ∧ var ≠ listVariation := by
  refine ⟨?_, ?_, ?_⟩ <;> (intro hc; subst hc; revert h; decide)

/-- every object the writer can emit parses back to what the database holds -/
theorem objectFor_good (m : SetMap) (hm : m.WF) (set var : Nat) (hs : set < 256) (hvar : var < 256) (img : List Nat)
    (h : objectFor m set var = some img) : Good m img := by
  unfold objectFor at h
  split at h
  · -- the list of variations
    rename_i hl
    cases he : m.entries set with
    | none => rw [he] at h; cases h
    | some es =>
      rw [he] at h
      simp only at h
      cases hli : listImage (es.map fun e => (e.var, e.writable)) with
      | none => rw [hli] at h; cases h
      | some limg =>
        rw [hli] at h
        simp only [Option.map_some, Option.some.injEq] at h
        have hn : (es.map fun e => (e.var, e.writable)).length ≤ 255 := by
          refine Nat.le_of_not_lt fun hc => ?_
          have := attr_list_unencodable _ hc
          rw [this] at hli; cases hli
        obtain ⟨img', raw, h1, _, h3, h4⟩ := attr_list_roundtrip _ hn
        rw [hli] at h1
        cases h1
        refine ⟨⟨set, var, .list raw⟩, limg, ?_, ?_, h3⟩
        · rw [← h, hl]
        · refine ⟨hs, hvar, ?_, ?_, ?_⟩
          · simp only; rw [hl]; exact listVariation_ne.1
          · simp only; rw [hl]; exact listVariation_ne.2.1
          · simp only [hl, if_true]
            exact ⟨es, raw, he, rfl, h4⟩
  · rename_i hl
    cases hg : m.get set var with
    | none => rw [hg] at h; cases h
    | some e =>
      rw [hg] at h
      simp only at h
      cases hi : e.value.image with
      | none => rw [hi] at h; cases h
      | some vimg =>
        rw [hi] at h
        simp only [Option.map_some, Option.some.injEq] at h
        obtain ⟨es, hmem, hein, _, hres⟩ := get_mem hg
        have hwf : e.WF := ((hm.1 _ hmem).2.1) e hein
        have hnr := not_reserved hres
        refine ⟨⟨set, var, e.value⟩, vimg, h.symm, ?_, fun rest => attr_roundtrip e.value vimg rest hwf.2.2 hi⟩
        refine ⟨hs, hvar, hnr.1, hnr.2.1, ?_⟩
        simp only [hl, if_false]
        exact ⟨e, hg, rfl⟩

/-- every object one `Selected` denotes is `objectFor` of its set and some variation octet -/
theorem selObjects_mem (m : SetMap) (s : Selected) (hc : s.cur < 256) (img : List Nat) (h : img ∈ selObjects m s) :
    ∃ k, k < 256 ∧ objectFor m s.set k = some img := by
  fun_induction selObjects m s with
  | case1 s here hstop =>
    simp only [here, Option.mem_toList] at h
    exact ⟨s.cur, hc, h⟩
  | case2 s here hstop hlt ih =>
    rw [List.mem_append] at h
    cases h with
    | inl h => simp only [here, Option.mem_toList] at h; exact ⟨s.cur, hc, h⟩
    | inr h => exact ih (by simp only; omega) h
  | case3 s here hstop hlt =>
    simp only [here, Option.mem_toList] at h
    exact ⟨s.cur, hc, h⟩

theorem allObjects_good (m : SetMap) (hm : m.WF) (sel : List Selected)
    (hsel : ∀ s ∈ sel, s.set < 256 ∧ s.cur < 256) : ∀ img ∈ allObjects m sel, Good m img := by
  intro img h
  unfold allObjects at h
  rw [List.mem_flatMap] at h
  obtain ⟨s, hs, hi⟩ := h
  obtain ⟨k, hk, ho⟩ := selObjects_mem m s (hsel s hs).2 img hi
  exact objectFor_good m hm s.set k (hsel s hs).1 hk img ho

/-- a concatenation of good object images is accepted by the parser (both the attribute object
    parser of `Model/Attr` and the complete header walk of `Model/ObjectGrammar`), one object per
    image, each denoted by the database -/
theorem good_images_parse (m : SetMap) (zls : Bool) (L : List (List Nat)) (h : ∀ img ∈ L, Good m img) :
    ∃ objs : List Obj, parseObjs L.flatten = .ok objs ∧ objs.length = L.length ∧ (∀ o ∈ objs, Denotes m o) ∧
      ∃ recs, walk false zls L.flatten = .ok recs ∧ recs.length = L.length ∧
        ∀ r ∈ recs, r.var.group = 0 ∧ r.kind = .attr := by
  -- choose the decoded object and value image of every image
  have hex : ∃ ps : List (Obj × List Nat), L = ps.map (fun p => objHeader p.1.set p.1.var ++ p.2) ∧
      ∀ p ∈ ps, Denotes m p.1 ∧ ∀ rest, parseValue (p.2 ++ rest) = .ok (p.1.value, rest) := by
    induction L with
    | nil => exact ⟨[], rfl, by simp⟩
    | cons a L ih =>
      obtain ⟨ps, hps, hall⟩ := ih (fun img hi => h img (List.mem_cons_of_mem _ hi))
      obtain ⟨o, vimg, ha, hd, hp⟩ := h a (List.mem_cons_self ..)
      refine ⟨(o, vimg) :: ps, by simp [ha, hps], ?_⟩
      intro p hp'
      rw [List.mem_cons] at hp'
      cases hp' with
      | inl e => subst e; exact ⟨hd, hp⟩
      | inr e => exact hall p e
  obtain ⟨ps, hps, hall⟩ := hex
  have hflat : L.flatten = ps.flatMap (fun p => objHeader p.1.set p.1.var ++ p.2) := by
    rw [hps, List.flatMap_def]
  have hw := walk_attr_objects zls ps (fun p hp =>
    ⟨(hall p hp).1.1, (hall p hp).1.2.1, (hall p hp).1.2.2.1, (hall p hp).1.2.2.2.1, (hall p hp).2⟩)
  rw [← hflat] at hw
  refine ⟨ps.map (·.1), hw.2, by simp [hps], ?_, _, hw.1, by simp [hps], ?_⟩
  · intro o ho
    rw [List.mem_map] at ho
    obtain ⟨p, hp, rfl⟩ := ho
    exact (hall p hp).1
  · intro r hr
    rw [List.mem_map] at hr
    obtain ⟨p, _, rfl⟩ := hr
    exact ⟨rfl, rfl⟩

/-- ONE FRAGMENT.  For every well-formed attribute database, every selection queue and every
    capacity, the fragment `write_all` produces into an empty cursor is accepted by the library's
    parser, consuming every octet, as a sequence of group-0 objects each of which is what the
    database holds (`Denotes`): no fragment ends inside an object. -/
theorem response_fragment_parses_back (m : SetMap) (hm : m.WF) (cap : Nat) (sel : List Selected) (zls : Bool)
    (hsel : ∀ s ∈ sel, s.set < 256 ∧ s.cur < 256) :
    ∃ objs : List Obj, parseObjs (writeAll m cap sel []).1 = .ok objs ∧ (∀ o ∈ objs, Denotes m o) ∧
      ∃ recs, walk false zls (writeAll m cap sel []).1 = .ok recs ∧ recs.length = objs.length := by
  obtain ⟨imgs, h1, h2⟩ := writeAll_exact m cap sel []
  have hg : ∀ img ∈ imgs, Good m img := fun img hi =>
    allObjects_good m hm sel hsel img (by rw [h2]; exact List.mem_append_left _ hi)
  obtain ⟨objs, hp, hl, hd, recs, hw, hrl, _⟩ := good_images_parse m zls imgs hg
  rw [List.nil_append] at h1
  rw [h1]
  exact ⟨objs, hp, hd, recs, hw, by omega⟩

example : exMap.WF ∧ (∀ s ∈ [Selected.all 1, Selected.single 1 255], s.set < 256 ∧ s.cur < 256) ∧
    (writeAll exMap 12 [Selected.all 1, Selected.single 1 255] []).1 = [0, 5, 0, 1, 1, 2, 1, 42] := by
  refine ⟨by simp [exMap, SetMap.WF, Entry.WF, Value.WellFormed, reservedVars], by decide, by decide +kernel⟩

/-- A SERIES of fragments at any capacities: every fragment is accepted by the parser as whole
    objects the database denotes, the object images of the fragments concatenated are a prefix of
    what the READ denotes, and when the series is complete they are all of it. -/
theorem response_series_parses_back (m : SetMap) (hm : m.WF) (caps : List Nat) (sel : List Selected) (zls : Bool)
    (hsel : ∀ s ∈ sel, s.set < 256 ∧ s.cur < 256) :
    (∀ frag ∈ (series m caps sel).1, ∃ objs : List Obj, parseObjs frag = .ok objs ∧ (∀ o ∈ objs, Denotes m o) ∧
        ∃ recs, walk false zls frag = .ok recs ∧ recs.length = objs.length) ∧
    (∃ rest, (allObjects m sel).flatten = ((series m caps sel).1).flatten ++ rest) ∧
    ((series m caps sel).2 = [] → ((series m caps sel).1).flatten = (allObjects m sel).flatten) := by
  obtain ⟨objss, h1, h2⟩ := series_exact m caps sel
  refine ⟨?_, ?_, ?_⟩
  · intro frag hf
    rw [h1, List.mem_map] at hf
    obtain ⟨imgs, hi, rfl⟩ := hf
    have hg : ∀ img ∈ imgs, Good m img := fun img him =>
      allObjects_good m hm sel hsel img (by
        rw [h2]; exact List.mem_append_left _ (List.mem_flatten.mpr ⟨imgs, hi, him⟩))
    obtain ⟨objs, hp, hl, hd, recs, hw, hrl, _⟩ := good_images_parse m zls imgs hg
    exact ⟨objs, hp, hd, recs, hw, by omega⟩
  · refine ⟨(allObjects m (series m caps sel).2).flatten, ?_⟩
    rw [h2, h1, List.flatten_append]
    congr 1
    simp [List.flatten_flatten]
  · intro hc
    rw [h2, h1, hc]
    simp [Attr.allObjects, List.flatten_flatten]

/-- THE MASTER'S REQUEST.  FULL statement (false for the unchanged code, finding D30: `Headers::add_attribute`
    takes the variations 0 and 254, see `build_request_parses_back_counterexample`):
      ∀ cap attrs body, (∀ o ∈ attrs, o.set < 256 ∧ o.var < 256 ∧ o.value.WellFormed) →
        buildWrite cap attrs = .ok body → parseObjs body = .ok attrs
    proved for attributes whose variation is neither 0 nor 254: a request that was built is accepted by the
    parser, consuming every octet, as exactly the attributes given, in order. -/
theorem build_request_parses_back_partial (cap : Nat) (attrs : List Obj) (body : List Nat)
    (hw : ∀ o ∈ attrs, o.set < 256 ∧ o.var < 256 ∧ o.var ≠ 0 ∧ o.var ≠ 254 ∧ o.value.WellFormed)
    (h : buildWrite cap attrs = .ok body) :
    2 + body.length ≤ cap ∧ parseObjs body = .ok attrs ∧
    ∃ recs, walk false false body = .ok recs ∧ recs.length = attrs.length := by
  have h1 := Dnp3.Proofs.C09AttrWalk.build_request_parses_back_partial cap attrs body
    (fun o ho => ⟨(hw o ho).1, (hw o ho).2.1, (hw o ho).2.2.1, (hw o ho).2.2.2.1,
      fun img rest hi => attr_roundtrip o.value img rest (hw o ho).2.2.2.2 hi⟩) h
  exact ⟨(buildWrite_ok cap attrs body h).1, h1.1, h1.2⟩

example : (∀ o ∈ [(⟨1, 196, .int (-1)⟩ : Obj)], o.set < 256 ∧ o.var < 256 ∧ o.var ≠ 0 ∧ o.var ≠ 254 ∧ o.value.WellFormed) ∧
    buildWrite 100 [⟨1, 196, .int (-1)⟩] = .ok [0, 196, 0, 1, 1, 3, 1, 255] := by
  refine ⟨?_, rfl⟩
  intro o ho
  simp only [List.mem_singleton] at ho
  subst ho
  refine ⟨by decide, by decide, by decide, by decide, ?_⟩
  simp [Value.WellFormed]

end Dnp3.Proofs.C09Attr
