import Dnp3.Model.Measurement
/-!
Helper lemmas for C10 (`Dnp3.Props.C10`): exact comparison / truncation of dyadic values,
the closed form `toInt` of the generated integer-conversion rows and its saturation law, the
common-time round trip.
-/
namespace Dnp3.Meas
open Dnp3.Gen.Conv
set_option linter.unusedVariables false

/-! ### `magGt` / `magTrunc` are exact: they are the integer statements of `m·2^e > K` and `⌊m·2^e⌋` -/

theorem magGt_nonneg (m : Nat) (e : Int) (K : Nat) (he : 0 ≤ e) :
    magGt m e K = true ↔ K < m * 2 ^ e.toNat := by
  simp [magGt, he]

/-- for `e < 0`, with `d = 2^(-e)`: `m/d > K  ↔  m > K·d` (cross multiplication, no rounding) -/
theorem magGt_neg (m : Nat) (e : Int) (K : Nat) (he : ¬ 0 ≤ e) :
    magGt m e K = true ↔ K * 2 ^ (-e).toNat < m := by
  simp [magGt, he]

/-- for `e < 0`, with `d = 2^(-e)`: `magTrunc` is the floor: `t·d ≤ m < (t+1)·d` -/
theorem magTrunc_floor (m : Nat) (e : Int) (he : ¬ 0 ≤ e) :
    magTrunc m e * 2 ^ (-e).toNat ≤ m ∧ m < (magTrunc m e + 1) * 2 ^ (-e).toNat := by
  have hd : 0 < 2 ^ (-e).toNat := Nat.two_pow_pos _
  simp only [magTrunc, he, if_false]
  constructor
  · exact Nat.div_mul_le_self m _
  · have := Nat.lt_succ_iff.mpr (Nat.le_refl (m / 2 ^ (-e).toNat))
    exact (Nat.div_lt_iff_lt_mul hd).mp this

theorem magTrunc_le_of_not_gt (m : Nat) (e : Int) (K : Nat) (h : magGt m e K = false) :
    magTrunc m e ≤ K := by
  by_cases he : 0 ≤ e
  · have : ¬ (K < m * 2 ^ e.toNat) := by
      intro hh; have := (magGt_nonneg m e K he).mpr hh; simp [h] at this
    simp only [magTrunc, he, if_true]; omega
  · have hn : ¬ (K * 2 ^ (-e).toNat < m) := by
      intro hh; have := (magGt_neg m e K he).mpr hh; simp [h] at this
    simp only [magTrunc, he, if_false]
    apply Nat.div_le_of_le_mul
    rw [Nat.mul_comm]; omega

theorem le_magTrunc_of_gt (m : Nat) (e : Int) (K : Nat) (h : magGt m e K = true) :
    K ≤ magTrunc m e := by
  by_cases he : 0 ≤ e
  · have := (magGt_nonneg m e K he).mp h
    simp only [magTrunc, he, if_true]; omega
  · have hh := (magGt_neg m e K he).mp h
    have hd : 0 < 2 ^ (-e).toNat := Nat.two_pow_pos _
    simp only [magTrunc, he, if_false]
    exact (Nat.le_div_iff_mul_le hd).mpr (Nat.le_of_lt hh)

/-! ### specification of the integer conversions -/

/-- truncation toward zero of a finite value -/
def truncInt (neg : Bool) (m : Nat) (e : Int) : Int :=
  if neg then -((magTrunc m e : Nat) : Int) else ((magTrunc m e : Nat) : Int)

/-- the value is not representable in `[-N, P]`: NaN, ±infinity, or a finite value whose exact
value lies outside the range -/
def outOfRange (N P : Nat) : AVal → Bool
  | .nan => true
  | .inf _ => true
  | .fin neg m e => (neg && magGt m e N) || (!neg && magGt m e P)

/-- clamp of the truncation into `[-N, P]`; 0 for NaN -/
def clampTrunc (N P : Nat) : AVal → Int
  | .nan => 0
  | .inf true => -(N : Int)
  | .inf false => (P : Int)
  | .fin neg m e => max (-(N : Int)) (min (P : Int) (truncInt neg m e))

/-- closed form of `AnalogConversions::to_i16 / to_i32` with `MIN = -N`, `MAX = P`:
`if v.is_nan() {(flags|OVER_RANGE, 0)} else if v < MIN {(flags|OVER_RANGE, MIN)}
 else if v > MAX {(flags|OVER_RANGE, MAX)} else {(flags, v as iN)}`.
`toI16_eq_toInt` / `toI32_eq_toInt` prove that this is what the GENERATED rows compute. -/
def toInt (N P : Nat) (v : AVal) (flags : Nat) : Nat × Int :=
  match v with
  | .nan => (setOverRange flags, 0)
  | .inf true => (setOverRange flags, -(N : Int))
  | .inf false => (setOverRange flags, (P : Int))
  | .fin neg m e =>
    if neg && magGt m e N then (setOverRange flags, -(N : Int))
    else if !neg && magGt m e P then (setOverRange flags, (P : Int))
    else (flags, truncInt neg m e)

/-- the row shape of an integer conversion in the patched source: NaN first, then the two bounds -/
def intRow (c : Conv) (t : WTy) : AConv :=
  ⟨c, t, [⟨.isNan, true, .zero⟩, ⟨.ltMin, true, .min⟩, ⟨.gtMax, true, .max⟩], false, .cast⟩

/-- Rust's saturating cast agrees with plain truncation once both bound guards have failed -/
theorem castInt_in_range (N P : Nat) (neg : Bool) (m : Nat) (e : Int)
    (h : (if neg then magGt m e N else magGt m e P) = false) :
    castInt N P (.fin neg m e) = truncInt neg m e := by
  cases neg
  · have := magTrunc_le_of_not_gt m e P (by simpa using h)
    have h' : ¬ (magTrunc m e > P) := by omega
    simp [castInt, truncInt, h']
  · have := magTrunc_le_of_not_gt m e N (by simpa using h)
    have h' : ¬ (magTrunc m e > N) := by omega
    simp [castInt, truncInt, h']

/-- interpreting a row of that shape gives the closed form -/
theorem runConv_intRow (N P : Nat) (c : Conv) (t : WTy) (v : AVal) (flags : Nat) :
    runConv (intRow c t) (fun g => guardHolds N P g v) (retInt N P v) flags = toInt N P v flags := by
  cases v with
  | nan => rfl
  | inf neg => cases neg <;> rfl
  | fin neg m e =>
    cases neg
    · by_cases h : magGt m e P = true
      · simp [runConv, intRow, evalConv, guardHolds, retInt, toInt, h]
      · have h' : magGt m e P = false := by simpa using h
        have hc := castInt_in_range N P false m e (by simpa using h')
        simp [runConv, intRow, evalConv, guardHolds, retInt, toInt, h', hc]
    · by_cases h : magGt m e N = true
      · simp [runConv, intRow, evalConv, guardHolds, retInt, toInt, h]
      · have h' : magGt m e N = false := by simpa using h
        have hc := castInt_in_range N P true m e (by simpa using h')
        simp [runConv, intRow, evalConv, guardHolds, retInt, toInt, h', hc]

/-- the generated rows of `to_i16` / `to_i32` have exactly that shape (fails to compile when the
source of either method changes shape, e.g. loses its NaN branch) -/
theorem convRow_int :
    convRow .toI16 = some (intRow .toI16 .i16) ∧ convRow .toI32 = some (intRow .toI32 .i32) := by
  decide

theorem toI16_eq_toInt (v : AVal) (flags : Nat) : toI16 v flags = toInt 32768 32767 v flags := by
  simp only [toI16, convInt, convRow_int.1]
  exact runConv_intRow 32768 32767 .toI16 .i16 v flags

theorem toI32_eq_toInt (v : AVal) (flags : Nat) :
    toI32 v flags = toInt 2147483648 2147483647 v flags := by
  simp only [toI32, convInt, convRow_int.2]
  exact runConv_intRow 2147483648 2147483647 .toI32 .i32 v flags

theorem toInt_fin (N P : Nat) (hNP : P ≤ N) (neg : Bool) (m : Nat) (e : Int) (flags : Nat) :
    toInt N P (.fin neg m e) flags =
      (if outOfRange N P (.fin neg m e) then setOverRange flags else flags,
       clampTrunc N P (.fin neg m e)) := by
  cases neg
  · -- non-negative
    by_cases h : magGt m e P = true
    · have := le_magTrunc_of_gt m e P h
      simp only [toInt, outOfRange, clampTrunc, truncInt, h, Bool.false_and, Bool.not_false,
        Bool.true_and, Bool.false_or, if_true, Bool.false_eq_true, if_false]
      congr 1; omega
    · have h' : magGt m e P = false := by simpa using h
      have := magTrunc_le_of_not_gt m e P h'
      simp only [toInt, outOfRange, clampTrunc, truncInt, h', Bool.false_and, Bool.not_false,
        Bool.true_and, Bool.false_or, Bool.false_eq_true, if_false]
      congr 1; omega
  · by_cases h : magGt m e N = true
    · have := le_magTrunc_of_gt m e N h
      simp only [toInt, outOfRange, clampTrunc, truncInt, h, Bool.true_and, Bool.not_true,
        Bool.false_and, Bool.or_false, if_true]
      congr 1; omega
    · have h' : magGt m e N = false := by simpa using h
      have := magTrunc_le_of_not_gt m e N h'
      simp only [toInt, outOfRange, clampTrunc, truncInt, h', Bool.true_and, Bool.not_true,
        Bool.false_and, Bool.or_false, Bool.false_eq_true, if_false, if_true]
      congr 1; omega

/-- the saturation law for EVERY value, NaN included (NaN: 0 and OVER_RANGE) -/
theorem toInt_spec (N P : Nat) (hNP : P ≤ N) (v : AVal) (flags : Nat) :
    toInt N P v flags =
      (if outOfRange N P v then setOverRange flags else flags, clampTrunc N P v) := by
  cases v with
  | nan => rfl
  | inf neg => cases neg <;> rfl
  | fin neg m e => exact toInt_fin N P hNP neg m e flags

/-- the exact value of `.fin _ m e` is the integer of magnitude `k` -/
def isInteger (m : Nat) (e : Int) (k : Nat) : Prop :=
  if 0 ≤ e then k = m * 2 ^ e.toNat else m = k * 2 ^ (-e).toNat

theorem magTrunc_of_isInteger (m : Nat) (e : Int) (k : Nat) (h : isInteger m e k) :
    magTrunc m e = k := by
  unfold isInteger at h
  by_cases he : 0 ≤ e
  · simp only [he, if_true] at h; simp [magTrunc, he, h]
  · simp only [he, if_false] at h
    have hd : 0 < 2 ^ (-e).toNat := Nat.two_pow_pos _
    simp only [magTrunc, he, if_false, h]
    exact Nat.mul_div_cancel k hd

theorem magGt_of_isInteger (m : Nat) (e : Int) (k K : Nat) (h : isInteger m e k) (hk : k ≤ K) :
    magGt m e K = false := by
  unfold isInteger at h
  by_cases he : 0 ≤ e
  · simp only [he, if_true] at h
    have : ¬ (K < m * 2 ^ e.toNat) := by omega
    simp [magGt, he, this]
  · simp only [he, if_false] at h
    have hd : 0 < 2 ^ (-e).toNat := Nat.two_pow_pos _
    have : ¬ (K * 2 ^ (-e).toNat < m) := by
      rw [h]; intro hh
      have := Nat.lt_of_mul_lt_mul_right hh
      omega
    simp [magGt, he, this]

/-- a value that IS an integer of the range arrives unchanged, flags unchanged -/
theorem toInt_integer (N P : Nat) (neg : Bool) (m : Nat) (e : Int) (k : Nat) (flags : Nat)
    (hk : isInteger m e k) (hin : if neg then k ≤ N else k ≤ P) :
    toInt N P (.fin neg m e) flags = (flags, if neg then -((k : Nat) : Int) else ((k : Nat) : Int)) := by
  have ht := magTrunc_of_isInteger m e k hk
  cases neg
  · have hg := magGt_of_isInteger m e k P hk (by simpa using hin)
    simp [toInt, truncInt, hg, ht]
  · have hg := magGt_of_isInteger m e k N hk (by simpa using hin)
    simp [toInt, truncInt, hg, ht]

/-! ### common time of occurrence -/

theorem checkedAdd_zero (t : Time) (h : t.ms ≤ TS_MAX) : t.checkedAdd 0 = some t := by
  unfold Time.checkedAdd
  have : ¬ (0 > TS_MAX - t.ms) := by omega
  simp [this]

theorem checkedAdd_of_fits (c t : Time) (ht : t.ms ≤ TS_MAX) (h : ctoFits c t = true) :
    c.checkedAdd (t.ms - c.ms) = some t := by
  unfold ctoFits at h
  simp only [Bool.and_eq_true, beq_iff_eq, decide_eq_true_eq] at h
  obtain ⟨⟨hs, hle⟩, _⟩ := h
  unfold Time.checkedAdd
  have : ¬ (t.ms - c.ms > TS_MAX - c.ms) := by omega
  simp only [this, if_false]
  cases t; cases c; simp_all

/-- the master-side fold over what the event writer produces returns every event's exact time
and quality, whatever header state the writer starts from (as long as the master's current
common time is the writer's) -/
theorem masterFold_write (evs : List (Bool × TEv)) :
    (∀ p ∈ evs, p.2.time.ms ≤ TS_MAX) →
    ∀ (st : Option (Time × Nat)) (c : Option Time),
      (∀ t n, st = some (t, n) → c = some t) →
      masterFold c (writeCtoEvents st evs) =
        evs.map fun p => (p.2.idx, p.2.flags, some p.2.time) := by
  induction evs with
  | nil => intros; rfl
  | cons p es ih =>
    intro hms st c hst
    obtain ⟨brk, e⟩ := p
    have he : e.time.ms ≤ TS_MAX := hms (brk, e) (List.mem_cons_self ..)
    have hes : ∀ p ∈ es, p.2.time.ms ≤ TS_MAX := fun p hp => hms p (List.mem_cons_of_mem _ hp)
    have fresh : masterFold c (.cto e.time :: .ev e.idx e.flags 0 :: writeCtoEvents (some (e.time, 1)) es)
        = (e.idx, e.flags, some e.time) :: es.map fun p => (p.2.idx, p.2.flags, some p.2.time) := by
      simp only [masterFold, Option.bind_some, checkedAdd_zero e.time he]
      rw [ih hes (some (e.time, 1)) (some e.time) (by intro t n h; cases h; rfl)]
    simp only [writeCtoEvents, List.map_cons]
    cases hb : (if brk = true then none else st) with
    | none => simpa using fresh
    | some cn =>
      obtain ⟨c', count⟩ := cn
      have hst' : st = some (c', count) := by
        cases brk <;> simp_all
      have hc : c = some c' := hst c' count hst'
      by_cases hf : (decide (count < 65535) && ctoFits c' e.time) = true
      · simp only [hf, if_true]
        have hfit : ctoFits c' e.time = true := by
          simp only [Bool.and_eq_true] at hf; exact hf.2
        simp only [masterFold, hc, Option.bind_some, checkedAdd_of_fits c' e.time he hfit]
        rw [← hc, ih hes (some (c', count + 1)) c (by intro t n h; cases h; exact hc)]
      · simp only [hf, if_false, Bool.false_eq_true]
        simpa using fresh

end Dnp3.Meas
