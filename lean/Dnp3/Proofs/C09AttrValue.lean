import Dnp3.Model.Attr
/-!
# C09 — device-attribute values (`Dnp3.Attr`): encode / parse round trip, the list of variations,
exact acceptance of `AttrValue::parse`, agreement with the value-less object walk.
-/

namespace Dnp3.Proofs.C09AttrValue
open Dnp3.Attr Dnp3.App Dnp3.Gen.Attrs

theorem leBytes_length (k n : Nat) : (leBytes k n).length = k := by
  induction k generalizing n with
  | zero => rfl
  | succ k ih => simp [leBytes, ih]

theorem ofLe_leBytes (k n : Nat) : ofLe (leBytes k n) = n % 256 ^ k := by
  induction k generalizing n with
  | zero => simp [leBytes, ofLe, Nat.mod_one]
  | succ k ih =>
    simp only [leBytes, ofLe, ih]
    rw [Nat.pow_succ, Nat.mul_comm (256 ^ k) 256, Nat.mod_mul]

theorem attrTake_append {n : Nat} {d rest : List Nat} (h : d.length = n) :
    attrTake n (d ++ rest) = .ok (d, rest) := by
  subst h
  simp [attrTake, take?]

theorem typeOfCode_code (dt : DataType) : typeOfCode dt.code = some dt := by
  cases dt <;> rfl

theorem signExt_wrap8 (i : Int) (h1 : -128 ≤ i) (h2 : i < 128) : signExt 8 (wrap 8 i % 256 ^ 1) = i := by
  unfold signExt wrap
  simp only [show (2:Nat) ^ 8 = 256 from rfl, show (2:Nat) ^ (8 - 1) = 128 from rfl]
  split <;> omega

theorem signExt_wrap16 (i : Int) (h1 : -32768 ≤ i) (h2 : i < 32768) : signExt 16 (wrap 16 i % 256 ^ 2) = i := by
  unfold signExt wrap
  simp only [show (2:Nat) ^ 16 = 65536 from rfl, show (2:Nat) ^ (16 - 1) = 32768 from rfl]
  split <;> omega

theorem signExt_wrap32 (i : Int) (h1 : -2147483648 ≤ i) (h2 : i < 2147483648) : signExt 32 (wrap 32 i % 256 ^ 4) = i := by
  unfold signExt wrap
  simp only [show (2:Nat) ^ 32 = 4294967296 from rfl, show (2:Nat) ^ (32 - 1) = 2147483648 from rfl]
  split <;> omega

/-- parse (encode v) = v, consuming exactly the encoded octets: for every value an `OwnedAttrValue` can hold -/
theorem attr_roundtrip (v : Value) (img rest : List Nat) (hv : v.WellFormed) (h : v.image = some img) :
    parseValue (img ++ rest) = .ok (v, rest) := by
  cases v with
  | vstr bs =>
    simp only [Value.image] at h
    split at h
    · cases h
      obtain ⟨_, hu⟩ := hv
      simp only [parseValue, List.cons_append, typeOfCode_code, attrTake_append rfl, hu, if_true]
    · cases h
  | ostr bs =>
    simp only [Value.image] at h
    split at h
    · cases h
      simp only [parseValue, List.cons_append, typeOfCode_code, attrTake_append rfl]
    · cases h
  | bstr bs =>
    simp only [Value.image] at h
    split at h
    · cases h
      simp only [parseValue, List.cons_append, typeOfCode_code, attrTake_append rfl]
    · cases h
  | uint n =>
    simp only [Value.image, Option.some.injEq] at h
    subst h
    simp only [Value.WellFormed] at hv
    have hl : uintLen n = 1 ∨ uintLen n = 2 ∨ uintLen n = 4 := by unfold uintLen; split <;> (try split) <;> simp
    simp only [parseValue, List.cons_append, typeOfCode_code, hl, if_true,
      attrTake_append (leBytes_length _ _), ofLe_leBytes]
    have : n % 256 ^ uintLen n = n := by
      unfold uintLen
      split
      · simp only [show (256:Nat) ^ 1 = 256 from rfl]; omega
      · split
        · simp only [show (256:Nat) ^ 2 = 65536 from rfl]; omega
        · simp only [show (256:Nat) ^ 4 = 4294967296 from rfl]; simp only [show (2:Nat) ^ 32 = 4294967296 from rfl] at hv; omega
    rw [this]
  | int i =>
    simp only [Value.image, Option.some.injEq] at h
    subst h
    simp only [Value.WellFormed] at hv
    have hl : intLen i = 1 ∨ intLen i = 2 ∨ intLen i = 4 := by unfold intLen; split <;> (try split) <;> simp
    simp only [parseValue, List.cons_append, typeOfCode_code, hl, if_true,
      attrTake_append (leBytes_length _ _), ofLe_leBytes]
    have : signExt (8 * intLen i) (wrap (8 * intLen i) i % 256 ^ intLen i) = i := by
      unfold intLen
      split
      · exact signExt_wrap8 i (by omega) (by omega)
      · split
        · exact signExt_wrap16 i (by omega) (by omega)
        · exact signExt_wrap32 i (by omega) (by omega)
    rw [this]
  | f32 b =>
    simp only [Value.image, Option.some.injEq] at h
    subst h
    simp only [Value.WellFormed] at hv
    simp only [parseValue, List.cons_append, typeOfCode_code, if_true,
      attrTake_append (leBytes_length _ _), ofLe_leBytes]
    have : b % 256 ^ 4 = b := by
      simp only [show (256:Nat) ^ 4 = 4294967296 from rfl]; simp only [show (2:Nat) ^ 32 = 4294967296 from rfl] at hv; omega
    rw [this]
  | f64 b =>
    simp only [Value.image, Option.some.injEq] at h
    subst h
    simp only [Value.WellFormed] at hv
    simp only [parseValue, List.cons_append, typeOfCode_code, if_true,
      attrTake_append (leBytes_length _ _), ofLe_leBytes]
    have : b % 256 ^ 8 = b := by
      simp only [show (256:Nat) ^ 8 = 18446744073709551616 from rfl]; simp only [show (2:Nat) ^ 64 = 18446744073709551616 from rfl] at hv; omega
    simp [this]
  | time t =>
    simp only [Value.image, Option.some.injEq] at h
    subst h
    simp only [Value.WellFormed] at hv
    simp only [parseValue, List.cons_append, typeOfCode_code,
      attrTake_append (leBytes_length _ _), ofLe_leBytes]
    have : t % 256 ^ 6 = t := by
      simp only [show (256:Nat) ^ 6 = 281474976710656 from rfl]; simp only [show (2:Nat) ^ 48 = 281474976710656 from rfl] at hv; omega
    simp [this]
  | list _ => cases h

-- non-vacuity of `attr_roundtrip`
example : (Value.int (-1)).WellFormed ∧ (Value.int (-1)).image = some [3, 1, 255] :=
  ⟨by unfold Value.WellFormed; omega, by decide⟩
example : (Value.int 127).WellFormed ∧ (Value.int 127).image = some [3, 2, 127, 0] :=
  ⟨by unfold Value.WellFormed; omega, by decide⟩
example : (Value.vstr [0x41, 0xC3, 0xA9]).WellFormed ∧ (Value.vstr [0x41, 0xC3, 0xA9]).image = some [1, 3, 0x41, 0xC3, 0xA9] := by
  refine ⟨⟨?_, by decide⟩, by decide⟩
  intro b hb; simp only [List.mem_cons, List.not_mem_nil, or_false] at hb; omega
example : parseValue ([3, 1, 255] ++ [9, 9]) = .ok (.int (-1), [9, 9]) :=
  attr_roundtrip (.int (-1)) [3, 1, 255] [9, 9] (by unfold Value.WellFormed; omega) (by decide)

example : (Value.int (-1)).image = some [3, 1, 255] := by decide
example : parseValue [3, 1, 255] = .ok (.int (-1), []) := by rfl
example : parseValue [255, 1, 0] = .error (.badAttrListLength 257) := by rfl

/-- an owned value has no encoding exactly when it is a string / octet string / bit string longer than 255 octets -/
theorem attr_image_none_iff (v : Value) (hv : v.WellFormed) : v.image = none ↔ 255 < valueLen v := by
  cases v with
  | vstr bs => simp only [Value.image, valueLen]; split <;> simp <;> omega
  | ostr bs => simp only [Value.image, valueLen]; split <;> simp <;> omega
  | bstr bs => simp only [Value.image, valueLen]; split <;> simp <;> omega
  | list _ => exact hv.elim
  | _ => simp [Value.image, valueLen]

-- non-vacuity of `attr_image_none_iff`: both sides occur
example : (Value.ostr (List.replicate 256 0)).WellFormed := by
  intro b hb; rw [List.eq_of_mem_replicate hb]; omega
example : (Value.ostr (List.replicate 256 0)).image = none := by
  simp only [Value.image, List.length_replicate, show ¬ (256 ≤ 255) by omega, if_false]
example : (Value.uint 70000).WellFormed ∧ (Value.uint 70000).image = some [2, 4, 112, 17, 1, 0] :=
  ⟨by unfold Value.WellFormed; omega, by decide⟩

theorem uintLen_le (n : Nat) : 1 ≤ uintLen n ∧ uintLen n ≤ 4 := by
  unfold uintLen; split <;> (try split) <;> omega

theorem intLen_le (i : Int) : 1 ≤ intLen i ∧ intLen i ≤ 4 := by
  unfold intLen; split <;> (try split) <;> omega

/-- the encoded length: 2 octets of type and length plus the payload (at most 257 octets in all) -/
theorem attr_image_length (v : Value) (img : List Nat) (h : v.image = some img) : 2 ≤ img.length ∧ img.length ≤ 257 := by
  cases v with
  | vstr bs => simp only [Value.image] at h; split at h <;> cases h; simp only [List.length_cons]; omega
  | ostr bs => simp only [Value.image] at h; split at h <;> cases h; simp only [List.length_cons]; omega
  | bstr bs => simp only [Value.image] at h; split at h <;> cases h; simp only [List.length_cons]; omega
  | uint n =>
    simp only [Value.image, Option.some.injEq] at h; subst h
    have := uintLen_le n
    simp only [List.length_cons, leBytes_length]; omega
  | int i =>
    simp only [Value.image, Option.some.injEq] at h; subst h
    have := intLen_le i
    simp only [List.length_cons, leBytes_length]; omega
  | f32 b => simp only [Value.image, Option.some.injEq] at h; subst h; simp only [List.length_cons, leBytes_length]; omega
  | f64 b => simp only [Value.image, Option.some.injEq] at h; subst h; simp only [List.length_cons, leBytes_length]; omega
  | time b => simp only [Value.image, Option.some.injEq] at h; subst h; simp only [List.length_cons, leBytes_length]; omega
  | list _ => cases h

example : (Value.f64 0).image = some [4, 8, 0, 0, 0, 0, 0, 0, 0, 0] := by decide
example : ((Value.ostr (List.replicate 255 7)).image.map List.length) = some 257 := by
  simp only [Value.image, List.length_replicate, Nat.le_refl, if_true, Option.map_some, List.length_cons]

/-! ## lists -/

theorem flat_length (items : List (Nat × Bool)) :
    (items.flatMap fun (v, w) => [v, if w then 1 else 0]).length = 2 * items.length := by
  induction items with
  | nil => rfl
  | cons x r ih => obtain ⟨v, w⟩ := x; simp only [List.flatMap_cons, List.length_append, ih, List.length_cons, List.length_nil]; omega

theorem iter_pairs_flat (items : List (Nat × Bool)) :
    iterList (pairs (items.flatMap fun (v, w) => [v, if w then 1 else 0])) = items := by
  induction items with
  | nil => rfl
  | cons x r ih =>
    obtain ⟨v, w⟩ := x
    simp only [List.flatMap_cons, List.cons_append, List.nil_append, pairs]
    simp only [iterList, List.map_cons] at ih ⊢
    rw [ih]
    cases w <;> simp [propWritableBit]

theorem parseList_ok {len : Nat} {d rest : List Nat} (h2 : len % 2 = 0) (hd : d.length = len) :
    parseList len (d ++ rest) = .ok (.list (pairs d), rest) := by
  simp [parseList, parseListModulus, h2, attrTake_append hd]

theorem listEncoding_small {n : Nat} (h : n ≤ 127) : listEncoding n = some (2 * n, .attrList) := by
  have h1 : n * listEntryOctets ≤ 255 := by simp only [listEntryOctets]; omega
  simp only [listEncoding, if_pos h1]
  simp only [listEntryOctets, Nat.mul_comm]

theorem listEncoding_ext {n : Nat} (h : 127 < n) (h' : n ≤ 255) :
    listEncoding n = some (2 * n - 256, .extAttrList) := by
  have h1 : ¬ n * listEntryOctets ≤ 255 := by simp only [listEntryOctets]; omega
  have h2 : extListBias ≤ n * listEntryOctets ∧ n * listEntryOctets - extListBias ≤ 255 := by
    simp only [listEntryOctets, extListBias]; omega
  simp only [listEncoding, if_neg h1, if_pos h2]
  simp only [listEntryOctets, extListBias, Nat.mul_comm]

theorem listEncoding_none {n : Nat} (h : 255 < n) : listEncoding n = none := by
  have h1 : ¬ n * listEntryOctets ≤ 255 := by simp only [listEntryOctets]; omega
  have h2 : ¬ (extListBias ≤ n * listEntryOctets ∧ n * listEntryOctets - extListBias ≤ 255) := by
    simp only [listEntryOctets, extListBias]; omega
  simp only [listEncoding, if_neg h1, if_neg h2]

/-- the list of variations round-trips for EVERY length the encoding can express (0..255 entries), across the
    127/128 boundary between the plain and the extended list; the decoded `raw` does not depend on what follows -/
theorem attr_list_roundtrip (items : List (Nat × Bool)) (hn : items.length ≤ 255) :
    ∃ img raw, listImage items = some img ∧ img.length = 2 + 2 * items.length ∧
      (∀ rest : List Nat, parseValue (img ++ rest) = .ok (.list raw, rest)) ∧ iterList raw = items := by
  have hlen := flat_length items
  by_cases hs : items.length ≤ 127
  · have henc := listEncoding_small hs
    refine ⟨_, _, by simp only [listImage, henc]; rfl, ?_, ?_, iter_pairs_flat items⟩
    · simp only [List.length_cons, hlen]; omega
    · intro rest
      simp only [parseValue, List.cons_append, typeOfCode_code]
      exact parseList_ok (by omega) hlen
  · have henc := listEncoding_ext (by omega) hn
    refine ⟨_, _, by simp only [listImage, henc]; rfl, ?_, ?_, iter_pairs_flat items⟩
    · simp only [List.length_cons, hlen]; omega
    · intro rest
      simp only [parseValue, List.cons_append, typeOfCode_code, parseExtListBias]
      exact parseList_ok (by omega) (by rw [hlen]; omega)

-- non-vacuity / concrete instance of `attr_list_roundtrip`
example : listImage [(196, false), (247, true)] = some [254, 4, 196, 0, 247, 1] := by decide
example : parseValue [254, 4, 196, 0, 247, 1, 9] = .ok (.list [(196, 0), (247, 1)], [9]) := by rfl
example : iterList [(196, 0), (247, 1)] = [(196, false), (247, true)] := by decide

/-- the statement with `rest` fixed in advance (corollary) -/
theorem attr_list_roundtrip_rest (items : List (Nat × Bool)) (rest : List Nat) (hn : items.length ≤ 255) :
    ∃ img raw, listImage items = some img ∧ img.length = 2 + 2 * items.length ∧
      parseValue (img ++ rest) = .ok (.list raw, rest) ∧ iterList raw = items := by
  obtain ⟨img, raw, h1, h2, h3, h4⟩ := attr_list_roundtrip items hn
  exact ⟨img, raw, h1, h2, h3 rest, h4⟩

/-- beyond 255 entries there is no encoding (`get_list_encoding` = None: nothing is written) -/
theorem attr_list_unencodable (items : List (Nat × Bool)) (h : 255 < items.length) : listImage items = none := by
  simp only [listImage, listEncoding_none h]

example : 255 < (List.replicate 256 (1, true)).length := by simp only [List.length_replicate]; omega

/-- the boundaries of `get_list_encoding` -/
theorem list_encoding_boundaries :
    listEncoding 0 = some (0, .attrList) ∧ listEncoding 127 = some (254, .attrList) ∧
    listEncoding 128 = some (0, .extAttrList) ∧ listEncoding 129 = some (2, .extAttrList) ∧
    listEncoding 255 = some (254, .extAttrList) ∧ listEncoding 256 = none := by
  decide

/-- for every n: the length octet written is what the parser turns back into 2n octets -/
theorem list_encoding_exact (n len : Nat) (dt : DataType) (h : listEncoding n = some (len, dt)) :
    len ≤ 255 ∧ ((dt = .attrList ∧ len = 2 * n) ∨ (dt = .extAttrList ∧ len + parseExtListBias = 2 * n)) := by
  simp only [parseExtListBias]
  by_cases h1 : n ≤ 127
  · rw [listEncoding_small h1] at h
    simp only [Option.some.injEq, Prod.mk.injEq] at h
    obtain ⟨rfl, rfl⟩ := h
    exact ⟨by omega, .inl ⟨rfl, rfl⟩⟩
  · by_cases h2 : n ≤ 255
    · rw [listEncoding_ext (by omega) h2] at h
      simp only [Option.some.injEq, Prod.mk.injEq] at h
      obtain ⟨rfl, rfl⟩ := h
      exact ⟨by omega, .inr ⟨rfl, by omega⟩⟩
    · rw [listEncoding_none (by omega)] at h
      cases h

example : listEncoding 200 = some (144, .extAttrList) := by decide

/-! ## acceptance -/

theorem attrTake_ok_iff {n : Nat} {bs d rest : List Nat} :
    attrTake n bs = .ok (d, rest) ↔ bs = d ++ rest ∧ d.length = n :=
  ⟨attrTake_length, fun ⟨h1, h2⟩ => h1 ▸ attrTake_append h2⟩

/-- `match attrTake n r with | .error e => .error e | .ok (d, rest) => if g d then .ok (f d, rest) else .error e0`
    accepts exactly the `d ++ rest` with `d` of `n` octets passing `g` -/
theorem take_guard_iff {n : Nat} {r rest : List Nat} {v : Value} (f : List Nat → Value) (g : List Nat → Bool)
    (e0 : AttrErr) {x : Except AttrErr (Value × List Nat)}
    (hx : x = match attrTake n r with
      | .error e => .error e
      | .ok (d, rest) => if g d then .ok (f d, rest) else .error e0) :
    x = .ok (v, rest) ↔ ∃ d, r = d ++ rest ∧ n = d.length ∧ g d = true ∧ v = f d := by
  subst hx
  cases ht : attrTake n r with
  | error e =>
    simp only [reduceCtorEq, false_iff, not_exists]
    intro d ⟨h1, h2, _⟩
    rw [attrTake_ok_iff.2 ⟨h1, h2.symm⟩] at ht; cases ht
  | ok p =>
    obtain ⟨d, rs⟩ := p
    obtain ⟨h1, h2⟩ := attrTake_length ht
    constructor
    · intro h
      simp only at h
      split at h
      · simp only [Except.ok.injEq, Prod.mk.injEq] at h
        obtain ⟨rfl, rfl⟩ := h
        exact ⟨d, h1, h2.symm, by assumption, rfl⟩
      · cases h
    · rintro ⟨d', h1', h2', hg, rfl⟩
      rw [attrTake_ok_iff.2 ⟨h1', h2'.symm⟩] at ht
      cases ht
      simp only [hg, if_true]

theorem take_then_iff {n : Nat} {r rest : List Nat} {v : Value} (f : List Nat → Value)
    {x : Except AttrErr (Value × List Nat)}
    (hx : x = match attrTake n r with | .error e => .error e | .ok (d, rest) => .ok (f d, rest)) :
    x = .ok (v, rest) ↔ ∃ d, r = d ++ rest ∧ n = d.length ∧ v = f d := by
  subst hx
  cases ht : attrTake n r with
  | error e =>
    simp only [reduceCtorEq, false_iff, not_exists]
    intro d ⟨h1, h2, _⟩
    rw [attrTake_ok_iff.2 ⟨h1, h2.symm⟩] at ht; cases ht
  | ok p =>
    obtain ⟨d, rs⟩ := p
    obtain ⟨h1, h2⟩ := attrTake_length ht
    simp only [Except.ok.injEq, Prod.mk.injEq]
    constructor
    · rintro ⟨rfl, rfl⟩; exact ⟨d, h1, h2.symm, rfl⟩
    · rintro ⟨d', h1', h2', rfl⟩
      rw [attrTake_ok_iff.2 ⟨h1', h2'.symm⟩] at ht
      cases ht; exact ⟨rfl, rfl⟩

theorem rhs_iff (t len : Nat) (r rest : List Nat) (v : Value) :
    (∃ t' len' dt d, t :: len :: r = t' :: len' :: (d ++ rest) ∧ typeOfCode t' = some dt ∧
        impliedLen dt len' = some d.length ∧ (dt = .visibleString → validUtf8 d = true) ∧
        v = decodePayload dt len' d) ↔
    ∃ dt, typeOfCode t = some dt ∧ ∃ d, r = d ++ rest ∧ impliedLen dt len = some d.length ∧
        (dt = .visibleString → validUtf8 d = true) ∧ v = decodePayload dt len d := by
  constructor
  · rintro ⟨t', len', dt, d, h, h1, h2, h3, h4⟩
    simp only [List.cons.injEq] at h
    obtain ⟨rfl, rfl, rfl⟩ := h
    exact ⟨dt, h1, d, rfl, h2, h3, h4⟩
  · rintro ⟨dt, h1, d, rfl, h2, h3, h4⟩
    exact ⟨t, len, dt, d, rfl, h1, h2, h3, h4⟩

/-- the parser accepts a value only if the octets present are exactly what the type code and the length octet
    imply, and conversely accepts every such octet string; the decoded value is a function of those octets -/
theorem attr_parse_accepts_only_exact (bs rest : List Nat) (v : Value) :
    parseValue bs = .ok (v, rest) ↔
      ∃ t len dt d, bs = t :: len :: (d ++ rest) ∧ typeOfCode t = some dt ∧ impliedLen dt len = some d.length ∧
        (dt = .visibleString → validUtf8 d = true) ∧ v = decodePayload dt len d := by
  match bs with
  | [] => simp [parseValue]
  | [t] => 
    simp only [parseValue]
    cases typeOfCode t <;> simp
  | t :: len :: r =>
    rw [rhs_iff]
    cases htc : typeOfCode t with
    | none => simp [parseValue, htc]
    | some dt =>
      simp only [Option.some.injEq, exists_eq_left']
      cases dt <;> simp only [parseValue, htc]
      case visibleString =>
        refine (take_guard_iff (fun d => .vstr d) validUtf8 .badVisibleString rfl).trans ?_
        simp [impliedLen, decodePayload]
      case unsignedInt =>
        by_cases hl : len = 1 ∨ len = 2 ∨ len = 4
        · simp only [hl, if_true]
          refine (take_then_iff (fun d => .uint (ofLe d)) rfl).trans ?_
          simp [impliedLen, hl, decodePayload]
        · simp [impliedLen, hl]
      case signedInt =>
        by_cases hl : len = 1 ∨ len = 2 ∨ len = 4
        · simp only [hl, if_true]
          refine (take_then_iff (fun d => .int (signExt (8 * len) (ofLe d))) rfl).trans ?_
          simp [impliedLen, hl, decodePayload]
        · simp [impliedLen, hl]
      case floatingPoint =>
        by_cases h4 : len = 4
        · subst h4
          simp only [if_true]
          refine (take_then_iff (fun d => .f32 (ofLe d)) rfl).trans ?_
          simp [impliedLen, decodePayload]
        · by_cases h8 : len = 8
          · subst h8
            simp only [if_true, show ¬ (8 = 4) by decide, if_false]
            refine (take_then_iff (fun d => .f64 (ofLe d)) rfl).trans ?_
            simp [impliedLen, decodePayload]
          · simp [impliedLen, h4, h8]
      case octetString =>
        refine (take_then_iff (fun d => .ostr d) rfl).trans ?_
        simp [impliedLen, decodePayload]
      case bitString =>
        refine (take_then_iff (fun d => .bstr d) rfl).trans ?_
        simp [impliedLen, decodePayload]
      case dnp3Time =>
        by_cases h6 : len = 6
        · subst h6
          simp only [ne_eq, not_true_eq_false, if_false]
          refine (take_then_iff (fun d => .time (ofLe d)) rfl).trans ?_
          simp [impliedLen, decodePayload]
        · simp [impliedLen, h6]
      case attrList =>
        simp only [parseList, parseListModulus]
        by_cases h2 : len % 2 = 0
        · simp only [h2, ne_eq, not_true_eq_false, if_false]
          refine (take_then_iff (fun d => .list (pairs d)) rfl).trans ?_
          simp [impliedLen, h2, decodePayload]
        · simp [impliedLen, h2]
      case extAttrList =>
        simp only [parseList, parseListModulus, parseExtListBias]
        by_cases h2 : (len + 256) % 2 = 0
        · simp only [h2, ne_eq, not_true_eq_false, if_false]
          refine (take_then_iff (fun d => .list (pairs d)) rfl).trans ?_
          simp [impliedLen, h2, decodePayload]
        · simp [impliedLen, h2]

-- both sides of `attr_parse_accepts_only_exact` occur: an accepted string and its witnesses
example : parseValue [4, 4, 0, 0, 128, 63, 7] = .ok (.f32 0x3F800000, [7]) := by rfl
example : typeOfCode 4 = some .floatingPoint ∧ impliedLen .floatingPoint 4 = some [0, 0, 128, 63].length ∧
    decodePayload .floatingPoint 4 [0, 0, 128, 63] = .f32 0x3F800000 := by decide
-- a refused one: a length octet that the type does not allow, a short payload, bad UTF-8
example : parseValue [2, 3, 1, 2, 3] = .error (.badIntegerLength 3) := by rfl
example : parseValue [5, 3, 1, 2] = .error .read := by rfl
example : parseValue [1, 1, 0xFF] = .error .badVisibleString := by rfl

/-- consumed octets: everything before `rest`, at least the type and length octets -/
theorem attr_parse_consumes (bs rest : List Nat) (v : Value) (h : parseValue bs = .ok (v, rest)) :
    ∃ img, bs = img ++ rest ∧ 2 ≤ img.length := by
  obtain ⟨t, len, dt, d, rfl, _⟩ := (attr_parse_accepts_only_exact bs rest v).1 h
  exact ⟨t :: len :: d, by simp, by simp⟩

example : parseValue [7, 6, 1, 2, 3, 4, 5, 6, 42] = .ok (.time 0x060504030201, [42]) := by rfl

/-! ## agreement with the value-less walk -/

theorem typeOfCode_none {t : Nat} (h1 : t ≠ 1) (h2 : t ≠ 2) (h3 : t ≠ 3) (h4 : t ≠ 4) (h5 : t ≠ 5) (h6 : t ≠ 6)
    (h7 : t ≠ 7) (h254 : t ≠ 254) (h255 : t ≠ 255) : typeOfCode t = none := by
  have e : ∀ k : Nat, t ≠ k → (k == t) = false := fun k h => by
    simp only [beq_eq_false_iff_ne, ne_eq]; exact fun h' => h h'.symm
  simp only [typeOfCode, codeTable, List.find?, e _ h1, e _ h2, e _ h3, e _ h4, e _ h5, e _ h6, e _ h7, e _ h254,
    e _ h255, Option.map_none]

theorem map_take (n : Nat) (r : List Nat) (f : List Nat → Value) :
    Except.map (fun p => p.2) (match attrTake n r with
      | .error e => (.error e : Except AttrErr (Value × List Nat))
      | .ok (d, rest) => .ok (f d, rest)) = Except.map (fun p => p.2) (attrTake n r) := by
  cases attrTake n r with
  | error e => rfl
  | ok p => rfl

theorem code_cases (t : Nat) :
    t = 1 ∨ t = 2 ∨ t = 3 ∨ t = 4 ∨ t = 5 ∨ t = 6 ∨ t = 7 ∨ t = 254 ∨ t = 255 ∨
      (typeOfCode t = none ∧ t ≠ 1 ∧ t ≠ 2 ∧ t ≠ 3 ∧ t ≠ 4 ∧ t ≠ 5 ∧ t ≠ 6 ∧ t ≠ 7 ∧ t ≠ 254 ∧ t ≠ 255) := by
  by_cases h1 : t = 1; · exact .inl h1
  by_cases h2 : t = 2; · exact .inr (.inl h2)
  by_cases h3 : t = 3; · exact .inr (.inr (.inl h3))
  by_cases h4 : t = 4; · exact .inr (.inr (.inr (.inl h4)))
  by_cases h5 : t = 5; · exact .inr (.inr (.inr (.inr (.inl h5))))
  by_cases h6 : t = 6; · exact .inr (.inr (.inr (.inr (.inr (.inl h6)))))
  by_cases h7 : t = 7; · exact .inr (.inr (.inr (.inr (.inr (.inr (.inl h7))))))
  by_cases h8 : t = 254; · exact .inr (.inr (.inr (.inr (.inr (.inr (.inr (.inl h8)))))))
  by_cases h9 : t = 255; · exact .inr (.inr (.inr (.inr (.inr (.inr (.inr (.inr (.inl h9))))))))
  exact .inr (.inr (.inr (.inr (.inr (.inr (.inr (.inr (.inr
    ⟨typeOfCode_none h1 h2 h3 h4 h5 h6 h7 h8 h9, h1, h2, h3, h4, h5, h6, h7, h8, h9⟩))))))))

open Dnp3.Gen.App in
/-- the typed value parser and the value-less `attrValue` of the object walk (Model/ObjectGrammar) accept the same
    octet strings, consume the same octets and report the same error -/
theorem parseValue_agrees_with_walk (bs : List Nat) : (parseValue bs).map (·.2) = attrValue bs := by
  match bs with
  | [] => rfl
  | [t] =>
    rcases code_cases t with rfl | rfl | rfl | rfl | rfl | rfl | rfl | rfl | rfl | ⟨hn, h1, h2, h3, h4, h5, h6, h7, h8, h9⟩
    iterate 9 rfl
    simp [parseValue, attrValue, hn, attrVisibleString, attrUnsignedInt, attrSignedInt, attrFloatingPoint,
      attrOctetString, attrBitString, attrDnp3Time, attrAttrList, attrExtAttrList, h1, h2, h3, h4, h5, h6, h7, h8, h9,
      Except.map]
  | t :: len :: r =>
    rcases code_cases t with rfl | rfl | rfl | rfl | rfl | rfl | rfl | rfl | rfl | ⟨hn, h1, h2, h3, h4, h5, h6, h7, h8, h9⟩
    · simp [parseValue, attrValue, show typeOfCode 1 = some .visibleString from rfl, attrVisibleString, attrUnsignedInt, attrSignedInt, attrFloatingPoint,
        attrOctetString, attrBitString, attrDnp3Time, attrAttrList, attrExtAttrList]
      cases attrTake len r with
      | error e => rfl
      | ok p => obtain ⟨d, rest⟩ := p; simp only []; split <;> rfl
    · simp [parseValue, attrValue, show typeOfCode 2 = some .unsignedInt from rfl, attrVisibleString, attrUnsignedInt, attrSignedInt, attrFloatingPoint,
        attrOctetString, attrBitString, attrDnp3Time, attrAttrList, attrExtAttrList]
      split
      · exact map_take _ _ _
      · rfl
    · simp [parseValue, attrValue, show typeOfCode 3 = some .signedInt from rfl, attrVisibleString, attrUnsignedInt, attrSignedInt, attrFloatingPoint,
        attrOctetString, attrBitString, attrDnp3Time, attrAttrList, attrExtAttrList]
      split
      · exact map_take _ _ _
      · rfl
    · simp [parseValue, attrValue, show typeOfCode 4 = some .floatingPoint from rfl, attrVisibleString, attrUnsignedInt, attrSignedInt, attrFloatingPoint,
        attrOctetString, attrBitString, attrDnp3Time, attrAttrList, attrExtAttrList]
      by_cases h4 : len = 4
      · subst h4; simp only [if_true, true_or]; exact map_take _ _ _
      · by_cases h8 : len = 8
        · subst h8; simp only [show ¬ (8 = 4) by decide, if_false, if_true, or_true]; exact map_take _ _ _
        · simp only [h4, h8, if_false, or_self]; rfl
    · simp [parseValue, attrValue, show typeOfCode 5 = some .octetString from rfl, attrVisibleString, attrUnsignedInt, attrSignedInt, attrFloatingPoint,
        attrOctetString, attrBitString, attrDnp3Time, attrAttrList, attrExtAttrList]
      exact map_take _ _ _
    · simp [parseValue, attrValue, show typeOfCode 6 = some .bitString from rfl, attrVisibleString, attrUnsignedInt, attrSignedInt, attrFloatingPoint,
        attrOctetString, attrBitString, attrDnp3Time, attrAttrList, attrExtAttrList]
      exact map_take _ _ _
    · simp [parseValue, attrValue, show typeOfCode 7 = some .dnp3Time from rfl, attrVisibleString, attrUnsignedInt, attrSignedInt, attrFloatingPoint,
        attrOctetString, attrBitString, attrDnp3Time, attrAttrList, attrExtAttrList]
      split
      · exact map_take _ _ _
      · rfl
    · simp [parseValue, attrValue, show typeOfCode 254 = some .attrList from rfl, attrVisibleString, attrUnsignedInt, attrSignedInt, attrFloatingPoint,
        attrOctetString, attrBitString, attrDnp3Time, attrAttrList, attrExtAttrList, parseList, parseListModulus]
      split
      · rfl
      · exact map_take _ _ _
    · simp [parseValue, attrValue, show typeOfCode 255 = some .extAttrList from rfl, attrVisibleString, attrUnsignedInt, attrSignedInt, attrFloatingPoint,
        attrOctetString, attrBitString, attrDnp3Time, attrAttrList, attrExtAttrList, parseList, parseListModulus, parseExtListBias]
      split
      · rfl
      · exact map_take _ _ _
    · simp [parseValue, attrValue, hn, attrVisibleString, attrUnsignedInt, attrSignedInt, attrFloatingPoint,
        attrOctetString, attrBitString, attrDnp3Time, attrAttrList, attrExtAttrList, h1, h2, h3, h4, h5, h6, h7, h8, h9,
        Except.map]

end Dnp3.Proofs.C09AttrValue
